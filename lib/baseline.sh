#!/bin/bash
# Run the repository's baseline test suite in DIR (default /repo) and compare with /root/.vp/BASELINE.json stable_pass.
# usage: lib/baseline.sh [DIR] [TARGET_DIR]
DIR=${1:-/repo}
TD=${2:-$DIR/target}
cd "$DIR" || exit 2
rm -f "$TD"/nextest/pb/junit.xml "$DIR"/target/nextest/pb/junit.xml
CARGO_PROFILE_DEV_DEBUG=0 CARGO_PROFILE_TEST_DEBUG=0 CARGO_INCREMENTAL=0 CARGO_TARGET_DIR="$TD" cargo nextest run --workspace --no-fail-fast --tool-config-file pb:/w/lib/nextest.toml --profile pb --test-threads 8 --offline > "$DIR/../baseline_run_$(basename $DIR).log" 2>&1
python3 - "$TD" "$DIR" <<'PY'
import json,sys,glob,xml.etree.ElementTree as ET
td=sys.argv[1]
b=json.load(open('/root/.vp/BASELINE.json'))
stable=set(b['stable_pass'])
f=glob.glob(td+"/nextest/pb/junit.xml")+glob.glob(sys.argv[2]+"/target/nextest/pb/junit.xml")
if not f: print("no junit"); sys.exit(2)
passed=set(); failed=set()
for ts in ET.parse(f[0]).getroot().iter('testsuite'):
    for tc in ts.iter('testcase'):
        name=ts.get('name')+'::'+tc.get('name')
        bad=any(c.tag in ('failure','error') for c in tc)
        (failed if bad else passed).add(name)
# names in BASELINE look like 'crate::path::test'; junit suite names may be 'crate' or 'crate::bin'; normalise by suffix matching
def norm(n): return n.replace('::tests::','::tests::')
missing=[s for s in stable if s not in passed]
if missing:
    # try looser matching: suite name may carry binary id e.g. 'cedar-policy-cli::sample'
    ps=set(passed)
    still=[]
    for s in missing:
        if not any(p.endswith(s.split('::',1)[1]) and p.split('::')[0].startswith(s.split('::')[0]) for p in ps): still.append(s)
    missing=still
print("passed",len(passed),"failed",len(failed),"stable_baseline",len(stable),"stable_not_passing",len(missing))
for m in missing[:40]: print("  REGRESSION", m)
sys.exit(1 if missing else 0)
PY
