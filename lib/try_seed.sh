#!/bin/bash
# Apply a seeded change to /repo, run the given checks (quick tier), undo the change straight afterwards.
# usage: lib/try_seed.sh <patch.diff> <PROP> [PROP...]     (env TIER=quick|thorough, SEEDNO=VERIF_SEED)
PATCH=$1; shift
cd /verif
if ! git -C /repo diff --quiet; then echo "/repo is dirty, refusing"; exit 2; fi
git -C /repo apply "$PATCH" || { echo "patch does not apply"; exit 2; }
trap 'git -C /repo checkout -- . ; git -C /repo clean -fdq -- cedar-policy cedar-policy-core cedar-policy-formatter cedar-policy-cli cedar-policy-symcc >/dev/null 2>&1' EXIT
for p in "$@"; do
  s=$(date +%s)
  out=$(VERIF_SEED=${SEEDNO:-1} ./check $p --tier ${TIER:-quick} 2>&1)
  rc=$?
  e=$(date +%s)
  echo "SEED $(basename $(dirname $PATCH))/$(basename $PATCH) check=$p rc=$rc $((e-s))s :: $(echo "$out" | grep -E 'INCONCLUSIVE|held on' | cut -c1-200 | tr '\n' '|') sigs=[$(echo "$out" | grep -oE 'signature=[^ ]+' | sort | uniq -c | sort -rn | head -6 | awk '{print $2"x"$1}' | tr '\n' ' ')]"
done
