#!/usr/bin/env python3
"""Copy the independently produced seeded changes from /tmp/seed_CXX_out/changeN into /verif/seeded/CXX-N/
(patch.diff, demo.rs, meta.json) and merge in my own confirmation (confirm.json) and the check trial results."""
import json, os, shutil, glob
trials = json.load(open('/verif/seeded/trials.json'))
for sid, t in sorted(trials.items()):
    parts = sid.split('-')               # C01-2 (round 1) or C01-r2-2 (round 2)
    pid, n = parts[0], parts[-1]
    pre = ('seed' + parts[1][1:]) if len(parts) == 3 else 'seed'   # C01-r3-1 -> /tmp/seed3_C01_out
    src = f'/tmp/{pre}_{pid}_out/change{n}'
    if not os.path.exists(src + '/patch.diff'):
        if not os.path.exists(f'/verif/seeded/{sid}/patch.diff'): print('missing', sid)
        continue
    dst = f'/verif/seeded/{sid}'
    os.makedirs(dst, exist_ok=True)
    shutil.copy(src + '/patch.diff', dst + '/patch.diff')
    shutil.copy(src + '/demo.rs', dst + '/demo.rs')
    m = json.load(open(src + '/meta.json'))
    conf = json.load(open(src + '/confirm.json')) if os.path.exists(src + '/confirm.json') else None
    meta = {
        'id': sid,
        'property': pid,
        'produced_by': 'fresh sub-agent given only the property text and a scratch worktree of /repo (no access to /verif)',
        'what_it_breaks': m.get('what_it_breaks'),
        'needs_to_manifest': m.get('needs_to_manifest'),
        'files_changed': m.get('files_changed'),
        'demo': {k: v for k, v in m.items() if k.startswith('demo')},
        'author_tests_run': m.get('tests_run'),
        'confirmed_by_main_session': None if conf is None else {
            'in': f'scratch worktree /tmp/{pre}_{pid} (removed afterwards)',
            'patch_applies': conf['patch_applies'],
            'demo_without_change_exit': conf['demo_without_change_exit'],
            'demo_with_change_exit': conf['demo_with_change_exit'],
            'repository_suite_with_change': conf['baseline_out'].strip().split('\n')[0],
            'confirmed': conf['confirmed'],
            'cmd': ('SEED_PREFIX=%s ' % pre if pre != 'seed' else '') + 'lib/confirm_seed.py %s %s  (cargo test of the demo without / with the patch, then lib/baseline.sh = the repository suite compared with BASELINE.json stable_pass)' % (pid, n),
        },
        'check_trial': dict(t, cmd='lib/try_seed.sh seeded/%s/patch.diff %s   (git -C /repo apply; ./check %s --tier quick; git -C /repo checkout -- .)' % (sid, t['check'], t['check'])),
    }
    json.dump(meta, open(dst + '/meta.json', 'w'), indent=1, ensure_ascii=False)
print('collected', len(glob.glob('/verif/seeded/*/patch.diff')))
