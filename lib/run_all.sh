#!/bin/bash
# run every registered check once (quick tier by default); prints one line per property
TIER=${1:-quick}
SEED=${2:-1}
NOBUILD=${3---no-build}
cd "$(dirname "$0")/.."
for p in $(python3 -c "import sys; sys.path.insert(0,'lib'); import props; print(' '.join(sorted(props.PROPS)))"); do
  s=$(date +%s)
  out=$(VERIF_SEED=$SEED ./check $p --tier $TIER $NOBUILD 2>&1)
  rc=$?
  e=$(date +%s)
  echo "$p rc=$rc $((e-s))s :: $(echo "$out" | grep -E 'VIOLATION|KNOWN-FINDING|INCONCLUSIVE|held on' | cut -c1-220 | tr '\n' '|')"
done
