#!/usr/bin/env python3
"""Regenerate /verif/MANIFEST.json from lib/props.py (claimed properties = those in PROPS with claim != False)."""
import json, os, sys
ROOT = os.path.dirname(os.path.dirname(os.path.abspath(__file__)))
sys.path.insert(0, os.path.join(ROOT, "lib"))
from props import PROPS, NOT_CLAIMED

props = [json.loads(l) for l in open(os.path.join(ROOT, "properties.jsonl"))]
checks = []
for p in props:
    pid = p["id"]
    if pid not in PROPS or PROPS[pid].get("claim") is False:
        continue
    c = PROPS[pid]
    checks.append({
        "property_id": pid,
        "quick_cmd": "./check %s --tier quick" % pid,
        "thorough_cmd": "./check %s --tier thorough" % pid,
        "evidence_file": "/verif/evidence/%s.json" % pid,
        "replay_cmd_template": "./check %s --replay {path}" % pid,
        "engine": "cvmon",
        "level_claimed": {
            "category": "exploration",
            "text": c.get("level_text") or ("Runtime monitoring: the real code of /repo is executed on generated, boundary and hostile inputs and an oracle written for this property judges every execution. " + c["rule"] + ". 'Held' means: held on the executions counted in the evidence file, nothing more."),
            "design_ref": "DESIGN.md section 4, " + pid,
        },
        "level_note": "; ".join(c["assumptions"]),
        "technique": c.get("technique", "runtime monitoring: reference-model / differential oracle over generated executions"),
    })
na = [{"property_id": p["id"], "reason": NOT_CLAIMED.get(p["id"], "monitor not finished yet (construction in progress, DESIGN.md section 9); not a statement that the technique cannot apply")}
      for p in props if p["id"] not in [c["property_id"] for c in checks]]
m = {
    "version": 1,
    "setup_cmd": "./check --build-only --with-cli",
    "hooks": {
        "guard": "cargo feature `verif-hooks` of cedar-policy-core (off by default)",
        "enable": "the harness crate /verif/harness depends on cedar-policy-core with features = [\"verif-hooks\", ...]; every check runs `cargo build --offline --profile verif` there first, so it rebuilds /repo's current working tree with the hook on",
        "baseline_off_cmd": "cd /repo && cargo nextest run --workspace --no-fail-fast --offline",
        "source_commits": json.load(open(os.path.join(ROOT, "lib", "hook_commits.json"))),
        "add_only": True,
    },
    "engines": [{"name": "cvmon", "path": "/verif/harness", "serves_properties": [c["property_id"] for c in checks],
                 "kind_free_text": "Rust harness linking the real cedar crates by path; reference interpreter, extension calculators, schema/world/policy generators, per-property monitors; python driver ./check shards it over 16 processes, merges reports, applies known_findings.json"}],
    "checks": checks,
    "notes": "All checks decide by runtime monitoring (exploration level). Exit 0 = held on everything explored; 1 = VIOLATION line(s) with a replay file; 3 = INCONCLUSIVE (too little observed / worker died / harness does not build) and is never folded into the other two. Known findings are listed in /verif/known_findings.json by exact signature.",
    "not_applicable": na,
}
json.dump(m, open(os.path.join(ROOT, "MANIFEST.json"), "w"), indent=1)
print("claimed:", [c["property_id"] for c in checks])
