"""Per-property budgets (per shard), non-triviality rules and assumptions."""

ORACLE_REFSEM = "the harness's reference interpreter (refsem.rs, ext.rs) is my reading of the Cedar language reference; it shares no code with /repo"
CONCRETE = "the concrete evaluator/authorizer of /repo is the oracle here; it is itself monitored against an independent model by C01/C02/C07"

PROPS = {
    "C02": {
        "rule": "case = (random world, random 'wild' expression of depth<=5 rendered with random parenthesisation/escapes); evaluated by 4 routes (Evaluator::interpret, eval_expression, when-clause via is_authorized, harness-written JSON policy) against the reference interpreter; non-trivial = expression has >=2 operator nodes and at least one route produced an answer; distinct = hash of (expression, world)",
        "assumptions": [ORACLE_REFSEM, "error classes are compared as sets where the language leaves evaluation order open (record fields)"],
        "quick": {"cases": 20000, "secs": 40, "min_distinct": 20000},
        "thorough": {"cases": 400000, "secs": 600, "min_distinct": 400000},
    },
}
