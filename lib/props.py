"""Per-property budgets (per shard), non-triviality rules and assumptions."""

ORACLE_REFSEM = "the harness's reference interpreter (refsem.rs, ext.rs) is my reading of the Cedar language reference; it shares no code with /repo"
CONCRETE = "the concrete evaluator/authorizer of /repo is the oracle here; it is itself monitored against an independent model by C01/C02/C07"

NOT_CLAIMED = {}

PROPS = {
    "C02": {
        "rule": "case = (random world, random 'wild' expression of depth<=5 rendered with random parenthesisation/escapes); evaluated by 4 routes (Evaluator::interpret, eval_expression, when-clause via is_authorized, harness-written JSON policy) against the reference interpreter; non-trivial = expression has >=2 operator nodes and at least one route produced an answer; distinct = hash of (expression, world)",
        "assumptions": [ORACLE_REFSEM, "error classes are compared as sets where the language leaves evaluation order open (record fields)"],
        "quick": {"cases": 20000, "secs": 40, "min_distinct": 20000},
        "thorough": {"cases": 400000, "secs": 600, "min_distinct": 400000},
    },
    "C07": {
        "rule": "case = one extension-type expression: every pool string through its constructor (bounded-exhaustive prefix), the boundary grid datetime x duration for offset/durationSince/comparisons and ip x ip for isInRange (bounded-exhaustive prefix), then random grammar-generated constructor strings, one-edit near misses, equality of two spellings, and every operation on boundary operands; evaluated through Evaluator::interpret and (constructors) RestrictedExpression::new_* read back from a context; oracle = independent calculators; distinct = hash of the expression; every case is non-trivial (it exercises at least one extension function)",
        "assumptions": [ORACLE_REFSEM, "raw IPv4/IPv6 address grammar is that of std::net (outside the repository); calculators in ext.rs re-implement it by hand"],
        "quick": {"cases": 60000, "secs": 40, "min_distinct": 30000},
        "thorough": {"cases": 400000, "secs": 600, "min_distinct": 1000000},
    },
    "C01": {
        "rule": "case = random world + policy set of 0..8 policies (static or template-linked) each built to have an intended outcome (satisfied / not satisfied / erroring, incl. errors hidden behind short-circuits) confirmed by the reference interpreter; the first 2*(6^0+..+6^3) indices (6^4 in thorough) enumerate every (effect, outcome) vector for n<=3 (4); the response (decision, reasons, erroring ids, error classes) is compared with the authorizer model, then the same inputs are re-presented 7 ways (same call twice, policies re-added in shuffled order with re-rendered text, ids renamed by a bijection into hostile spellings, entities shuffled / added incrementally / loaded from JSON, same Authorizer after unrelated calls) and every answer must coincide; non-trivial = >=1 policy and >=3 re-presentations answered; distinct = hash of (policies, slot bindings, world)",
        "assumptions": [ORACLE_REFSEM, "per-policy outcomes come from the reference interpreter, not from the library"],
        "quick": {"cases": 8000, "secs": 45, "min_distinct": 10000},
        "thorough": {"cases": 300000, "secs": 900, "min_distinct": 1000000},
    },
    "C03": {
        "rule": "case = random schema (namespaces, common types, optional attributes, nested records, sets, tags, memberOf cycles between types, enums, action groups, per-action contexts) + one request environment + a type-directed policy pinned to that environment (guards `has`/`hasTag` in the documented shapes; 30% of cases run the generator with a knob that omits guards or mistypes operands); validated strict and permissive; fault-free programs must be accepted (non-vacuity, frozen family), strict-accepted => permissive-accepted; each strictly accepted policy is evaluated on 8 (20 thorough) conformant worlds accepted by the library's own request/entity validation: no type / missing-attribute / unknown-function error, impossible-or-irrelevant policies never satisfied, and every value in the evaluator trace of the erased typed AST inhabits the annotated type; non-trivial = accepted (policy, env) evaluated on >=1 accepted world; distinct = hash of (schema, policy, env)",
        "assumptions": ["worlds are conformant by construction (schema.rs WorldGen) and additionally must pass the library's own Request::new / Entities::from_entities schema validation, as the property's precondition says", "non-vacuity is judged on the fixed family of program shapes produced by schema.rs TypedGen with all guards in place"],
        "quick": {"cases": 2500, "secs": 45, "min_distinct": 4000, "min_counters": {"trace_events_checked": 50000, "worlds_evaluated": 10000}},
        "thorough": {"cases": 60000, "secs": 900, "min_distinct": 300000},
    },
    "C09": {
        "rule": "case = random schema model (1-3 namespaces, common types, nested records, sets, optional attributes, tags, enums, action groups and memberOf across namespaces, names needing quotes) printed by two independent harness printers (JSON with random Entity/EntityOrCommon spelling and qualified/unqualified references; Cedar syntax with qualified/unqualified references); both loaded; each translated by the library to the other syntax (to_cedarschema / to_json_value) and reloaded; all pairs compared by ValidatorSchema ==, by a structural digest through accessors (entity types, descendants, attribute types and optionality, tags, enum choices, actions, applicable principal/resource types, context types, action descendants/groups) and by behaviour (3 policies + 3 requests/entity sets validated under every loaded schema); case 0 and 4% of cases make one side of an appliesTo empty (directed probe of the listed known finding); non-trivial = >=2 namespaces or >=1 common type; distinct = hash of (model, styles)",
        "assumptions": ["the two harness printers are written from the documented schema formats; a schema that either refuses to load is a harness error, not a verdict"],
        "quick": {"cases": 1500, "secs": 45, "min_distinct": 1500},
        "thorough": {"cases": 40000, "secs": 900, "min_distinct": 100000},
    },
    "C10": {
        "rule": "even cases: a wild world (any value shape, record keys that are or resemble the JSON escapes __entity/__extn/__expr, i64 extremes, non-BMP strings, nested sets of records of entities, extension values) without schema: store / single-entity / context to_json -> from_json must be deep_eq and equal to the model (read back through the core view), a store the model calls representable must serialise, one with reserved keys must be refused or survive unaltered; odd cases: a random schema + conformant world: with-schema and without-schema round trips of the schema-loaded store, harness-written JSON with an independent per-value choice of implicit ({type,id} / plain string / {fn,arg}) versus explicit (__entity/__extn) spelling parsed with the schema must equal the model and the explicit form parsed without it (action entities excepted), same for the context with (schema, action); non-trivial = document with >=1 entity reference or extension value (wild) / >=1 implicit form used (schema); distinct = hash of the world (and schema)",
        "assumptions": ["equality with the model is read through the doc-hidden core view of the store (attrs/tags as values, ancestors()) and through evaluating `context`"],
        "quick": {"cases": 6000, "secs": 40, "min_distinct": 10000},
        "thorough": {"cases": 200000, "secs": 900, "min_distinct": 500000},
    },
}
