#!/usr/bin/env python3
"""Confirm a seeded change in its scratch worktree: demo passes without / fails with the change, the
repository's baseline suite still passes with it.  usage: [SEED_PREFIX=seed2] confirm_seed.py CXX N"""
import json, os, re, subprocess, sys, shutil
pid, n = sys.argv[1], sys.argv[2]
pre = os.environ.get("SEED_PREFIX", "seed")          # "seed" = round 1, "seed2" = round 2
wt = f"/tmp/{pre}_{pid}"
out = f"/tmp/{pre}_{pid}_out/change{n}"
meta = json.load(open(f"{out}/meta.json"))
blob = json.dumps(meta)
m = re.search(r"--test (\w+)", blob)
test = m.group(1) if m else f"demo_seed_{pid.lower()}_{n}"
f = re.search(r"--features[ =]\\?\"?([\w,\- /]+?)(?:\\?\"| --|\"|$)", meta.get("demo_cmd", ""))
features = f.group(1).strip() if f else ""
pkg = re.search(r"-p (cedar[\w-]+)", meta.get("demo_cmd", ""))
pkg = pkg.group(1) if pkg else "cedar-policy"
demo_dst = f"{wt}/{pkg}/tests/{test}.rs"
env = dict(os.environ, CARGO_NET_OFFLINE="true", CARGO_PROFILE_DEV_DEBUG="0", CARGO_PROFILE_TEST_DEBUG="0", CARGO_INCREMENTAL="0")
def run(cmd, **kw):
    return subprocess.run(cmd, cwd=wt, env=env, stdout=subprocess.PIPE, stderr=subprocess.STDOUT, text=True, **kw)
run(["git", "checkout", "--", "."])
res = {"property": pid, "change": n, "test": test, "features": features}
os.makedirs(os.path.dirname(demo_dst), exist_ok=True)
shutil.copy(f"{out}/demo.rs", demo_dst)
cmd = ["cargo", "test", "--offline", "-p", pkg, "--test", test] + (["--features", features] if features else [])
r0 = run(cmd)
res["demo_without_change_exit"] = r0.returncode
a = run(["git", "apply", f"{out}/patch.diff"])
res["patch_applies"] = a.returncode == 0
r1 = run(cmd)
res["demo_with_change_exit"] = r1.returncode
res["demo_with_change_tail"] = r1.stdout[-600:]
os.remove(demo_dst)
b = subprocess.run(["/verif/lib/baseline.sh", wt, f"{wt}/target"], stdout=subprocess.PIPE, stderr=subprocess.STDOUT, text=True)
res["baseline_exit"] = b.returncode
res["baseline_out"] = b.stdout[-1500:]
run(["git", "checkout", "--", "."])
res["confirmed"] = bool(res["patch_applies"] and r0.returncode == 0 and r1.returncode != 0 and b.returncode == 0)
json.dump(res, open(f"{out}/confirm.json", "w"), indent=1)
print(pid, n, "confirmed" if res["confirmed"] else "NOT CONFIRMED", {k: res[k] for k in ("demo_without_change_exit", "demo_with_change_exit", "baseline_exit")}, b.stdout.strip().split("\n")[0][:200])
