//! The harness's own data types: values, expressions, policies, worlds.
//! Nothing here depends on the code under test.

use std::collections::{BTreeMap, BTreeSet};

#[derive(Clone, Debug, PartialEq, Eq, PartialOrd, Ord, Hash)]
pub struct Uid {
    /// fully qualified type name, e.g. `A` or `N::M::A`
    pub ty: String,
    pub id: String,
}

impl Uid {
    pub fn new(ty: impl AsRef<str>, id: impl AsRef<str>) -> Uid {
        Uid { ty: ty.as_ref().to_string(), id: id.as_ref().to_string() }
    }
}

#[derive(Clone, Debug, PartialEq, Eq, PartialOrd, Ord, Hash)]
pub enum ExtVal {
    /// value * 10^-4
    Decimal(i64),
    /// address as 128-bit (v4 in the low 32 bits), prefix length
    Ip { v6: bool, addr: u128, prefix: u8 },
    /// ms since epoch
    Datetime(i64),
    /// ms
    Duration(i64),
}

#[derive(Clone, Debug, PartialEq, Eq, PartialOrd, Ord, Hash)]
pub enum GValue {
    Bool(bool),
    Long(i64),
    Str(String),
    Ent(Uid),
    /// sorted, duplicate-free (under the derived total order)
    Set(Vec<GValue>),
    Rec(BTreeMap<String, GValue>),
    Ext(ExtVal),
}

impl GValue {
    pub fn set(mut xs: Vec<GValue>) -> GValue {
        xs.sort();
        xs.dedup();
        GValue::Set(xs)
    }
    pub fn kind(&self) -> &'static str {
        match self {
            GValue::Bool(_) => "bool",
            GValue::Long(_) => "long",
            GValue::Str(_) => "string",
            GValue::Ent(_) => "entity",
            GValue::Set(_) => "set",
            GValue::Rec(_) => "record",
            GValue::Ext(ExtVal::Decimal(_)) => "decimal",
            GValue::Ext(ExtVal::Ip { .. }) => "ip",
            GValue::Ext(ExtVal::Datetime(_)) => "datetime",
            GValue::Ext(ExtVal::Duration(_)) => "duration",
        }
    }
    /// all entity uids occurring anywhere in the value
    pub fn uids(&self, out: &mut BTreeSet<Uid>) {
        match self {
            GValue::Ent(u) => {
                out.insert(u.clone());
            }
            GValue::Set(xs) => xs.iter().for_each(|x| x.uids(out)),
            GValue::Rec(m) => m.values().for_each(|x| x.uids(out)),
            _ => {}
        }
    }
    /// uids reachable through records only (not through sets)
    pub fn uids_records_only(&self, out: &mut BTreeSet<Uid>) {
        match self {
            GValue::Ent(u) => {
                out.insert(u.clone());
            }
            GValue::Rec(m) => m.values().for_each(|x| x.uids_records_only(out)),
            _ => {}
        }
    }
    pub fn depth(&self) -> usize {
        match self {
            GValue::Set(xs) => 1 + xs.iter().map(|x| x.depth()).max().unwrap_or(0),
            GValue::Rec(m) => 1 + m.values().map(|x| x.depth()).max().unwrap_or(0),
            _ => 0,
        }
    }
}

#[derive(Clone, Copy, Debug, PartialEq, Eq, PartialOrd, Ord, Hash)]
pub enum Var {
    Principal,
    Action,
    Resource,
    Context,
}

#[derive(Clone, Copy, Debug, PartialEq, Eq, PartialOrd, Ord, Hash)]
pub enum Slot {
    Principal,
    Resource,
}

#[derive(Clone, Copy, Debug, PartialEq, Eq, PartialOrd, Ord, Hash)]
pub enum BinOp {
    And,
    Or,
    Eq,
    Neq,
    Lt,
    Le,
    Gt,
    Ge,
    Add,
    Sub,
    Mul,
    In,
    Contains,
    ContainsAll,
    ContainsAny,
    HasTag,
    GetTag,
}

impl BinOp {
    pub fn name(self) -> &'static str {
        match self {
            BinOp::And => "&&",
            BinOp::Or => "||",
            BinOp::Eq => "==",
            BinOp::Neq => "!=",
            BinOp::Lt => "<",
            BinOp::Le => "<=",
            BinOp::Gt => ">",
            BinOp::Ge => ">=",
            BinOp::Add => "+",
            BinOp::Sub => "-",
            BinOp::Mul => "*",
            BinOp::In => "in",
            BinOp::Contains => "contains",
            BinOp::ContainsAll => "containsAll",
            BinOp::ContainsAny => "containsAny",
            BinOp::HasTag => "hasTag",
            BinOp::GetTag => "getTag",
        }
    }
    pub fn is_method(self) -> bool {
        matches!(
            self,
            BinOp::Contains | BinOp::ContainsAll | BinOp::ContainsAny | BinOp::HasTag | BinOp::GetTag
        )
    }
    pub const ALL: [BinOp; 17] = [
        BinOp::And,
        BinOp::Or,
        BinOp::Eq,
        BinOp::Neq,
        BinOp::Lt,
        BinOp::Le,
        BinOp::Gt,
        BinOp::Ge,
        BinOp::Add,
        BinOp::Sub,
        BinOp::Mul,
        BinOp::In,
        BinOp::Contains,
        BinOp::ContainsAll,
        BinOp::ContainsAny,
        BinOp::HasTag,
        BinOp::GetTag,
    ];
}

#[derive(Clone, Debug, PartialEq, Eq, PartialOrd, Ord, Hash)]
pub enum PatElem {
    Char(char),
    Wild,
}

/// Full surface syntax, including the sugar the parser removes.
#[derive(Clone, Debug, PartialEq, Eq, PartialOrd, Ord, Hash)]
pub enum GExpr {
    Bool(bool),
    /// may be negative: a negative literal
    Long(i64),
    Str(String),
    Ent(Uid),
    Var(Var),
    Slot(Slot),
    Not(Box<GExpr>),
    Neg(Box<GExpr>),
    Bin(BinOp, Box<GExpr>, Box<GExpr>),
    If(Box<GExpr>, Box<GExpr>, Box<GExpr>),
    IsEmpty(Box<GExpr>),
    /// `e has a.b.c` (path non-empty)
    Has(Box<GExpr>, Vec<String>),
    Attr(Box<GExpr>, String),
    Like(Box<GExpr>, Vec<PatElem>),
    /// `e is T` / `e is T in x`
    Is(Box<GExpr>, String, Option<Box<GExpr>>),
    Set(Vec<GExpr>),
    Rec(Vec<(String, GExpr)>),
    /// extension call by name; for methods the receiver is args[0]
    Call(String, Vec<GExpr>),
}

impl GExpr {
    pub fn b(self) -> Box<GExpr> {
        Box::new(self)
    }
    pub fn bin(op: BinOp, l: GExpr, r: GExpr) -> GExpr {
        GExpr::Bin(op, l.b(), r.b())
    }
    pub fn and(l: GExpr, r: GExpr) -> GExpr {
        GExpr::bin(BinOp::And, l, r)
    }
    pub fn or(l: GExpr, r: GExpr) -> GExpr {
        GExpr::bin(BinOp::Or, l, r)
    }
    pub fn eq(l: GExpr, r: GExpr) -> GExpr {
        GExpr::bin(BinOp::Eq, l, r)
    }
    pub fn attr(e: GExpr, a: &str) -> GExpr {
        GExpr::Attr(e.b(), a.to_string())
    }
    pub fn has(e: GExpr, a: &str) -> GExpr {
        GExpr::Has(e.b(), vec![a.to_string()])
    }
    pub fn ite(c: GExpr, t: GExpr, e: GExpr) -> GExpr {
        GExpr::If(c.b(), t.b(), e.b())
    }
    pub fn call(f: impl AsRef<str>, args: Vec<GExpr>) -> GExpr {
        GExpr::Call(f.as_ref().to_string(), args)
    }
    pub fn from_value(v: &GValue) -> GExpr {
        match v {
            GValue::Bool(b) => GExpr::Bool(*b),
            GValue::Long(n) => GExpr::Long(*n),
            GValue::Str(s) => GExpr::Str(s.clone()),
            GValue::Ent(u) => GExpr::Ent(u.clone()),
            GValue::Set(xs) => GExpr::Set(xs.iter().map(GExpr::from_value).collect()),
            GValue::Rec(m) => GExpr::Rec(m.iter().map(|(k, v)| (k.clone(), GExpr::from_value(v))).collect()),
            GValue::Ext(x) => {
                let (f, s) = crate::ext::canonical_ctor(x);
                GExpr::Call(f.to_string(), vec![GExpr::Str(s)])
            }
        }
    }
    pub fn depth(&self) -> usize {
        let mut d = 0usize;
        self.for_children(|c| d = d.max(c.depth()));
        d + 1
    }
    pub fn size(&self) -> usize {
        let mut n = 1usize;
        self.for_children(|c| n += c.size());
        n
    }
    /// number of operator nodes (non-leaf nodes)
    pub fn ops(&self) -> usize {
        let mut n = 0usize;
        let mut any = false;
        self.for_children(|c| {
            any = true;
            n += c.ops()
        });
        let is_op = !matches!(
            self,
            GExpr::Bool(_) | GExpr::Long(_) | GExpr::Str(_) | GExpr::Ent(_) | GExpr::Var(_) | GExpr::Slot(_)
        );
        let _ = any;
        n + if is_op { 1 } else { 0 }
    }
    pub fn for_children<'a>(&'a self, mut f: impl FnMut(&'a GExpr)) {
        match self {
            GExpr::Bool(_) | GExpr::Long(_) | GExpr::Str(_) | GExpr::Ent(_) | GExpr::Var(_) | GExpr::Slot(_) => {}
            GExpr::Not(a) | GExpr::Neg(a) | GExpr::IsEmpty(a) | GExpr::Has(a, _) | GExpr::Attr(a, _) | GExpr::Like(a, _) => f(a),
            GExpr::Bin(_, a, b) => {
                f(a);
                f(b)
            }
            GExpr::If(a, b, c) => {
                f(a);
                f(b);
                f(c)
            }
            GExpr::Is(a, _, x) => {
                f(a);
                if let Some(x) = x {
                    f(x)
                }
            }
            GExpr::Set(xs) | GExpr::Call(_, xs) => xs.iter().for_each(f),
            GExpr::Rec(fs) => fs.iter().for_each(|(_, e)| f(e)),
        }
    }
    pub fn has_slot(&self) -> bool {
        if matches!(self, GExpr::Slot(_)) {
            return true;
        }
        let mut r = false;
        self.for_children(|c| r |= c.has_slot());
        r
    }
    pub fn node_name(&self) -> String {
        match self {
            GExpr::Bool(_) => "lit-bool".into(),
            GExpr::Long(_) => "lit-long".into(),
            GExpr::Str(_) => "lit-str".into(),
            GExpr::Ent(_) => "lit-ent".into(),
            GExpr::Var(_) => "var".into(),
            GExpr::Slot(_) => "slot".into(),
            GExpr::Not(_) => "!".into(),
            GExpr::Neg(_) => "neg".into(),
            GExpr::Bin(op, _, _) => op.name().into(),
            GExpr::If(..) => "if".into(),
            GExpr::IsEmpty(_) => "isEmpty".into(),
            GExpr::Has(_, p) => if p.len() > 1 { "has-chain".into() } else { "has".into() },
            GExpr::Attr(..) => ".".into(),
            GExpr::Like(..) => "like".into(),
            GExpr::Is(_, _, None) => "is".into(),
            GExpr::Is(_, _, Some(_)) => "is-in".into(),
            GExpr::Set(_) => "set".into(),
            GExpr::Rec(_) => "record".into(),
            GExpr::Call(f, _) => f.clone(),
        }
    }
}

#[derive(Clone, Copy, Debug, PartialEq, Eq, PartialOrd, Ord, Hash)]
pub enum Effect {
    Permit,
    Forbid,
}

#[derive(Clone, Debug, PartialEq, Eq, PartialOrd, Ord, Hash)]
pub enum EntOrSlot {
    Ent(Uid),
    Slot,
}

/// principal / resource scope constraint
#[derive(Clone, Debug, PartialEq, Eq, PartialOrd, Ord, Hash)]
pub enum ScopePR {
    Any,
    Eq(EntOrSlot),
    In(EntOrSlot),
    Is(String),
    IsIn(String, EntOrSlot),
}

#[derive(Clone, Debug, PartialEq, Eq, PartialOrd, Ord, Hash)]
pub enum ScopeA {
    Any,
    Eq(Uid),
    In(Uid),
    InList(Vec<Uid>),
}

#[derive(Clone, Debug, PartialEq, Eq, PartialOrd, Ord, Hash)]
pub struct GPolicy {
    pub annotations: Vec<(String, String)>,
    pub effect: Effect,
    pub principal: ScopePR,
    pub action: ScopeA,
    pub resource: ScopePR,
    /// (is_when, condition)
    pub conds: Vec<(bool, GExpr)>,
}

impl GPolicy {
    pub fn simple(effect: Effect, cond: GExpr) -> GPolicy {
        GPolicy {
            annotations: vec![],
            effect,
            principal: ScopePR::Any,
            action: ScopeA::Any,
            resource: ScopePR::Any,
            conds: vec![(true, cond)],
        }
    }
    pub fn is_template(&self) -> bool {
        self.has_slot(Slot::Principal) || self.has_slot(Slot::Resource)
    }
    pub fn has_slot(&self, s: Slot) -> bool {
        let sc = match s {
            Slot::Principal => &self.principal,
            Slot::Resource => &self.resource,
        };
        matches!(sc, ScopePR::Eq(EntOrSlot::Slot) | ScopePR::In(EntOrSlot::Slot) | ScopePR::IsIn(_, EntOrSlot::Slot))
    }
    /// substitute slots by entities (textual substitution of the template)
    pub fn substitute(&self, p: Option<&Uid>, r: Option<&Uid>) -> GPolicy {
        fn sub(sc: &ScopePR, u: Option<&Uid>) -> ScopePR {
            let f = |e: &EntOrSlot| match (e, u) {
                (EntOrSlot::Slot, Some(u)) => EntOrSlot::Ent(u.clone()),
                (e, _) => e.clone(),
            };
            match sc {
                ScopePR::Eq(e) => ScopePR::Eq(f(e)),
                ScopePR::In(e) => ScopePR::In(f(e)),
                ScopePR::IsIn(t, e) => ScopePR::IsIn(t.clone(), f(e)),
                x => x.clone(),
            }
        }
        GPolicy {
            principal: sub(&self.principal, p),
            resource: sub(&self.resource, r),
            ..self.clone()
        }
    }
    /// The condition `scope && when1 && !unless1 ...` as one expression (reference reading of a policy).
    pub fn condition(&self) -> GExpr {
        fn pr(v: Var, slot: Slot, sc: &ScopePR) -> GExpr {
            let e = |x: &EntOrSlot| match x {
                EntOrSlot::Ent(u) => GExpr::Ent(u.clone()),
                EntOrSlot::Slot => GExpr::Slot(slot),
            };
            match sc {
                ScopePR::Any => GExpr::Bool(true),
                ScopePR::Eq(x) => GExpr::eq(GExpr::Var(v), e(x)),
                ScopePR::In(x) => GExpr::bin(BinOp::In, GExpr::Var(v), e(x)),
                ScopePR::Is(t) => GExpr::Is(GExpr::Var(v).b(), t.clone(), None),
                ScopePR::IsIn(t, x) => GExpr::Is(GExpr::Var(v).b(), t.clone(), Some(e(x).b())),
            }
        }
        let a = match &self.action {
            ScopeA::Any => GExpr::Bool(true),
            ScopeA::Eq(u) => GExpr::eq(GExpr::Var(Var::Action), GExpr::Ent(u.clone())),
            ScopeA::In(u) => GExpr::bin(BinOp::In, GExpr::Var(Var::Action), GExpr::Ent(u.clone())),
            ScopeA::InList(us) => GExpr::bin(
                BinOp::In,
                GExpr::Var(Var::Action),
                GExpr::Set(us.iter().map(|u| GExpr::Ent(u.clone())).collect()),
            ),
        };
        let mut c = GExpr::and(
            GExpr::and(pr(Var::Principal, Slot::Principal, &self.principal), a),
            pr(Var::Resource, Slot::Resource, &self.resource),
        );
        for (is_when, e) in &self.conds {
            let e = if *is_when { e.clone() } else { GExpr::Not(e.clone().b()) };
            c = GExpr::and(c, e);
        }
        c
    }
}

#[derive(Clone, Debug, Default, PartialEq, Eq, PartialOrd, Ord, Hash)]
pub struct GEntity {
    pub parents: BTreeSet<Uid>,
    pub attrs: BTreeMap<String, GValue>,
    pub tags: BTreeMap<String, GValue>,
}

#[derive(Clone, Debug, PartialEq, Eq, Hash)]
pub struct GWorld {
    pub principal: Uid,
    pub action: Uid,
    pub resource: Uid,
    pub context: BTreeMap<String, GValue>,
    pub entities: BTreeMap<Uid, GEntity>,
}

impl GWorld {
    /// reflexive-transitive reachability over direct parents (parents without a record are leaves)
    pub fn reaches(&self, from: &Uid, to: &Uid) -> bool {
        if from == to {
            return true;
        }
        let mut seen: BTreeSet<&Uid> = BTreeSet::new();
        let mut stack: Vec<&Uid> = vec![from];
        while let Some(u) = stack.pop() {
            if !seen.insert(u) {
                continue;
            }
            if let Some(e) = self.entities.get(u) {
                for p in &e.parents {
                    if p == to {
                        return true;
                    }
                    stack.push(p);
                }
            }
        }
        false
    }
    /// all proper ancestors of `from`
    pub fn ancestors(&self, from: &Uid) -> BTreeSet<Uid> {
        let mut out = BTreeSet::new();
        let mut stack: Vec<Uid> = self.entities.get(from).map(|e| e.parents.iter().cloned().collect()).unwrap_or_default();
        while let Some(u) = stack.pop() {
            if !out.insert(u.clone()) {
                continue;
            }
            if let Some(e) = self.entities.get(&u) {
                for p in &e.parents {
                    stack.push(p.clone());
                }
            }
        }
        out
    }
    /// true iff the direct-parent graph has a cycle through present entities
    pub fn has_cycle(&self) -> bool {
        self.entities.keys().any(|u| self.ancestors(u).contains(u))
    }
}
