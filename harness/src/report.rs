//! Evidence counters, distinct-case hashing, samples, violations, journal.

use crate::rng::{hash_str, Rng};
use serde_json::{json, Value as J};
use std::collections::{BTreeMap, HashSet};
use std::io::Write;

#[derive(Clone, Copy, Debug, PartialEq, Eq)]
pub enum Tier {
    Quick,
    Thorough,
}

#[derive(Clone, Debug)]
pub struct Violation {
    pub signature: String,
    pub what: String,
    pub case: u64,
    pub detail: J,
}

pub struct Report {
    pub prop: String,
    pub cases: u64,
    pub counters: BTreeMap<String, u64>,
    pub hashes: HashSet<u64>,
    pub samples: Vec<J>,
    pub violations: Vec<Violation>,
    pub harness_errors: Vec<String>,
    pub max_violations: usize,
}

impl Report {
    pub fn new(prop: &str) -> Self {
        Report {
            prop: prop.to_string(),
            cases: 0,
            counters: BTreeMap::new(),
            hashes: HashSet::new(),
            samples: vec![],
            violations: vec![],
            harness_errors: vec![],
            max_violations: 200,
        }
    }
    pub fn to_json(&self) -> J {
        json!({
            "property": self.prop,
            "cases": self.cases,
            "counters": self.counters,
            "distinct": self.hashes.len(),
            "samples": self.samples,
            "violations": self.violations.iter().map(|v| json!({
                "signature": v.signature, "what": v.what, "case": v.case, "detail": v.detail})).collect::<Vec<_>>(),
            "harness_errors": self.harness_errors,
        })
    }
}

pub struct CaseCtx<'a> {
    pub idx: u64,
    pub rng: Rng,
    pub tier: Tier,
    pub seed: u64,
    pub rep: &'a mut Report,
    pub verbose: bool,
}

impl<'a> CaseCtx<'a> {
    pub fn count(&mut self, k: &str) {
        *self.rep.counters.entry(k.to_string()).or_insert(0) += 1;
    }
    pub fn add(&mut self, k: &str, n: u64) {
        *self.rep.counters.entry(k.to_string()).or_insert(0) += n;
    }
    pub fn max(&mut self, k: &str, n: u64) {
        let e = self.rep.counters.entry(format!("max:{k}")).or_insert(0);
        if n > *e {
            *e = n;
        }
    }
    /// register a distinct non-trivial case by its canonical rendering
    pub fn nontrivial(&mut self, canonical: &str) {
        self.rep.hashes.insert(hash_str(canonical));
    }
    pub fn sample(&mut self, f: impl FnOnce() -> J) {
        let n = self.rep.samples.len();
        if n < 3 || (n < 8 && self.rep.cases % 997 == 0) {
            let mut s = f();
            if let J::Object(m) = &mut s {
                m.insert("case".into(), json!(self.idx));
            }
            self.rep.samples.push(s);
        }
    }
    pub fn violation(&mut self, signature: &str, what: String, detail: J) {
        if self.verbose {
            eprintln!("VIOLATION[{}] case {}: {} :: {}", signature, self.idx, what, detail);
        }
        // keep a few witnesses per signature (so one noisy class cannot hide the others), count the rest
        let n = self.rep.counters.entry(format!("violation:{signature}")).or_insert(0);
        *n += 1;
        if *n <= 3 && self.rep.violations.len() < self.rep.max_violations {
            self.rep.violations.push(Violation { signature: signature.to_string(), what, case: self.idx, detail });
        } else {
            *self.rep.counters.entry("violations_not_recorded".into()).or_insert(0) += 1;
        }
    }
    pub fn harness_error(&mut self, what: String) {
        if self.verbose {
            eprintln!("HARNESS-ERROR case {}: {}", self.idx, what);
        }
        if self.rep.harness_errors.len() < 20 {
            self.rep.harness_errors.push(format!("case {}: {}", self.idx, what));
        }
        *self.rep.counters.entry("harness_errors".into()).or_insert(0) += 1;
    }
    pub fn thorough(&self) -> bool {
        self.tier == Tier::Thorough
    }
}

pub fn write_hashes(path: &str, hs: &HashSet<u64>) -> std::io::Result<()> {
    let mut v: Vec<u64> = hs.iter().copied().collect();
    v.sort_unstable();
    let mut f = std::io::BufWriter::new(std::fs::File::create(path)?);
    for h in v {
        f.write_all(&h.to_le_bytes())?;
    }
    f.flush()
}

pub fn count_union(paths: &[String]) -> std::io::Result<usize> {
    let mut all: Vec<u64> = vec![];
    for p in paths {
        let b = std::fs::read(p)?;
        for c in b.chunks_exact(8) {
            all.push(u64::from_le_bytes([c[0], c[1], c[2], c[3], c[4], c[5], c[6], c[7]]));
        }
    }
    all.sort_unstable();
    all.dedup();
    Ok(all.len())
}
