//! SplitMix64 / xoshiro256** — all randomness of the harness flows from here.

#[derive(Clone, Debug)]
pub struct Rng {
    s: [u64; 4],
}

pub fn splitmix(x: &mut u64) -> u64 {
    *x = x.wrapping_add(0x9E3779B97F4A7C15);
    let mut z = *x;
    z = (z ^ (z >> 30)).wrapping_mul(0xBF58476D1CE4E5B9);
    z = (z ^ (z >> 27)).wrapping_mul(0x94D049BB133111EB);
    z ^ (z >> 31)
}

pub fn mix(a: u64, b: u64) -> u64 {
    let mut x = a ^ b.rotate_left(32) ^ 0xD1B54A32D192ED03;
    let r = splitmix(&mut x);
    splitmix(&mut x) ^ r.rotate_left(17)
}

pub fn hash_str(s: &str) -> u64 {
    // FNV-1a 64, then mixed
    let mut h: u64 = 0xcbf29ce484222325;
    for b in s.as_bytes() {
        h ^= *b as u64;
        h = h.wrapping_mul(0x100000001b3);
    }
    let mut x = h;
    splitmix(&mut x)
}

impl Rng {
    pub fn new(seed: u64) -> Self {
        let mut x = seed;
        let s = [
            splitmix(&mut x),
            splitmix(&mut x),
            splitmix(&mut x),
            splitmix(&mut x),
        ];
        Rng { s }
    }
    /// Independent stream for (seed, a, b)
    pub fn derive(seed: u64, a: u64, b: u64) -> Self {
        Rng::new(mix(mix(seed, a), b))
    }
    pub fn next_u64(&mut self) -> u64 {
        let r = self.s[1].wrapping_mul(5).rotate_left(7).wrapping_mul(9);
        let t = self.s[1] << 17;
        self.s[2] ^= self.s[0];
        self.s[3] ^= self.s[1];
        self.s[1] ^= self.s[2];
        self.s[0] ^= self.s[3];
        self.s[2] ^= t;
        self.s[3] = self.s[3].rotate_left(45);
        r
    }
    /// uniform in 0..n (n>0)
    pub fn below(&mut self, n: usize) -> usize {
        debug_assert!(n > 0);
        (self.next_u64() % (n as u64)) as usize
    }
    /// uniform in lo..=hi
    pub fn range(&mut self, lo: i64, hi: i64) -> i64 {
        let span = (hi as i128 - lo as i128 + 1) as u128;
        (lo as i128 + (self.next_u64() as u128 % span) as i128) as i64
    }
    pub fn chance(&mut self, num: u32, den: u32) -> bool {
        (self.next_u64() % den as u64) < num as u64
    }
    pub fn bool(&mut self) -> bool {
        self.next_u64() & 1 == 1
    }
    pub fn pick<'a, T>(&mut self, xs: &'a [T]) -> &'a T {
        &xs[self.below(xs.len())]
    }
    pub fn pick_clone<T: Clone>(&mut self, xs: &[T]) -> T {
        xs[self.below(xs.len())].clone()
    }
    /// weighted choice; returns index
    pub fn weighted(&mut self, ws: &[u32]) -> usize {
        let tot: u64 = ws.iter().map(|w| *w as u64).sum();
        let mut r = self.next_u64() % tot;
        for (i, w) in ws.iter().enumerate() {
            if r < *w as u64 {
                return i;
            }
            r -= *w as u64;
        }
        ws.len() - 1
    }
    pub fn shuffle<T>(&mut self, xs: &mut [T]) {
        for i in (1..xs.len()).rev() {
            let j = self.below(i + 1);
            xs.swap(i, j);
        }
    }
    pub fn i64_any(&mut self) -> i64 {
        self.next_u64() as i64
    }
}
