//! Extension-type calculators, written from the language documentation.
//! No chrono, no regex, nothing from the code under test.

use crate::model::{ExtVal, GValue};
use crate::refsem::{ErrSet, EXTENSION, TYPE};

// ------------------------------------------------------------------ decimal

/// `-?[0-9]+\.[0-9]{1,4}`, value in units of 10^-4, must fit i64
pub fn parse_decimal(s: &str) -> Option<i64> {
    let (neg, body) = match s.strip_prefix('-') {
        Some(r) => (true, r),
        None => (false, s),
    };
    let (int, frac) = body.split_once('.')?;
    if int.is_empty() || frac.is_empty() || frac.len() > 4 {
        return None;
    }
    if !int.bytes().all(|b| b.is_ascii_digit()) || !frac.bytes().all(|b| b.is_ascii_digit()) {
        return None;
    }
    let mut v: i128 = 0;
    for b in int.bytes() {
        v = v.checked_mul(10)?.checked_add((b - b'0') as i128)?;
        if v > (1i128 << 70) {
            return None;
        }
    }
    let mut f: i128 = 0;
    for b in frac.bytes() {
        f = f * 10 + (b - b'0') as i128;
    }
    for _ in frac.len()..4 {
        f *= 10;
    }
    let mut tot = v * 10_000 + f;
    if neg {
        tot = -tot;
    }
    i64::try_from(tot).ok()
}

pub fn fmt_decimal(v: i64) -> String {
    let a = (v as i128).abs();
    format!("{}{}.{:04}", if v < 0 { "-" } else { "" }, a / 10_000, a % 10_000)
}

// ------------------------------------------------------------------ ip

fn parse_v4(s: &str) -> Option<u128> {
    let parts: Vec<&str> = s.split('.').collect();
    if parts.len() != 4 {
        return None;
    }
    let mut a: u128 = 0;
    for p in parts {
        if p.is_empty() || p.len() > 3 || !p.bytes().all(|b| b.is_ascii_digit()) {
            return None;
        }
        if p.len() > 1 && p.starts_with('0') {
            return None;
        }
        let n: u32 = p.parse().ok()?;
        if n > 255 {
            return None;
        }
        a = (a << 8) | n as u128;
    }
    Some(a)
}

fn parse_groups(s: &str) -> Option<Vec<u16>> {
    if s.is_empty() {
        return Some(vec![]);
    }
    let mut out = vec![];
    for g in s.split(':') {
        if g.is_empty() || g.len() > 4 || !g.bytes().all(|b| b.is_ascii_hexdigit()) {
            return None;
        }
        out.push(u16::from_str_radix(g, 16).ok()?);
    }
    Some(out)
}

fn parse_v6(s: &str) -> Option<u128> {
    // no embedded IPv4 (the extension refuses it), no zone ids
    let groups: Vec<u16> = if let Some(i) = s.find("::") {
        let (h, t) = (&s[..i], &s[i + 2..]);
        if t.contains("::") {
            return None;
        }
        let h = parse_groups(h)?;
        let t = parse_groups(t)?;
        if h.len() + t.len() > 7 {
            return None;
        }
        let mut g = h.clone();
        g.extend(std::iter::repeat(0).take(8 - h.len() - t.len()));
        g.extend(t);
        g
    } else {
        let g = parse_groups(s)?;
        if g.len() != 8 {
            return None;
        }
        g
    };
    let mut a: u128 = 0;
    for g in groups {
        a = (a << 16) | g as u128;
    }
    Some(a)
}

/// (is_v6, address, prefix)
pub fn parse_ip(s: &str) -> Option<(bool, u128, u8)> {
    if s.len() > 43 {
        return None;
    }
    let colons = s.bytes().filter(|b| *b == b':').count();
    let dots = s.bytes().filter(|b| *b == b'.').count();
    if colons >= 2 && dots >= 2 {
        return None;
    }
    let (addr, prefix) = match s.split_once('/') {
        Some((a, p)) => (a, Some(p)),
        None => (s, None),
    };
    let (v6, a) = if let Some(a) = parse_v4(addr) {
        (false, a)
    } else if let Some(a) = parse_v6(addr) {
        (true, a)
    } else {
        return None;
    };
    let max = if v6 { 128u32 } else { 32 };
    let p = match prefix {
        None => max,
        Some(p) => {
            let maxlen = if v6 { 3 } else { 2 };
            if p.is_empty() || p.len() > maxlen || !p.bytes().all(|b| b.is_ascii_digit()) {
                return None;
            }
            if p.len() > 1 && p.starts_with('0') {
                return None;
            }
            let n: u32 = p.parse().ok()?;
            if n > max {
                return None;
            }
            n
        }
    };
    Some((v6, a, p as u8))
}

pub fn ip_range(v6: bool, addr: u128, prefix: u8) -> (u128, u128) {
    let bits: u32 = if v6 { 128 } else { 32 };
    let host = bits - prefix as u32;
    let all: u128 = if v6 { u128::MAX } else { 0xFFFF_FFFF };
    let hostmask: u128 = if host == 0 {
        0
    } else if host >= 128 {
        u128::MAX
    } else {
        (1u128 << host) - 1
    };
    let lo = addr & !hostmask & all;
    let hi = (addr | hostmask) & all;
    (lo, hi)
}

fn ip_in_range(a: (bool, u128, u8), b: (bool, u128, u8)) -> bool {
    if a.0 != b.0 {
        return false;
    }
    let (alo, ahi) = ip_range(a.0, a.1, a.2);
    let (blo, bhi) = ip_range(b.0, b.1, b.2);
    blo <= alo && ahi <= bhi
}

pub fn fmt_ip(v6: bool, addr: u128, prefix: u8) -> String {
    if v6 {
        format!("{}/{}", std::net::Ipv6Addr::from(addr), prefix)
    } else {
        format!("{}/{}", std::net::Ipv4Addr::from(addr as u32), prefix)
    }
}

// ------------------------------------------------------------------ datetime

pub const DAY_MS: i64 = 86_400_000;

fn is_leap(y: i64) -> bool {
    (y % 4 == 0 && y % 100 != 0) || y % 400 == 0
}

fn days_in_month(y: i64, m: i64) -> i64 {
    match m {
        1 | 3 | 5 | 7 | 8 | 10 | 12 => 31,
        4 | 6 | 9 | 11 => 30,
        2 => {
            if is_leap(y) {
                29
            } else {
                28
            }
        }
        _ => 0,
    }
}

/// days since 1970-01-01 of a proleptic Gregorian civil date
pub fn days_from_civil(y: i64, m: i64, d: i64) -> i64 {
    let y = if m <= 2 { y - 1 } else { y };
    let era = if y >= 0 { y } else { y - 399 } / 400;
    let yoe = y - era * 400;
    let mp = (m + 9) % 12;
    let doy = (153 * mp + 2) / 5 + d - 1;
    let doe = yoe * 365 + yoe / 4 - yoe / 100 + doy;
    era * 146097 + doe - 719468
}

pub fn civil_from_days(z: i64) -> (i64, i64, i64) {
    let z = z + 719468;
    let era = if z >= 0 { z } else { z - 146096 } / 146097;
    let doe = z - era * 146097;
    let yoe = (doe - doe / 1460 + doe / 36524 - doe / 146096) / 365;
    let y = yoe + era * 400;
    let doy = doe - (365 * yoe + yoe / 4 - yoe / 100);
    let mp = (5 * doy + 2) / 153;
    let d = doy - (153 * mp + 2) / 5 + 1;
    let m = if mp < 10 { mp + 3 } else { mp - 9 };
    (if m <= 2 { y + 1 } else { y }, m, d)
}

fn digits(s: &[u8]) -> Option<i64> {
    if s.is_empty() || !s.iter().all(|b| b.is_ascii_digit()) {
        return None;
    }
    let mut v = 0i64;
    for b in s {
        v = v * 10 + (b - b'0') as i64;
    }
    Some(v)
}

/// ms since epoch
pub fn parse_datetime(s: &str) -> Option<i64> {
    let b = s.as_bytes();
    if b.len() < 10 {
        return None;
    }
    if b[4] != b'-' || b[7] != b'-' {
        return None;
    }
    let y = digits(&b[0..4])?;
    let m = digits(&b[5..7])?;
    let d = digits(&b[8..10])?;
    if !(1..=12).contains(&m) || d < 1 || d > days_in_month(y, m) {
        return None;
    }
    let date_ms = days_from_civil(y, m, d) * DAY_MS;
    if b.len() == 10 {
        return Some(date_ms);
    }
    // Thh:mm:ss
    if b.len() < 20 || b[10] != b'T' || b[13] != b':' || b[16] != b':' {
        return None;
    }
    let hh = digits(&b[11..13])?;
    let mm = digits(&b[14..16])?;
    let ss = digits(&b[17..19])?;
    if hh >= 24 || mm >= 60 || ss >= 60 {
        return None;
    }
    let mut rest = &b[19..];
    let mut ms = 0i64;
    if rest[0] == b'.' {
        if rest.len() < 5 {
            return None;
        }
        ms = digits(&rest[1..4])?;
        rest = &rest[4..];
    }
    let off_ms: i64 = match rest {
        [b'Z'] => 0,
        [sign @ (b'+' | b'-'), o @ ..] if o.len() == 4 => {
            let oh = digits(&o[0..2])?;
            let om = digits(&o[2..4])?;
            if oh >= 24 || om >= 60 {
                return None;
            }
            let v = (oh * 3600 + om * 60) * 1000;
            if *sign == b'+' {
                v
            } else {
                -v
            }
        }
        _ => return None,
    };
    Some(date_ms + ((hh * 3600 + mm * 60 + ss) * 1000 + ms) - off_ms)
}

/// Some(..) only when the instant falls in years 0000..=9999
pub fn fmt_datetime(ms: i64) -> Option<String> {
    let days = ms.div_euclid(DAY_MS);
    let t = ms.rem_euclid(DAY_MS);
    let (y, m, d) = civil_from_days(days);
    if !(0..=9999).contains(&y) {
        return None;
    }
    let (hh, mm, ss, mss) = (t / 3_600_000, (t / 60_000) % 60, (t / 1000) % 60, t % 1000);
    Some(format!("{:04}-{:02}-{:02}T{:02}:{:02}:{:02}.{:03}Z", y, m, d, hh, mm, ss, mss))
}

// ------------------------------------------------------------------ duration

/// optional `-`, then d h m s ms each at most once in that order, at least one
pub fn parse_duration(s: &str) -> Option<i64> {
    let (neg, body) = match s.strip_prefix('-') {
        Some(r) => (true, r),
        None => (false, s),
    };
    if body.is_empty() {
        return None;
    }
    let b = body.as_bytes();
    let units: [(&str, i128); 5] = [("d", 86_400_000), ("h", 3_600_000), ("m", 60_000), ("s", 1000), ("ms", 1)];
    let mut i = 0usize;
    let mut next_unit = 0usize;
    let mut total: i128 = 0;
    while i < b.len() {
        let st = i;
        while i < b.len() && b[i].is_ascii_digit() {
            i += 1;
        }
        if i == st {
            return None;
        }
        let mut q: i128 = 0;
        for c in &b[st..i] {
            q = q.checked_mul(10)?.checked_add((c - b'0') as i128)?;
            if q > (1i128 << 80) {
                return None;
            }
        }
        // unit: longest match among "ms","m","d","h","s"
        let rest = &body[i..];
        let unit = if rest.starts_with("ms") {
            "ms"
        } else if rest.starts_with('d') {
            "d"
        } else if rest.starts_with('h') {
            "h"
        } else if rest.starts_with('m') {
            "m"
        } else if rest.starts_with('s') {
            "s"
        } else {
            return None;
        };
        i += unit.len();
        let idx = units.iter().position(|(u, _)| *u == unit)?;
        if idx < next_unit {
            return None;
        }
        next_unit = idx + 1;
        total += q * units[idx].1;
    }
    if neg {
        total = -total;
    }
    i64::try_from(total).ok()
}

// ------------------------------------------------------------------ canonical constructors

pub fn canonical_ctor(x: &ExtVal) -> (&'static str, String) {
    match x {
        ExtVal::Decimal(v) => ("decimal", fmt_decimal(*v)),
        ExtVal::Ip { v6, addr, prefix } => ("ip", fmt_ip(*v6, *addr, *prefix)),
        ExtVal::Datetime(ms) => (
            "datetime",
            fmt_datetime(*ms).unwrap_or_else(|| panic!("harness: datetime {} not representable as constructor string", ms)),
        ),
        ExtVal::Duration(ms) => ("duration", format!("{}ms", ms)),
    }
}

// ------------------------------------------------------------------ calls

pub const CTORS: [&str; 4] = ["decimal", "ip", "datetime", "duration"];
/// (name, receiver kind, arg kinds)
pub const METHODS: [(&str, &str, &[&str]); 20] = [
    ("lessThan", "decimal", &["decimal"]),
    ("lessThanOrEqual", "decimal", &["decimal"]),
    ("greaterThan", "decimal", &["decimal"]),
    ("greaterThanOrEqual", "decimal", &["decimal"]),
    ("isIpv4", "ip", &[]),
    ("isIpv6", "ip", &[]),
    ("isLoopback", "ip", &[]),
    ("isMulticast", "ip", &[]),
    ("isInRange", "ip", &["ip"]),
    ("offset", "datetime", &["duration"]),
    ("durationSince", "datetime", &["datetime"]),
    ("toDate", "datetime", &[]),
    ("toTime", "datetime", &[]),
    ("toMilliseconds", "duration", &[]),
    ("toSeconds", "duration", &[]),
    ("toMinutes", "duration", &[]),
    ("toHours", "duration", &[]),
    ("toDays", "duration", &[]),
    // placeholders so that index-based choice covers constructors too
    ("decimal", "", &["string"]),
    ("ip", "", &["string"]),
];

pub fn is_method(name: &str) -> bool {
    !CTORS.contains(&name)
}

pub fn arity(name: &str) -> Option<usize> {
    if CTORS.contains(&name) {
        return Some(1);
    }
    METHODS.iter().find(|(n, _, _)| *n == name).map(|(_, _, a)| 1 + a.len())
}

fn dec(v: &GValue) -> Option<i64> {
    match v {
        GValue::Ext(ExtVal::Decimal(x)) => Some(*x),
        _ => None,
    }
}
fn ip(v: &GValue) -> Option<(bool, u128, u8)> {
    match v {
        GValue::Ext(ExtVal::Ip { v6, addr, prefix }) => Some((*v6, *addr, *prefix)),
        _ => None,
    }
}
fn dt(v: &GValue) -> Option<i64> {
    match v {
        GValue::Ext(ExtVal::Datetime(x)) => Some(*x),
        _ => None,
    }
}
fn dur(v: &GValue) -> Option<i64> {
    match v {
        GValue::Ext(ExtVal::Duration(x)) => Some(*x),
        _ => None,
    }
}

/// Apply extension function `name` to already evaluated arguments.
pub fn call(name: &str, args: &[GValue]) -> Result<GValue, ErrSet> {
    let ty = Err(ErrSet(TYPE));
    let ext = Err(ErrSet(EXTENSION));
    macro_rules! arg {
        ($f:ident, $i:expr) => {
            match args.get($i).and_then($f) {
                Some(x) => x,
                None => return ty,
            }
        };
    }
    match name {
        "decimal" | "ip" | "datetime" | "duration" => {
            let s = match args.first() {
                Some(GValue::Str(s)) => s,
                _ => return ty,
            };
            match name {
                "decimal" => parse_decimal(s).map(|v| GValue::Ext(ExtVal::Decimal(v))).ok_or(ErrSet(EXTENSION)),
                "ip" => parse_ip(s)
                    .map(|(v6, addr, prefix)| GValue::Ext(ExtVal::Ip { v6, addr, prefix }))
                    .ok_or(ErrSet(EXTENSION)),
                "datetime" => parse_datetime(s).map(|v| GValue::Ext(ExtVal::Datetime(v))).ok_or(ErrSet(EXTENSION)),
                _ => parse_duration(s).map(|v| GValue::Ext(ExtVal::Duration(v))).ok_or(ErrSet(EXTENSION)),
            }
        }
        "lessThan" | "lessThanOrEqual" | "greaterThan" | "greaterThanOrEqual" => {
            let a = arg!(dec, 0);
            let b = arg!(dec, 1);
            Ok(GValue::Bool(match name {
                "lessThan" => a < b,
                "lessThanOrEqual" => a <= b,
                "greaterThan" => a > b,
                _ => a >= b,
            }))
        }
        "isIpv4" => Ok(GValue::Bool(!arg!(ip, 0).0)),
        "isIpv6" => Ok(GValue::Bool(arg!(ip, 0).0)),
        "isLoopback" => {
            let a = arg!(ip, 0);
            let lb = if a.0 { (true, 1u128, 128u8) } else { (false, 0x7F00_0000u128, 8u8) };
            Ok(GValue::Bool(ip_in_range(a, lb)))
        }
        "isMulticast" => {
            let a = arg!(ip, 0);
            let mc = if a.0 { (true, 0xFFu128 << 120, 8u8) } else { (false, 0xE000_0000u128, 4u8) };
            Ok(GValue::Bool(ip_in_range(a, mc)))
        }
        "isInRange" => {
            let a = arg!(ip, 0);
            let b = arg!(ip, 1);
            Ok(GValue::Bool(ip_in_range(a, b)))
        }
        "offset" => {
            let a = arg!(dt, 0);
            let d = arg!(dur, 1);
            match a.checked_add(d) {
                Some(v) => Ok(GValue::Ext(ExtVal::Datetime(v))),
                None => ext,
            }
        }
        "durationSince" => {
            let a = arg!(dt, 0);
            let b = arg!(dt, 1);
            match a.checked_sub(b) {
                Some(v) => Ok(GValue::Ext(ExtVal::Duration(v))),
                None => ext,
            }
        }
        "toDate" => {
            let a = arg!(dt, 0);
            // floor to a multiple of a day; not representable when below i64::MIN
            let fl = (a as i128).div_euclid(DAY_MS as i128) * DAY_MS as i128;
            match i64::try_from(fl) {
                Ok(v) => Ok(GValue::Ext(ExtVal::Datetime(v))),
                Err(_) => ext,
            }
        }
        "toTime" => {
            let a = arg!(dt, 0);
            Ok(GValue::Ext(ExtVal::Duration(a.rem_euclid(DAY_MS))))
        }
        "toMilliseconds" => Ok(GValue::Long(arg!(dur, 0))),
        "toSeconds" => Ok(GValue::Long(arg!(dur, 0) / 1000)),
        "toMinutes" => Ok(GValue::Long(arg!(dur, 0) / 60_000)),
        "toHours" => Ok(GValue::Long(arg!(dur, 0) / 3_600_000)),
        "toDays" => Ok(GValue::Long(arg!(dur, 0) / 86_400_000)),
        _ => Err(ErrSet(EXTENSION | TYPE)),
    }
}
