//! Conversions between the harness's own types and the library's types.

use crate::model::*;
use crate::refsem::{self, ErrSet};
use cedar_policy::{
    Context, Entities, Entity, EntityId, EntityTypeName, EntityUid, Request, RestrictedExpression, Schema,
};
use cedar_policy_core::ast::{Literal, Value, ValueKind};
use cedar_policy_core::evaluator::EvaluationError;
use std::collections::{BTreeMap, HashMap, HashSet};
use std::str::FromStr;

pub fn type_name(t: &str) -> EntityTypeName {
    EntityTypeName::from_str(t).unwrap_or_else(|e| panic!("harness: bad type name {t:?}: {e}"))
}

pub fn uid(u: &Uid) -> EntityUid {
    EntityUid::from_type_name_and_id(type_name(&u.ty), EntityId::new(&u.id))
}

pub fn uid_back(u: &EntityUid) -> Uid {
    Uid { ty: u.type_name().to_string(), id: AsRef::<str>::as_ref(u.id()).to_string() }
}

pub fn core_uid_back(u: &cedar_policy_core::ast::EntityUID) -> Uid {
    Uid { ty: u.entity_type().to_string(), id: AsRef::<str>::as_ref(u.eid()).to_string() }
}

pub fn rexpr(v: &GValue) -> RestrictedExpression {
    match v {
        GValue::Bool(b) => RestrictedExpression::new_bool(*b),
        GValue::Long(n) => RestrictedExpression::new_long(*n),
        GValue::Str(s) => RestrictedExpression::new_string(s.clone()),
        GValue::Ent(u) => RestrictedExpression::new_entity_uid(uid(u)),
        GValue::Set(xs) => RestrictedExpression::new_set(xs.iter().map(rexpr)),
        GValue::Rec(m) => RestrictedExpression::new_record(m.iter().map(|(k, v)| (k.clone(), rexpr(v))))
            .unwrap_or_else(|e| panic!("harness: record: {e}")),
        GValue::Ext(x) => {
            let (f, s) = crate::ext::canonical_ctor(x);
            match f {
                "decimal" => RestrictedExpression::new_decimal(s),
                "ip" => RestrictedExpression::new_ip(s),
                "datetime" => RestrictedExpression::new_datetime(s),
                _ => RestrictedExpression::new_duration(s),
            }
        }
    }
}

pub fn entity(u: &Uid, e: &GEntity) -> Result<Entity, String> {
    let attrs: HashMap<String, RestrictedExpression> = e.attrs.iter().map(|(k, v)| (k.clone(), rexpr(v))).collect();
    let parents: HashSet<EntityUid> = e.parents.iter().map(uid).collect();
    let tags: Vec<(String, RestrictedExpression)> = e.tags.iter().map(|(k, v)| (k.clone(), rexpr(v))).collect();
    Entity::new_with_tags(uid(u), attrs, parents, tags).map_err(|e| e.to_string())
}

pub fn entity_list(w: &GWorld) -> Result<Vec<Entity>, String> {
    w.entities.iter().map(|(u, e)| entity(u, e)).collect()
}

pub fn entities(w: &GWorld, schema: Option<&Schema>) -> Result<Entities, String> {
    Entities::from_entities(entity_list(w)?, schema).map_err(|e| e.to_string())
}

pub fn context(w: &GWorld) -> Result<Context, String> {
    Context::from_pairs(w.context.iter().map(|(k, v)| (k.clone(), rexpr(v)))).map_err(|e| e.to_string())
}

pub fn request(w: &GWorld, schema: Option<&Schema>) -> Result<Request, String> {
    Request::new(uid(&w.principal), uid(&w.action), uid(&w.resource), context(w)?, schema).map_err(|e| e.to_string())
}

// ------------------------------------------------------------------ values back

fn parse_after<'a>(s: &'a str, key: &str) -> Option<&'a str> {
    let i = s.find(key)?;
    Some(&s[i + key.len()..])
}

fn leading_int(s: &str) -> Option<i64> {
    let end = s.char_indices().find(|(i, c)| !(c.is_ascii_digit() || (*i == 0 && *c == '-'))).map(|(i, _)| i).unwrap_or(s.len());
    s[..end].parse().ok()
}

/// The represented value of an extension value, read from its `Debug` form
/// (`Decimal { value: .. }`, `IPAddr { addr: V4(..), prefix: .. }`,
/// `DateTime { epoch: .. }`, `Duration { ms: .. }`), i.e. from the stored
/// internal state and not from any printing code under test.
pub fn ext_back(dbg: &str) -> Result<ExtVal, String> {
    let bad = || format!("harness: unrecognised extension value {dbg:?}");
    if dbg.starts_with("Decimal") {
        let v = parse_after(dbg, "value: ").and_then(leading_int).ok_or_else(bad)?;
        Ok(ExtVal::Decimal(v))
    } else if dbg.starts_with("IPAddr") {
        let prefix = parse_after(dbg, "prefix: ").and_then(leading_int).ok_or_else(bad)? as u8;
        let r = parse_after(dbg, "addr: ").ok_or_else(bad)?;
        let a = &r[..r.find(',').ok_or_else(bad)?];
        let a = a.trim_start_matches("V4(").trim_start_matches("V6(").trim_end_matches(')');
        if a.contains(':') {
            let ip: std::net::Ipv6Addr = a.parse().map_err(|_| bad())?;
            Ok(ExtVal::Ip { v6: true, addr: u128::from(ip), prefix })
        } else {
            let ip: std::net::Ipv4Addr = a.parse().map_err(|_| bad())?;
            Ok(ExtVal::Ip { v6: false, addr: u32::from(ip) as u128, prefix })
        }
    } else if dbg.starts_with("DateTime") {
        Ok(ExtVal::Datetime(parse_after(dbg, "epoch: ").and_then(leading_int).ok_or_else(bad)?))
    } else if dbg.starts_with("Duration") {
        Ok(ExtVal::Duration(parse_after(dbg, "ms: ").and_then(leading_int).ok_or_else(bad)?))
    } else {
        Err(bad())
    }
}

pub fn lit_back(l: &Literal) -> GValue {
    match l {
        Literal::Bool(b) => GValue::Bool(*b),
        Literal::Long(n) => GValue::Long(*n),
        Literal::String(s) => GValue::Str(s.to_string()),
        Literal::EntityUID(u) => GValue::Ent(core_uid_back(u)),
    }
}

/// Also checks the Set.fast / Set.authoritative agreement invariant on the way.
pub fn value_back(v: &Value) -> Result<GValue, String> {
    match &v.value {
        ValueKind::Lit(l) => Ok(lit_back(l)),
        ValueKind::Set(s) => {
            let mut out = vec![];
            let mut all_lit = true;
            for x in s.authoritative.iter() {
                if !matches!(x.value, ValueKind::Lit(_)) {
                    all_lit = false;
                }
                out.push(value_back(x)?);
            }
            match &s.fast {
                Some(f) => {
                    if !all_lit {
                        return Err("SET-INVARIANT: fast representation present but not all elements are literals".into());
                    }
                    let mut fs: Vec<GValue> = f.iter().map(lit_back).collect();
                    fs.sort();
                    let mut a = out.clone();
                    a.sort();
                    if fs != a {
                        return Err(format!("SET-INVARIANT: fast {:?} != authoritative {:?}", fs, a));
                    }
                }
                None => {
                    if all_lit {
                        return Err("SET-INVARIANT: all elements literal but no fast representation".into());
                    }
                }
            }
            let n = out.len();
            let g = GValue::set(out);
            if let GValue::Set(xs) = &g {
                if xs.len() != n {
                    return Err("SET-INVARIANT: authoritative set holds two equal elements".into());
                }
            }
            Ok(g)
        }
        ValueKind::Record(m) => {
            let mut out = BTreeMap::new();
            for (k, x) in m.iter() {
                out.insert(k.to_string(), value_back(x)?);
            }
            Ok(GValue::Rec(out))
        }
        ValueKind::ExtensionValue(x) => Ok(GValue::Ext(ext_back(&format!("{:?}", x.value()))?)),
    }
}

/// cedar_policy::EvalResult -> GValue; extension values come back as their printed form
pub fn evalresult_back(r: &cedar_policy::EvalResult) -> Result<GValue, String> {
    use cedar_policy::EvalResult as E;
    Ok(match r {
        E::Bool(b) => GValue::Bool(*b),
        E::Long(n) => GValue::Long(*n),
        E::String(s) => GValue::Str(s.clone()),
        E::EntityUid(u) => GValue::Ent(uid_back(u)),
        E::Set(s) => {
            let mut v = vec![];
            for x in s.iter() {
                v.push(evalresult_back(x)?);
            }
            GValue::set(v)
        }
        E::Record(r) => {
            let mut m = BTreeMap::new();
            for (k, x) in r.iter() {
                m.insert(k.clone(), evalresult_back(x)?);
            }
            GValue::Rec(m)
        }
        E::ExtensionValue(_) => GValue::Str("<ext>".into()),
    })
}

// ------------------------------------------------------------------ errors

pub fn err_class(e: &EvaluationError) -> u8 {
    match e {
        EvaluationError::EntityDoesNotExist(_) => refsem::MISSING_ENTITY,
        EvaluationError::EntityAttrDoesNotExist(_) => refsem::MISSING_ATTR,
        EvaluationError::RecordAttrDoesNotExist(_) => refsem::MISSING_ATTR,
        EvaluationError::FailedExtensionFunctionLookup(_) => refsem::OTHER,
        EvaluationError::TypeError(_) => refsem::TYPE,
        EvaluationError::WrongNumArguments(_) => refsem::ARITY,
        EvaluationError::IntegerOverflow(_) => refsem::OVERFLOW,
        EvaluationError::UnlinkedSlot(_) => refsem::SLOT,
        EvaluationError::FailedExtensionFunctionExecution(_) => refsem::EXTENSION,
        _ => refsem::OTHER,
    }
}

/// Outcome of an evaluation at the library boundary, in the harness's terms
#[derive(Clone, Debug, PartialEq, Eq)]
pub enum Obs {
    Val(GValue),
    Err(u8),
}

impl Obs {
    pub fn show(&self) -> String {
        match self {
            Obs::Val(v) => format!("{:?}", v),
            Obs::Err(c) => format!("Err({})", refsem::class_name(*c)),
        }
    }
}

pub fn agrees(expected: &Result<GValue, ErrSet>, obs: &Obs) -> bool {
    match (expected, obs) {
        (Ok(a), Obs::Val(b)) => a == b,
        (Err(s), Obs::Err(c)) => s.contains(*c),
        _ => false,
    }
}

pub fn show_expected(e: &Result<GValue, ErrSet>) -> String {
    match e {
        Ok(v) => format!("{:?}", v),
        Err(s) => format!("Err({})", s.names()),
    }
}

/// replace extension values by a placeholder (for comparing against EvalResult, which only carries their printed form)
pub fn strip_ext(v: &GValue) -> GValue {
    match v {
        GValue::Ext(_) => GValue::Str("<ext>".into()),
        GValue::Set(xs) => GValue::set(xs.iter().map(strip_ext).collect()),
        GValue::Rec(m) => GValue::Rec(m.iter().map(|(k, v)| (k.clone(), strip_ext(v))).collect()),
        x => x.clone(),
    }
}

/// error with its whole source chain
pub fn err_chain(e: &dyn std::error::Error) -> String {
    let mut s = e.to_string();
    let mut cur = e.source();
    while let Some(c) = cur {
        s.push_str(": ");
        s.push_str(&c.to_string());
        cur = c.source();
    }
    s
}
