//! Generators: values, worlds, "wild" expressions (any operator over any operand
//! kind, biased to be meaningful most of the time and erroneous some of the time).

use crate::model::*;
use crate::pools;
use crate::rng::Rng;
use std::collections::{BTreeMap, BTreeSet};

#[derive(Clone, Copy, Debug, PartialEq, Eq)]
pub enum Kind {
    Bool,
    Long,
    Str,
    Ent,
    Set,
    Rec,
    Decimal,
    Ip,
    Datetime,
    Duration,
}

pub const KINDS: [Kind; 10] = [
    Kind::Bool,
    Kind::Long,
    Kind::Str,
    Kind::Ent,
    Kind::Set,
    Kind::Rec,
    Kind::Decimal,
    Kind::Ip,
    Kind::Datetime,
    Kind::Duration,
];

pub fn kind_of(v: &GValue) -> Kind {
    match v {
        GValue::Bool(_) => Kind::Bool,
        GValue::Long(_) => Kind::Long,
        GValue::Str(_) => Kind::Str,
        GValue::Ent(_) => Kind::Ent,
        GValue::Set(_) => Kind::Set,
        GValue::Rec(_) => Kind::Rec,
        GValue::Ext(ExtVal::Decimal(_)) => Kind::Decimal,
        GValue::Ext(ExtVal::Ip { .. }) => Kind::Ip,
        GValue::Ext(ExtVal::Datetime(_)) => Kind::Datetime,
        GValue::Ext(ExtVal::Duration(_)) => Kind::Duration,
    }
}

pub fn ext_value(rng: &mut Rng, k: Kind) -> GValue {
    use crate::ext::*;
    let v = match k {
        Kind::Decimal => {
            let v = match rng.below(4) {
                0 => rng.i64_any(),
                1 => *rng.pick(&[0i64, 1, -1, 10_000, 12_300, i64::MAX, i64::MIN]),
                _ => rng.range(-50_000, 50_000),
            };
            ExtVal::Decimal(v)
        }
        Kind::Ip => loop {
            let s = rng.pick(&pools::IP_STRS);
            if let Some((v6, addr, prefix)) = parse_ip(s) {
                break ExtVal::Ip { v6, addr, prefix };
            }
        },
        Kind::Datetime => {
            // representable as a constructor string: years 0000..9999
            let lo = days_from_civil(0, 1, 1) * DAY_MS;
            let hi = days_from_civil(9999, 12, 31) * DAY_MS + DAY_MS - 1;
            let v = match rng.below(4) {
                0 => rng.range(lo, hi),
                1 => *rng.pick(&[0i64, -1, 1, 86_400_000, -86_400_000, lo, hi]),
                _ => rng.range(-2 * DAY_MS, 3 * DAY_MS),
            };
            ExtVal::Datetime(v)
        }
        _ => {
            let v = match rng.below(4) {
                0 => rng.i64_any(),
                1 => *rng.pick(&[0i64, 1, -1, 1000, 60_000, 3_600_000, 86_400_000, i64::MAX, i64::MIN]),
                _ => rng.range(-200_000_000, 200_000_000),
            };
            ExtVal::Duration(v)
        }
    };
    GValue::Ext(v)
}

pub fn value_of_kind(rng: &mut Rng, k: Kind, depth: usize, uids: &[Uid]) -> GValue {
    match k {
        Kind::Bool => GValue::Bool(rng.bool()),
        Kind::Long => GValue::Long(pools::long(rng)),
        Kind::Str => GValue::Str(pools::string(rng)),
        Kind::Ent => GValue::Ent(if !uids.is_empty() && rng.chance(4, 5) { rng.pick_clone(uids) } else { pools::small_uid(rng) }),
        Kind::Set => {
            if depth == 0 {
                return GValue::Set(vec![]);
            }
            let n = rng.below(4);
            let homog = rng.chance(3, 4);
            let k0 = scalar_biased_kind(rng);
            let mut xs = vec![];
            for _ in 0..n {
                let kk = if homog { k0 } else { scalar_biased_kind(rng) };
                xs.push(value_of_kind(rng, kk, depth - 1, uids));
                if rng.chance(1, 5) {
                    // duplicate
                    let d = xs[rng.below(xs.len())].clone();
                    xs.push(d);
                }
            }
            GValue::set(xs)
        }
        Kind::Rec => {
            let mut m = BTreeMap::new();
            if depth > 0 {
                for _ in 0..rng.below(4) {
                    let kk = scalar_biased_kind(rng);
                    m.insert(pools::attr(rng), value_of_kind(rng, kk, depth - 1, uids));
                }
            }
            GValue::Rec(m)
        }
        k => ext_value(rng, k),
    }
}

fn scalar_biased_kind(rng: &mut Rng) -> Kind {
    match rng.below(14) {
        0..=2 => Kind::Long,
        3..=4 => Kind::Str,
        5..=6 => Kind::Bool,
        7..=8 => Kind::Ent,
        9 => Kind::Set,
        10 => Kind::Rec,
        11 => Kind::Decimal,
        12 => *rng.pick(&[Kind::Ip, Kind::Datetime]),
        _ => Kind::Duration,
    }
}

pub fn any_value(rng: &mut Rng, depth: usize, uids: &[Uid]) -> GValue {
    let k = scalar_biased_kind(rng);
    value_of_kind(rng, k, depth, uids)
}

/// A small world over a tiny uid pool: DAG hierarchy (diamonds, chains, dangling parents)
pub fn world(rng: &mut Rng) -> GWorld {
    let mut pool: Vec<Uid> = vec![];
    let n_pool = 3 + rng.below(6);
    while pool.len() < n_pool {
        let u = if rng.chance(1, 6) { pools::uid(rng) } else { pools::small_uid(rng) };
        if !pool.contains(&u) {
            pool.push(u);
        }
    }
    let action = Uid::new(rng.pick(&["Action", "N::Action"]), rng.pick(&["view", "edit", "a"]));
    let mut all = pool.clone();
    if !all.contains(&action) {
        all.push(action.clone());
    }
    // which exist
    let mut entities: BTreeMap<Uid, GEntity> = BTreeMap::new();
    for (i, u) in all.iter().enumerate() {
        if rng.chance(1, 4) {
            continue; // absent entity
        }
        let mut e = GEntity::default();
        // parents only among later pool members => acyclic
        // (the JSON entity format refuses action entities with non-action parents,
        // so worlds keep actions' parents among actions to stay loadable by every route)
        let is_action = |u: &Uid| u.ty == "Action" || u.ty.ends_with("::Action");
        for p in all.iter().skip(i + 1) {
            if rng.chance(1, 3) && (!is_action(u) || is_action(p)) {
                e.parents.insert(p.clone());
            }
        }
        if rng.chance(1, 8) {
            e.parents.insert(if is_action(u) { Uid::new("Action", "dangling-group") } else { Uid::new("A", "dangling") });
        }
        for _ in 0..rng.below(4) {
            e.attrs.insert(pools::attr(rng), any_value(rng, 2, &all));
        }
        if rng.chance(1, 2) {
            for _ in 0..rng.below(3) {
                e.tags.insert(rng.pick(&["t", "u", "", "a b", "x"]).to_string(), any_value(rng, 1, &all));
            }
        }
        entities.insert(u.clone(), e);
    }
    let mut context = BTreeMap::new();
    for _ in 0..rng.below(4) {
        context.insert(pools::attr(rng), any_value(rng, 2, &all));
    }
    let principal = rng.pick_clone(&pool);
    let resource = rng.pick_clone(&pool);
    GWorld { principal, action, resource, context, entities }
}

pub struct ExprGen<'a> {
    pub rng: &'a mut Rng,
    pub w: &'a GWorld,
    /// probability (percent) of deviating from the requested kind / picking an erroneous operand
    pub chaos: u32,
    pub uids: Vec<Uid>,
    pub allow_ext: bool,
}

impl<'a> ExprGen<'a> {
    pub fn new(rng: &'a mut Rng, w: &'a GWorld) -> Self {
        let mut us: BTreeSet<Uid> = w.entities.keys().cloned().collect();
        us.insert(w.principal.clone());
        us.insert(w.resource.clone());
        us.insert(w.action.clone());
        for e in w.entities.values() {
            for p in &e.parents {
                us.insert(p.clone());
            }
        }
        ExprGen { rng, w, chaos: 12, uids: us.into_iter().collect(), allow_ext: true }
    }

    fn any_kind(&mut self) -> Kind {
        if self.allow_ext {
            scalar_biased_kind(self.rng)
        } else {
            *self.rng.pick(&[Kind::Bool, Kind::Long, Kind::Str, Kind::Ent, Kind::Set, Kind::Rec])
        }
    }

    pub fn any(&mut self, depth: usize) -> GExpr {
        let k = self.any_kind();
        self.of_kind(k, depth)
    }

    fn ent_expr_for(&mut self, u: &Uid) -> GExpr {
        if *u == self.w.principal && self.rng.bool() {
            GExpr::Var(Var::Principal)
        } else if *u == self.w.resource && self.rng.bool() {
            GExpr::Var(Var::Resource)
        } else if *u == self.w.action && self.rng.bool() {
            GExpr::Var(Var::Action)
        } else {
            GExpr::Ent(u.clone())
        }
    }

    /// an access path in the world that yields a value of kind k, if one exists
    fn access_of_kind(&mut self, k: Kind) -> Option<GExpr> {
        let mut cands: Vec<GExpr> = vec![];
        for (u, e) in &self.w.entities {
            for (a, v) in &e.attrs {
                if kind_of(v) == k {
                    cands.push(GExpr::Attr(GExpr::Ent(u.clone()).b(), a.clone()));
                }
                if let GValue::Rec(m) = v {
                    for (b, vv) in m {
                        if kind_of(vv) == k {
                            cands.push(GExpr::Attr(GExpr::Attr(GExpr::Ent(u.clone()).b(), a.clone()).b(), b.clone()));
                        }
                    }
                }
            }
            for (t, v) in &e.tags {
                if kind_of(v) == k {
                    cands.push(GExpr::bin(BinOp::GetTag, GExpr::Ent(u.clone()), GExpr::Str(t.clone())));
                }
            }
        }
        for (a, v) in &self.w.context {
            if kind_of(v) == k {
                cands.push(GExpr::Attr(GExpr::Var(Var::Context).b(), a.clone()));
            }
        }
        if cands.is_empty() {
            return None;
        }
        let mut c = self.rng.pick_clone(&cands);
        // replace the root entity literal by a variable when it coincides
        fn root_mut(e: &mut GExpr) -> &mut GExpr {
            match e {
                GExpr::Attr(a, _) => root_mut(a),
                GExpr::Bin(BinOp::GetTag, a, _) => root_mut(a),
                x => x,
            }
        }
        let r = root_mut(&mut c);
        if let GExpr::Ent(u) = r.clone() {
            *r = self.ent_expr_for(&u);
        }
        Some(c)
    }

    pub fn of_kind(&mut self, want: Kind, depth: usize) -> GExpr {
        let k = if self.rng.chance(self.chaos, 100) { self.any_kind() } else { want };
        if depth == 0 {
            return self.leaf(k);
        }
        // common to all kinds: if-then-else, attribute access
        match self.rng.below(12) {
            0 => {
                let c = self.of_kind(Kind::Bool, depth - 1);
                let t = self.of_kind(k, depth - 1);
                let f = self.of_kind(k, depth - 1);
                return GExpr::ite(c, t, f);
            }
            1 | 2 => {
                if let Some(a) = self.access_of_kind(k) {
                    return a;
                }
            }
            3 => {
                // projection out of a record literal
                let v = self.of_kind(k, depth - 1);
                let key = pools::attr(self.rng);
                let mut fs = vec![(key.clone(), v)];
                if self.rng.bool() {
                    let other = pools::attr(self.rng);
                    if other != key {
                        let x = self.any(depth - 1);
                        if self.rng.bool() {
                            fs.push((other, x));
                        } else {
                            fs.insert(0, (other, x));
                        }
                    }
                }
                let take = if self.rng.chance(1, 10) { pools::attr(self.rng) } else { key };
                return GExpr::Attr(GExpr::Rec(fs).b(), take);
            }
            _ => {}
        }
        match k {
            Kind::Bool => self.bool_expr(depth),
            Kind::Long => match self.rng.below(6) {
                0 => self.leaf(k),
                1 => GExpr::Neg(self.of_kind(Kind::Long, depth - 1).b()),
                2 if self.allow_ext => {
                    let f = *self.rng.pick(&["toMilliseconds", "toSeconds", "toMinutes", "toHours", "toDays"]);
                    GExpr::call(f, vec![self.of_kind(Kind::Duration, depth - 1)])
                }
                _ => {
                    let op = *self.rng.pick(&[BinOp::Add, BinOp::Sub, BinOp::Mul]);
                    let a = self.of_kind(Kind::Long, depth - 1);
                    let b = self.of_kind(Kind::Long, depth - 1);
                    GExpr::bin(op, a, b)
                }
            },
            Kind::Str | Kind::Ent => self.leaf(k),
            Kind::Set => {
                let n = self.rng.below(4);
                let ek = self.any_kind();
                let homog = self.rng.chance(3, 4);
                let mut xs = vec![];
                for _ in 0..n {
                    let kk = if homog { ek } else { self.any_kind() };
                    xs.push(self.of_kind(kk, depth - 1));
                    if self.rng.chance(1, 6) {
                        let d = xs[self.rng.below(xs.len())].clone();
                        xs.push(d);
                    }
                }
                GExpr::Set(xs)
            }
            Kind::Rec => {
                if self.rng.chance(1, 4) {
                    return GExpr::Var(Var::Context);
                }
                let n = self.rng.below(4);
                let mut fs: Vec<(String, GExpr)> = vec![];
                for _ in 0..n {
                    let key = pools::attr(self.rng);
                    if fs.iter().any(|(k, _)| *k == key) {
                        continue;
                    }
                    let x = self.any(depth - 1);
                    fs.push((key, x));
                }
                GExpr::Rec(fs)
            }
            Kind::Decimal | Kind::Ip => self.leaf(k),
            Kind::Datetime => match self.rng.below(4) {
                0 => {
                    let a = self.of_kind(Kind::Datetime, depth - 1);
                    let d = self.of_kind(Kind::Duration, depth - 1);
                    GExpr::call("offset", vec![a, d])
                }
                1 => GExpr::call("toDate", vec![self.of_kind(Kind::Datetime, depth - 1)]),
                _ => self.leaf(k),
            },
            Kind::Duration => match self.rng.below(4) {
                0 => {
                    let a = self.of_kind(Kind::Datetime, depth - 1);
                    let b = self.of_kind(Kind::Datetime, depth - 1);
                    GExpr::call("durationSince", vec![a, b])
                }
                1 => GExpr::call("toTime", vec![self.of_kind(Kind::Datetime, depth - 1)]),
                _ => self.leaf(k),
            },
        }
    }

    fn bool_expr(&mut self, depth: usize) -> GExpr {
        let d = depth - 1;
        let n_choices = if self.allow_ext { 17 } else { 14 };
        match self.rng.below(n_choices) {
            0 => GExpr::Not(self.of_kind(Kind::Bool, d).b()),
            1 | 2 => {
                let op = if self.rng.bool() { BinOp::And } else { BinOp::Or };
                let a = self.of_kind(Kind::Bool, d);
                let b = self.of_kind(Kind::Bool, d);
                GExpr::bin(op, a, b)
            }
            3 | 4 => {
                let op = if self.rng.chance(3, 4) { BinOp::Eq } else { BinOp::Neq };
                let k = self.any_kind();
                let a = self.of_kind(k, d);
                // often equal operands
                let b = if self.rng.chance(1, 4) { a.clone() } else { self.of_kind(k, d) };
                GExpr::bin(op, a, b)
            }
            5 => {
                let op = *self.rng.pick(&[BinOp::Lt, BinOp::Le, BinOp::Gt, BinOp::Ge]);
                let k = if self.allow_ext { *self.rng.pick(&[Kind::Long, Kind::Long, Kind::Datetime, Kind::Duration]) } else { Kind::Long };
                let a = self.of_kind(k, d);
                let b = self.of_kind(k, d);
                GExpr::bin(op, a, b)
            }
            6 | 7 => {
                let a = self.of_kind(Kind::Ent, d);
                let b = if self.rng.bool() {
                    self.of_kind(Kind::Ent, d)
                } else {
                    let n = self.rng.below(4);
                    let mut xs = vec![];
                    for _ in 0..n {
                        xs.push(self.of_kind(Kind::Ent, d));
                    }
                    if self.rng.chance(1, 10) {
                        xs.push(self.leaf(Kind::Long));
                    }
                    GExpr::Set(xs)
                };
                GExpr::bin(BinOp::In, a, b)
            }
            8 => {
                let s = self.of_kind(Kind::Set, d);
                match self.rng.below(4) {
                    0 => GExpr::IsEmpty(s.b()),
                    1 => {
                        // element likely present
                        let x = match &s {
                            GExpr::Set(xs) if !xs.is_empty() && self.rng.bool() => xs[self.rng.below(xs.len())].clone(),
                            _ => self.any(d),
                        };
                        GExpr::bin(BinOp::Contains, s, x)
                    }
                    _ => {
                        let op = if self.rng.bool() { BinOp::ContainsAll } else { BinOp::ContainsAny };
                        let t = match &s {
                            GExpr::Set(xs) if !xs.is_empty() && self.rng.bool() => {
                                let mut ys: Vec<GExpr> = xs.iter().filter(|_| self.rng.bool()).cloned().collect();
                                if self.rng.chance(1, 3) {
                                    ys.push(self.any(d));
                                }
                                self.rng.shuffle(&mut ys);
                                GExpr::Set(ys)
                            }
                            _ => self.of_kind(Kind::Set, d),
                        };
                        GExpr::bin(op, s, t)
                    }
                }
            }
            9 | 10 => {
                // has / hasTag
                let k = if self.rng.chance(2, 3) { Kind::Ent } else { Kind::Rec };
                let a = self.of_kind(k, d);
                if self.rng.chance(1, 4) {
                    let t = if self.rng.chance(3, 4) { GExpr::Str(self.rng.pick(&["t", "u", "", "a b", "x"]).to_string()) } else { self.of_kind(Kind::Str, d) };
                    GExpr::bin(BinOp::HasTag, a, t)
                } else {
                    let mut path = vec![self.pick_attr_for(&a)];
                    if self.rng.chance(1, 4) {
                        // chain: only plain identifiers can be written as a.b.c
                        path = path.into_iter().filter(|p| crate::render::is_plain_ident(p)).collect();
                        if path.is_empty() {
                            path.push("x".into());
                        }
                        for _ in 0..1 + self.rng.below(2) {
                            path.push(self.rng.pick(&pools::PLAIN_ATTRS).to_string());
                        }
                    }
                    GExpr::Has(a.b(), path)
                }
            }
            11 => {
                if self.rng.chance(2, 5) {
                    // tight alphabet: literals with self-overlapping prefixes after a wildcard, texts that nearly match
                    let (txt, pat) = pools::tight_like(self.rng);
                    GExpr::Like(GExpr::Str(txt).b(), pat)
                } else {
                    let s = self.of_kind(Kind::Str, d);
                    GExpr::Like(s.b(), pools::pattern(self.rng))
                }
            }
            12 | 13 => {
                let a = self.of_kind(Kind::Ent, d);
                let t = self.rng.pick(&pools::ENTITY_TYPES).to_string();
                let inn = if self.rng.chance(1, 3) {
                    let kk = if self.rng.bool() { Kind::Ent } else { Kind::Set };
                    Some(self.of_kind(kk, d).b())
                } else {
                    None
                };
                GExpr::Is(a.b(), t, inn)
            }
            14 => {
                let f = *self.rng.pick(&["lessThan", "lessThanOrEqual", "greaterThan", "greaterThanOrEqual"]);
                let a = self.of_kind(Kind::Decimal, d);
                let b = self.of_kind(Kind::Decimal, d);
                GExpr::call(f, vec![a, b])
            }
            15 => {
                let f = *self.rng.pick(&["isIpv4", "isIpv6", "isLoopback", "isMulticast"]);
                GExpr::call(f, vec![self.of_kind(Kind::Ip, d)])
            }
            _ => {
                let a = self.of_kind(Kind::Ip, d);
                let b = self.of_kind(Kind::Ip, d);
                GExpr::call("isInRange", vec![a, b])
            }
        }
    }

    fn pick_attr_for(&mut self, e: &GExpr) -> String {
        // prefer an attribute that exists on the (literal) operand
        let keys: Vec<String> = match e {
            GExpr::Ent(u) => self.w.entities.get(u).map(|x| x.attrs.keys().cloned().collect()).unwrap_or_default(),
            GExpr::Var(Var::Principal) => self.w.entities.get(&self.w.principal).map(|x| x.attrs.keys().cloned().collect()).unwrap_or_default(),
            GExpr::Var(Var::Resource) => self.w.entities.get(&self.w.resource).map(|x| x.attrs.keys().cloned().collect()).unwrap_or_default(),
            GExpr::Var(Var::Context) => self.w.context.keys().cloned().collect(),
            GExpr::Rec(fs) => fs.iter().map(|(k, _)| k.clone()).collect(),
            _ => vec![],
        };
        if !keys.is_empty() && self.rng.chance(2, 3) {
            self.rng.pick_clone(&keys)
        } else {
            pools::attr(self.rng)
        }
    }

    pub fn leaf(&mut self, k: Kind) -> GExpr {
        match k {
            Kind::Bool => GExpr::Bool(self.rng.bool()),
            Kind::Long => GExpr::Long(pools::long(self.rng)),
            Kind::Str => GExpr::Str(pools::string(self.rng)),
            Kind::Ent => match self.rng.below(8) {
                0 => GExpr::Var(Var::Principal),
                1 => GExpr::Var(Var::Resource),
                2 => GExpr::Var(Var::Action),
                3 => GExpr::Ent(pools::uid(self.rng)),
                _ => GExpr::Ent(self.rng.pick_clone(&self.uids)),
            },
            Kind::Set => GExpr::Set(vec![]),
            Kind::Rec => {
                if self.rng.bool() {
                    GExpr::Var(Var::Context)
                } else {
                    GExpr::Rec(vec![])
                }
            }
            Kind::Decimal => GExpr::call("decimal", vec![GExpr::Str(self.rng.pick(&pools::DECIMAL_STRS).to_string())]),
            Kind::Ip => GExpr::call("ip", vec![GExpr::Str(self.rng.pick(&pools::IP_STRS).to_string())]),
            Kind::Datetime => GExpr::call("datetime", vec![GExpr::Str(self.rng.pick(&pools::DATETIME_STRS).to_string())]),
            Kind::Duration => GExpr::call("duration", vec![GExpr::Str(self.rng.pick(&pools::DURATION_STRS).to_string())]),
        }
    }
}
