//! The deliberately small universe from which cases are drawn, so that
//! collisions, aliasing and duplicates are frequent.

use crate::model::*;
use crate::rng::Rng;

pub const ENTITY_TYPES: [&str; 6] = ["A", "B", "C", "N::A", "N::M::A", "Action"];

pub const IDS: [&str; 12] = [
    "a", "b", "c", "", "a b", "q\"uote", "back\\slash", "nul\0x", "line\nbreak", "*", "\u{1F600}", "A",
];

pub const SIMPLE_IDS: [&str; 6] = ["a", "b", "c", "d", "e", "f"];

pub const ATTRS: [&str; 16] = [
    "x", "y", "z", "name", "if", "in", "has", "like", "is", "then", "true", "principal", "__cedar", "__entity", "a b", "",
];

pub const PLAIN_ATTRS: [&str; 6] = ["x", "y", "z", "name", "principal", "w"];

/// (includes names that start like an ASCII identifier and continue with non-ASCII word characters:
/// they are not identifiers for the lexer, so printers must quote them)
pub const EXOTIC_ATTRS: [&str; 10] = ["__extn", "__expr", "\u{3c0}", "a\"b", "else", "context", "gr\u{f6}\u{df}e", "na\u{ef}ve", "_\u{540d}\u{524d}", "a\u{3c0}"];

pub const LONGS: [i64; 17] = [
    0,
    1,
    -1,
    2,
    7,
    i64::MIN,
    i64::MIN + 1,
    i64::MAX,
    i64::MAX - 1,
    1 << 31,
    -(1 << 31),
    1 << 32,
    -(1 << 32),
    3037000500,
    -3037000500,
    3037000499,
    4611686018427387904,
];

pub const STRINGS: [&str; 14] = [
    "", "a", "abc", "*", "a*c", "**", "\\", "a\\*b", "\"", "\n", "\0", "\u{1F600}", "h\u{e9}llo", "aXbXc",
];

pub fn uid(rng: &mut Rng) -> Uid {
    Uid::new(rng.pick(&ENTITY_TYPES), rng.pick(&IDS))
}

/// uid drawn from a tiny pool (types A,B; ids a..c) so stores and expressions collide
pub fn small_uid(rng: &mut Rng) -> Uid {
    Uid::new(rng.pick(&["A", "B", "N::A"]), rng.pick(&["a", "b", "c", "a b"]))
}

pub fn long(rng: &mut Rng) -> i64 {
    match rng.below(4) {
        0 => rng.range(-3, 3),
        1 => rng.i64_any(),
        _ => *rng.pick(&LONGS),
    }
}

pub fn string(rng: &mut Rng) -> String {
    if rng.chance(1, 6) {
        let n = rng.below(5);
        (0..n).map(|_| *rng.pick(&['a', 'b', '*', '\\', 'X', '\u{1F600}', ' ', '"'])).collect()
    } else {
        rng.pick(&STRINGS).to_string()
    }
}

pub fn attr(rng: &mut Rng) -> String {
    match rng.below(10) {
        0 => rng.pick(&EXOTIC_ATTRS).to_string(),
        1..=5 => rng.pick(&PLAIN_ATTRS).to_string(),
        _ => rng.pick(&ATTRS).to_string(),
    }
}

pub fn pattern(rng: &mut Rng) -> Vec<PatElem> {
    let n = rng.below(6);
    (0..n)
        .map(|_| match rng.below(5) {
            0 | 1 => PatElem::Wild,
            2 => PatElem::Char('*'),
            _ => PatElem::Char(*rng.pick(&['a', 'b', 'c', 'X', '\\', '\u{1F600}', '"', '\n', ' '])),
        })
        .collect()
}

/// a (text, pattern) pair over a two- or three-letter alphabet: patterns of up to 7 elements with 1-3 wildcards,
/// texts of up to 10 letters, so partial matches that must be abandoned and re-tried inside the matched part are common
pub fn tight_like(rng: &mut Rng) -> (String, Vec<PatElem>) {
    let alpha: &[char] = match rng.below(4) {
        0 => &['a', 'b'],
        1 => &['a', 'b', 'c'],
        2 => &['/', 'e'],
        _ => &['\u{e9}', '\u{e8}', 'z'],
    };
    let n = 1 + rng.below(7);
    let mut pat: Vec<PatElem> = (0..n).map(|_| if rng.chance(1, 4) { PatElem::Wild } else { PatElem::Char(*rng.pick(alpha)) }).collect();
    if rng.chance(2, 3) {
        pat.insert(0, PatElem::Wild);
    }
    // the text: random, or the pattern's literals spelled out with the wildcards replaced by near-misses of what follows
    let text: String = if rng.bool() {
        let m = rng.below(11);
        (0..m).map(|_| *rng.pick(alpha)).collect()
    } else {
        let mut t = String::new();
        for (i, e) in pat.iter().enumerate() {
            match e {
                PatElem::Char(c) => t.push(*c),
                PatElem::Wild => {
                    // a proper prefix of the literal run after the wildcard, repeated 0-2 times, then maybe one letter
                    let run: Vec<char> = pat[i + 1..].iter().map_while(|e| if let PatElem::Char(c) = e { Some(*c) } else { None }).collect();
                    for _ in 0..rng.below(3) {
                        let k = if run.is_empty() { 0 } else { rng.below(run.len()) };
                        t.extend(run[..k].iter());
                    }
                    if rng.chance(1, 3) {
                        t.push(*rng.pick(alpha));
                    }
                }
            }
        }
        if rng.chance(1, 5) {
            t.push(*rng.pick(alpha));
        }
        t
    };
    (text, pat)
}

pub const DECIMAL_STRS: [&str; 22] = [
    "0.0", "1.0", "-1.0", "1.23", "0.1234", "-0.0", "922337203685477.5807", "-922337203685477.5808", "922337203685477.5808",
    "-922337203685477.5809", "1.23456", "1", "1.", ".5", "00001.10", "1.2e3", "+1.0", " 1.0", "1.0 ", "0.00010", "12345678901234567890.0", "\u{661}.0",
];

pub const IP_STRS: [&str; 34] = [
    "127.0.0.1", "127.0.0.1/8", "127.255.255.255", "128.0.0.0", "10.0.0.0/8", "10.1.2.3", "10.0.0.0/0", "0.0.0.0/0", "255.255.255.255/32",
    "1.2.3.4/31", "1.2.3.4/33", "1.2.3.4/032", "1.2.3.4/08", "01.2.3.4", "1.2.3", "256.1.1.1", "224.0.0.1", "239.255.255.255", "240.0.0.0",
    "224.0.0.0/3", "224.0.0.0/4", "::1", "::1/128", "::1/127", "::", "::/0", "ff00::/8", "ff00::/7", "ffff::1", "fe80::1/64",
    "::ffff:1.2.3.4", "1:2:3:4:5:6:7:8/128", "1:2:3:4:5:6:7:8/129", "ABCD:EF01:2345:6789:ABCD:EF01:2345:6789/128",
];

pub const DATETIME_STRS: [&str; 40] = [
    "1970-01-01", "1969-12-31", "2024-02-29", "2023-02-29", "1900-02-29", "2000-02-29", "0000-01-01", "9999-12-31", "2024-13-01", "2024-00-10",
    "2024-01-00", "2024-01-32", "2024-04-31", "2024-1-01", "24-01-01", "2024-01-01T00:00:00Z", "2024-01-01T23:59:59Z", "2024-01-01T24:00:00Z",
    "2024-01-01T23:60:00Z", "2024-01-01T23:59:60Z", "2024-01-01T12:00:00.000Z", "2024-01-01T12:00:00.999Z", "2024-01-01T12:00:00.1000Z",
    "2024-01-01T12:00:00.12Z", "2024-01-01T12:00:00+0000", "2024-01-01T12:00:00+2359", "2024-01-01T12:00:00+2400", "2024-01-01T12:00:00-0060",
    "2024-01-01T12:00:00-2359", "2024-01-01T12:00:00.500+0530", "2024-01-01T12:00:00.500-0530", "2024-01-01T12:00:00", "2024-01-01T12:00Z",
    "2024-01-01 12:00:00Z", "2024-01-01T12:00:00z", "0000-01-01T00:00:00+2359", "9999-12-31T23:59:59.999-2359", "2024-01-01T12:00:00+05:30",
    "1969-12-31T23:59:59.999Z", "-001-01-01",
];

pub const DURATION_STRS: [&str; 34] = [
    "0ms", "1ms", "1s", "1m", "1h", "1d", "-1d", "1d2h3m4s5ms", "-1d2h3m4s5ms", "1h1d", "1s1m", "1ms1s", "1d1d", "", "-", "1", "d", "1D", "1 d",
    "1.5h", "+1d", "--1d", "9223372036854775807ms", "9223372036854775808ms", "-9223372036854775808ms", "-9223372036854775809ms",
    "106751991167d", "106751991168d", "-106751991168d", "2562047788015h", "2562047788016h", "18446744073709551616ms", "1d-1h", "1m1ms",
];
