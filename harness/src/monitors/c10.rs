//! C10 — entity/context JSON round trip; schema-directed parsing agrees with escapes.
//! Oracles: deep_eq of round trips, and equality of every parsed store / context with
//! the model world (through the core view), for explicit and schema-implicit spellings.

use super::c03::{entities_with_schema, load_schema};
use super::common::*;
use crate::bridge;
use crate::gen;
use crate::model::*;
use crate::render;
use crate::report::CaseCtx;
use crate::rng::Rng;
use crate::schema::*;
use cedar_policy::{Context, Entities, Entity, Schema};
use serde_json::{json, Map, Value as J};

/// JSON for `v` of declared type `t`, choosing per value between explicit and schema-implicit forms
pub fn value_json_typed(rng: &mut Rng, gs: &GSchema, v: &GValue, t: &GType, implicit_pct: u32, used_implicit: &mut u64) -> J {
    match (gs.resolve(t), v) {
        (GType::Ent(_), GValue::Ent(u)) => {
            if rng.chance(implicit_pct, 100) {
                *used_implicit += 1;
                json!({"type": u.ty, "id": u.id})
            } else {
                json!({"__entity": {"type": u.ty, "id": u.id}})
            }
        }
        (GType::Ext(_), GValue::Ext(x)) => {
            let (f, s) = crate::ext::canonical_ctor(x);
            if rng.chance(implicit_pct, 100) {
                *used_implicit += 1;
                if rng.bool() {
                    json!(s)
                } else {
                    json!({"fn": f, "arg": s})
                }
            } else {
                json!({"__extn": {"fn": f, "arg": s}})
            }
        }
        (GType::Set(et), GValue::Set(xs)) => J::Array(xs.iter().map(|x| value_json_typed(rng, gs, x, et, implicit_pct, used_implicit)).collect()),
        (GType::Rec(attrs), GValue::Rec(m)) => {
            let mut o = Map::new();
            for (k, x) in m {
                let j = match attrs.iter().find(|a| &a.name == k) {
                    Some(a) => value_json_typed(rng, gs, x, &a.ty, implicit_pct, used_implicit),
                    None => render::value_json(x),
                };
                o.insert(k.clone(), j);
            }
            J::Object(o)
        }
        _ => render::value_json(v),
    }
}

fn uid_json_choice(rng: &mut Rng, u: &Uid, implicit_pct: u32) -> J {
    if rng.chance(implicit_pct, 100) {
        json!({"type": u.ty, "id": u.id})
    } else {
        json!({"__entity": {"type": u.ty, "id": u.id}})
    }
}

pub fn entities_json_typed(rng: &mut Rng, gs: &GSchema, w: &GWorld, implicit_pct: u32, skip: &[Uid], used_implicit: &mut u64) -> J {
    let mut out = vec![];
    for (u, e) in &w.entities {
        if skip.contains(u) {
            continue;
        }
        let et = gs.entity_type(&u.ty);
        let attrs_t = GType::Rec(et.map(|e| e.attrs.clone()).unwrap_or_default());
        let attrs = value_json_typed(rng, gs, &GValue::Rec(e.attrs.clone()), &attrs_t, implicit_pct, used_implicit);
        let mut m = Map::new();
        m.insert("uid".into(), uid_json_choice(rng, u, implicit_pct));
        m.insert("attrs".into(), attrs);
        m.insert("parents".into(), J::Array(e.parents.iter().map(|p| uid_json_choice(rng, p, implicit_pct)).collect()));
        if !e.tags.is_empty() || rng.chance(1, 4) {
            let tt = et.and_then(|e| e.tags.clone());
            let mut tags = Map::new();
            for (k, v) in &e.tags {
                tags.insert(k.clone(), match &tt {
                    Some(t) => value_json_typed(rng, gs, v, t, implicit_pct, used_implicit),
                    None => render::value_json(v),
                });
            }
            m.insert("tags".into(), J::Object(tags));
        }
        out.push(J::Object(m));
    }
    J::Array(out)
}

/// record values whose keys look like the JSON escapes, or nearly so
fn lookalike(rng: &mut Rng) -> GValue {
    let rec = |kv: Vec<(&str, GValue)>| GValue::Rec(kv.into_iter().map(|(k, v)| (k.to_string(), v)).collect());
    let s = |x: &str| GValue::Str(x.to_string());
    match rng.below(16) {
        0 => rec(vec![("__entity", rec(vec![("type", s("A")), ("id", s("a"))]))]),
        13 => rec(vec![("arg", s("y")), ("fn", s("unknown"))]),
        14 => rec(vec![("r", rec(vec![("fn", s("unknown")), ("arg", s(""))]))]),
        1 => rec(vec![("__extn", rec(vec![("fn", s("decimal")), ("arg", s("1.0"))]))]),
        2 => rec(vec![("__entity", rec(vec![("type", s("A")), ("id", s("a")), ("x", GValue::Long(1))]))]),
        3 => rec(vec![("__expr", s("1 + 1"))]),
        4 => rec(vec![("type", s("A")), ("id", s("a"))]),
        5 => rec(vec![("fn", s("ip")), ("arg", s("127.0.0.1"))]),
        6 => rec(vec![("__entity", s("A::\"a\""))]),
        7 => rec(vec![("__extn", rec(vec![("fn", s("nosuchfn")), ("arg", s("x"))])), ("y", GValue::Long(0))]),
        8 => rec(vec![("fn", s("unknown")), ("arg", s("x"))]),
        9 => rec(vec![("__extn", rec(vec![("fn", s("unknown")), ("arg", s("x"))])), ("note", GValue::Long(1))]),
        10 => rec(vec![("__entity", rec(vec![("type", s("A")), ("id", s("a"))])), ("note", GValue::Long(1))]),
        11 => rec(vec![("__extn", rec(vec![("fn", s("decimal")), ("arg", s("1.5"))])), ("note", s("n"))]),
        12 => rec(vec![("__extn", rec(vec![("fn", s("unknown")), ("arg", s("y"))]))]),
        _ => GValue::set(vec![rec(vec![("__entity", rec(vec![("type", s("B")), ("id", s(""))]))]), GValue::Long(3)]),
    }
}

fn wild_case(ctx: &mut CaseCtx) {
    let mut w = gen::world(&mut ctx.rng);
    if ctx.rng.chance(1, 3) {
        let v = lookalike(&mut ctx.rng);
        ctx.count("wild:lookalike-injected");
        let keys: Vec<Uid> = w.entities.keys().cloned().collect();
        if !keys.is_empty() && ctx.rng.bool() {
            let u = ctx.rng.pick_clone(&keys);
            let e = w.entities.get_mut(&u).unwrap();
            if ctx.rng.bool() {
                e.attrs.insert("look".into(), v);
            } else {
                e.tags.insert("look".into(), v);
            }
        } else {
            w.context.insert("look".into(), v);
        }
    }
    let representable = render::world_json_representable(&w);
    ctx.count(if representable { "wild:representable" } else { "wild:has-reserved-key" });
    let ents = match bridge::entities(&w, None) {
        Ok(e) => e,
        Err(e) => return ctx.harness_error(format!("entities: {e}")),
    };
    let detail = |extra: J| json!({"entities_model": format!("{:?}", w.entities), "context_model": format!("{:?}", w.context), "extra": extra});
    // store round trip
    match ents.to_json_value() {
        Ok(j) => {
            ctx.count("store:to_json:ok");
            if !representable {
                // not refused: then at least it must not have been altered
                ctx.count("store:reserved-key-serialised");
            }
            match Entities::from_json_value(j.clone(), None) {
                Ok(back) => {
                    if !back.deep_eq(&ents) {
                        ctx.violation(if representable { "C10:store-roundtrip:not-deep-eq" } else { "C10:reserved-key:silently-altered" }, "Entities::from_json_value(to_json_value(x)) is not deep_eq to x".into(), detail(json!({"json": j})));
                    } else if let Err(m) = store_matches_model(&back, &w, &[]) {
                        ctx.violation("C10:store-roundtrip:differs-from-model", m, detail(json!({"json": j})));
                    }
                }
                Err(e) => ctx.violation(if representable { "C10:store-roundtrip:does-not-parse" } else { "C10:reserved-key:serialised-but-unparseable" }, format!("to_json_value output is refused by from_json_value: {}", bridge::err_chain(&e)), detail(json!({"json": j}))),
            }
        }
        Err(e) => {
            ctx.count("store:to_json:refused");
            if representable {
                ctx.violation("C10:store:to_json-refused", format!("serialising a representable store failed: {}", bridge::err_chain(&e)), detail(json!({})));
            }
        }
    }
    // explicit JSON written by the harness parses to the model
    if representable {
        let j = render::entities_json(&w);
        match Entities::from_json_value(j.clone(), None) {
            Ok(back) => {
                ctx.count("store:harness-json:parsed");
                if let Err(m) = store_matches_model(&back, &w, &[]) {
                    ctx.violation("C10:explicit-json:differs-from-model", m, detail(json!({"json": j})));
                }
                if !back.deep_eq(&ents) {
                    ctx.violation("C10:explicit-json:not-deep-eq-to-constructed", "store parsed from explicit JSON is not deep_eq to the store built through the API".into(), detail(json!({"json": j})));
                }
            }
            Err(e) => ctx.violation("C10:explicit-json:rejected", format!("explicit JSON for a store is rejected: {}", bridge::err_chain(&e)), detail(json!({"json": j}))),
        }
    }
    // single entities
    for (u, e) in w.entities.iter().take(3) {
        let ent = match bridge::entity(u, e) {
            Ok(x) => x,
            Err(m) => return ctx.harness_error(m),
        };
        let ok_model = render::value_json_representable(&GValue::Rec(e.attrs.clone())) && render::value_json_representable(&GValue::Rec(e.tags.clone()));
        match ent.to_json_value() {
            Ok(j) => match Entity::from_json_value(j.clone(), None) {
                Ok(back) => {
                    ctx.count("entity:roundtrip");
                    if !back.deep_eq(&ent) {
                        ctx.violation("C10:entity-roundtrip:not-deep-eq", format!("Entity::from_json_value(to_json_value(e)) is not deep_eq to e for {:?}", u), detail(json!({"json": j})));
                    }
                }
                Err(er) => ctx.violation("C10:entity-roundtrip:does-not-parse", format!("Entity JSON refused: {}", bridge::err_chain(&er)), detail(json!({"json": j}))),
            },
            Err(er) => {
                if ok_model {
                    ctx.violation("C10:entity:to_json-refused", format!("serialising a representable entity failed: {}", bridge::err_chain(&er)), detail(json!({})));
                }
            }
        }
    }
    // single entities taken out of the loaded store (they carry the computed ancestor closure)
    for ent in ents.iter().take(4) {
        let u = bridge::uid_back(&ent.uid());
        let ok_model = w.entities.get(&u).map(|e| render::value_json_representable(&GValue::Rec(e.attrs.clone())) && render::value_json_representable(&GValue::Rec(e.tags.clone()))).unwrap_or(true);
        match ent.to_json_value() {
            Ok(j) => match Entity::from_json_value(j.clone(), None) {
                Ok(back) => {
                    ctx.count("entity-from-store:roundtrip");
                    if !back.deep_eq(ent) {
                        ctx.violation("C10:entity-from-store-roundtrip:not-deep-eq", format!("an entity taken from a loaded store is not deep_eq to Entity::from_json_value(its to_json_value()) for {:?}", u), detail(json!({"json": j})));
                    }
                }
                Err(er) => ctx.violation("C10:entity-from-store-roundtrip:does-not-parse", format!("Entity JSON refused: {}", bridge::err_chain(&er)), detail(json!({"json": j}))),
            },
            Err(er) => {
                if ok_model {
                    ctx.violation("C10:entity-from-store:to_json-refused", format!("serialising a representable entity failed: {}", bridge::err_chain(&er)), detail(json!({})));
                }
            }
        }
    }
    // context
    let cx_ok = render::value_json_representable(&GValue::Rec(w.context.clone()));
    if let Ok(cx) = bridge::context(&w) {
        match cx.to_json_value() {
            Ok(j) => match Context::from_json_value(j.clone(), None) {
                Ok(back) => {
                    ctx.count("context:roundtrip");
                    match context_value(&back) {
                        Ok(v) => {
                            if v != GValue::Rec(w.context.clone()) {
                                ctx.violation(if cx_ok { "C10:context-roundtrip:differs-from-model" } else { "C10:reserved-key:context-silently-altered" }, format!("context after JSON round trip is {:?}, model {:?}", v, w.context), detail(json!({"json": j})));
                            }
                        }
                        Err(m) => ctx.harness_error(m),
                    }
                }
                Err(er) => ctx.violation(if cx_ok { "C10:context-roundtrip:does-not-parse" } else { "C10:reserved-key:context-serialised-but-unparseable" }, format!("Context::to_json_value succeeded but its output is refused by Context::from_json_value: {}", bridge::err_chain(&er)), detail(json!({"json": j}))),
            },
            Err(er) => {
                ctx.count("context:to_json:refused");
                if cx_ok {
                    ctx.violation("C10:context:to_json-refused", format!("serialising a representable context failed: {}", bridge::err_chain(&er)), detail(json!({})));
                }
            }
        }
    }
    let has_ref_or_ext = w.entities.values().any(|e| e.attrs.values().chain(e.tags.values()).any(|v| has_ent_or_ext(v)));
    if has_ref_or_ext {
        ctx.nontrivial(&format!("wild|{:?}", w));
    }
}

fn has_ent_or_ext(v: &GValue) -> bool {
    match v {
        GValue::Ent(_) | GValue::Ext(_) => true,
        GValue::Set(xs) => xs.iter().any(has_ent_or_ext),
        GValue::Rec(m) => m.values().any(has_ent_or_ext),
        _ => false,
    }
}

fn schema_case(ctx: &mut CaseCtx) {
    let gs = gen_schema(&mut ctx.rng, &SchemaOpts::default());
    let schema: Schema = match load_schema(ctx, &gs) {
        Some(s) => s,
        None => return,
    };
    let envs = gs.envs();
    if envs.is_empty() {
        return;
    }
    let env = ctx.rng.pick_clone(&envs);
    let wg = WorldGen::new(&mut ctx.rng, &gs);
    let w = wg.world(&mut ctx.rng, &env);
    let acts: Vec<Uid> = gs.actions.iter().map(|a| a.uid()).collect();
    let detail = |extra: J| json!({"schema": gs.to_cedar(&PrintStyle{unqualified:false, loose_json:false}), "entities_model": format!("{:?}", w.entities), "context_model": format!("{:?}", w.context), "extra": extra});

    // with-schema round trip
    let ents = match entities_with_schema(&w, &gs, &schema) {
        Ok(e) => e,
        Err(e) => {
            ctx.count("schema:world_rejected");
            if ctx.verbose {
                eprintln!("world rejected: {e}");
            }
            return;
        }
    };
    if let Err(m) = store_matches_model(&ents, &w, &[]) {
        // (with a schema the store also holds the schema's action entities: the model world includes them)
        ctx.violation("C10:schema-store:differs-from-model", m, detail(json!({})));
    }
    match ents.to_json_value() {
        Ok(j) => {
            for (name, sch) in [("with-schema", Some(&schema)), ("without-schema", None)] {
                match Entities::from_json_value(j.clone(), sch) {
                    Ok(back) => {
                        ctx.count(&format!("schema-store:roundtrip:{name}"));
                        if !back.deep_eq(&ents) {
                            ctx.violation(&format!("C10:schema-store-roundtrip:{name}:not-deep-eq"), format!("round trip through JSON ({name}) is not deep_eq"), detail(json!({"json": j})));
                        }
                    }
                    Err(e) => ctx.violation(&format!("C10:schema-store-roundtrip:{name}:does-not-parse"), format!("serialised store refused ({name}): {}", bridge::err_chain(&e)), detail(json!({"json": j}))),
                }
            }
        }
        Err(e) => ctx.violation("C10:schema-store:to_json-refused", format!("serialising failed: {}", bridge::err_chain(&e)), detail(json!({}))),
    }
    // the serialised store with only SOME of the schema's action entities left in: schema-based parsing supplies
    // the schema's action entities, so the result must be the same store
    if acts.len() >= 2 {
        if let Ok(J::Array(items)) = ents.to_json_value() {
            let is_act = |it: &J| it.get("uid").map(|u| acts.iter().any(|a| u.get("type").and_then(|t| t.as_str()) == Some(a.ty.as_str()) && u.get("id").and_then(|t| t.as_str()) == Some(a.id.as_str()))).unwrap_or(false);
            let n_act = items.iter().filter(|it| is_act(it)).count();
            if n_act >= 2 {
                let keep = 1 + ctx.rng.below(n_act - 1); // 1..n_act-1 action entities stay
                let mut order: Vec<usize> = (0..n_act).collect();
                ctx.rng.shuffle(&mut order);
                let kept: Vec<usize> = order.into_iter().take(keep).collect();
                let mut seen = 0usize;
                let part: Vec<J> = items
                    .iter()
                    .filter(|it| {
                        if is_act(it) {
                            seen += 1;
                            kept.contains(&(seen - 1))
                        } else {
                            true
                        }
                    })
                    .cloned()
                    .collect();
                let jp = J::Array(part);
                match Entities::from_json_value(jp.clone(), Some(&schema)) {
                    Ok(back) => {
                        ctx.count("schema-store:roundtrip:some-actions-supplied");
                        if !back.deep_eq(&ents) {
                            ctx.violation("C10:schema-store-roundtrip:some-actions-supplied:not-deep-eq", format!("store parsed with the schema from JSON carrying {keep} of the {n_act} action entities differs from the store carrying all of them"), detail(json!({"json": jp})));
                        }
                    }
                    Err(e) => ctx.violation("C10:schema-store-roundtrip:some-actions-supplied:does-not-parse", format!("refused: {}", bridge::err_chain(&e)), detail(json!({"json": jp}))),
                }
            }
        }
    }

    // implicit forms (need the schema) vs explicit forms (no schema)
    let mut used_implicit = 0u64;
    let implicit_pct = *ctx.rng.pick(&[30u32, 60, 100]);
    let ji = entities_json_typed(&mut ctx.rng, &gs, &w, implicit_pct, &acts, &mut used_implicit);
    ctx.add("implicit_forms_used", used_implicit);
    match Entities::from_json_value(ji.clone(), Some(&schema)) {
        Ok(imp) => {
            ctx.count("implicit:parsed");
            if let Err(m) = store_matches_model(&imp, &w, &[]) {
                ctx.violation("C10:implicit-json:differs-from-model", m, detail(json!({"json": ji})));
            }
            // explicit, no schema (plus nothing else): equal to the implicit store minus the schema's action entities
            let je = {
                let mut w2 = w.clone();
                for a in &acts {
                    w2.entities.remove(a);
                }
                render::entities_json(&w2)
            };
            match Entities::from_json_value(je.clone(), None) {
                Ok(exp) => {
                    if let Err(m) = store_matches_model(&exp, &w, &acts).and_then(|_| store_matches_model(&imp, &w, &[])) {
                        ctx.violation("C10:implicit-vs-explicit", m, detail(json!({"implicit": ji, "explicit": je})));
                    }
                    // every non-action entity must be deep_eq between the two stores
                    for e in exp.iter() {
                        match imp.get(&e.uid()) {
                            Some(o) if o.deep_eq(e) => {}
                            _ => {
                                ctx.violation("C10:implicit-vs-explicit:entity-not-deep-eq", format!("entity {} differs between implicit+schema and explicit parsing", e.uid()), detail(json!({"implicit": ji, "explicit": je})));
                                break;
                            }
                        }
                    }
                }
                Err(e) => ctx.violation("C10:explicit-json:rejected", format!("explicit JSON rejected: {}", bridge::err_chain(&e)), detail(json!({"json": je}))),
            }
        }
        Err(e) => ctx.violation("C10:implicit-json:rejected", format!("conformant implicit-form JSON rejected with schema: {}", bridge::err_chain(&e)), detail(json!({"json": ji}))),
    }

    // context: implicit with (schema, action) vs explicit without
    let ctx_t = GType::Rec(env.context.clone());
    let mut used2 = 0u64;
    let jc = value_json_typed(&mut ctx.rng, &gs, &GValue::Rec(w.context.clone()), &ctx_t, implicit_pct, &mut used2);
    ctx.add("implicit_forms_used", used2);
    let action = bridge::uid(&env.action);
    match Context::from_json_value(jc.clone(), Some((&schema, &action))) {
        Ok(cx) => match context_value(&cx) {
            Ok(v) => {
                ctx.count("context:implicit:parsed");
                if v != GValue::Rec(w.context.clone()) {
                    ctx.violation("C10:context-implicit:differs-from-model", format!("context parsed with schema is {:?}, model {:?}", v, w.context), detail(json!({"json": jc})));
                }
                // and its serialisation parses back (with and without schema) to the same
                if let Ok(j2) = cx.to_json_value() {
                    for sch in [Some((&schema, &action)), None] {
                        match Context::from_json_value(j2.clone(), sch).map_err(|e| bridge::err_chain(&e)).and_then(|c| context_value(&c)) {
                            Ok(v2) if v2 == v => {}
                            other => ctx.violation("C10:context-roundtrip:schema", format!("context round trip gives {:?}", other), detail(json!({"json": j2}))),
                        }
                    }
                }
            }
            Err(m) => ctx.harness_error(m),
        },
        Err(e) => ctx.violation("C10:context-implicit:rejected", format!("conformant implicit-form context rejected: {}", bridge::err_chain(&e)), detail(json!({"json": jc}))),
    }
    if used_implicit + used2 > 0 {
        ctx.nontrivial(&format!("schema|{:?}|{:?}|{}", gs, w, implicit_pct));
    }
    ctx.sample(|| json!({"implicit_entities_json": ji, "context_json": jc}));
}

pub fn case(ctx: &mut CaseCtx) {
    if ctx.idx % 2 == 0 {
        ctx.count("family:wild-no-schema");
        wild_case(ctx)
    } else {
        ctx.count("family:schema");
        schema_case(ctx)
    }
}
