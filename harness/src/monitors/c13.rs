//! C13 — partial evaluation with unknowns is sound.
//!
//! Per case: a concrete world W (hierarchy normalised to explicit ancestor sets), a
//! policy set of 1..6 policies, and a *partial view* P of W in which any subset of
//! {principal (typed / untyped), resource (typed / untyped), whole context, individual
//! (possibly nested) context attributes, individual (possibly nested) entity attribute
//! values, whole entities (store made `.partial()`)} is unknown.  A substitution σ
//! completes P; σ ranges over the original W and 4..10 other completions of the same
//! kinds.  Oracle: the CONCRETE authorizer on σ(P) built from scratch (whole set and
//! each policy on its own).
//!
//! Checked per (P, σ):
//!  (1) `decision() == Some(d)`  =>  concrete decision is d
//!  (2) `reauthorize_with_bindings(σ)` == concrete authorization of σ(P): decision,
//!      determining policies, erroring ids (ids that errored while producing P are
//!      reported by P itself, so the comparison is on `errored(P) ∪ errored(reauth)`)
//!      -- also through the deprecated `reauthorize`, in two steps (σ split in two
//!      halves), and against the same store that still holds the unknowns
//!  (3) must_be_determining ⊆ determining(σ) ⊆ may_be_determining
//!  (4) definitely_satisfied => satisfied; definitely_errored => errors;
//!      trivially false => not satisfied (and, if not reported as errored, no error)
//! plus the accessors' own contracts (all_residuals names every policy once, get(id)).

use super::common::{single_policy_outcome, PolObs};
use crate::bridge;
use crate::gen::{self, ExprGen, Kind};
use crate::model::*;
use crate::pools;
use crate::refsem::Slots;
use crate::render::{self, TextOpts};
use crate::report::CaseCtx;
use crate::rng::Rng;
use cedar_policy::{
    Authorizer, Context, Decision, Entities, Entity, EntityUid, PartialResponse, Policy, PolicyId, PolicySet, Request, Response, RestrictedExpression, SlotId,
    Template,
};
use serde_json::{json, Value as J};
use std::collections::{BTreeMap, BTreeSet, HashMap};

// ------------------------------------------------------------------ the partial view

#[derive(Clone, Copy, Debug, PartialEq, Eq)]
enum PR {
    Known,
    Typed,
    Untyped,
}

#[derive(Clone, Debug, PartialEq, Eq, PartialOrd, Ord, Hash)]
enum Step {
    Key(String),
    Idx(usize),
}

#[derive(Clone, Debug)]
struct Hole {
    /// None = in the context
    ent: Option<Uid>,
    /// non-empty; first step is the attribute name
    path: Vec<Step>,
    name: String,
    orig: GValue,
}

#[derive(Clone, Debug)]
struct View {
    principal: PR,
    resource: PR,
    ctx_unknown: bool,
    holes: Vec<Hole>,
    removed: Vec<Uid>,
    partial_store: bool,
}

/// (a name of the form `T::"id"` would collide with the name the library itself gives to the
/// unknown standing for an entity that a partial store does not hold; not used)
const HOLE_NAMES: [&str; 10] = ["u0", "u1", "u2", "u3", "", "a b", "\u{3c0}", "x\"y", "Principal", "unknown"];

fn value_at<'a>(v: &'a GValue, path: &[Step]) -> Option<&'a GValue> {
    match path.split_first() {
        None => Some(v),
        Some((Step::Key(k), rest)) => match v {
            GValue::Rec(m) => m.get(k).and_then(|x| value_at(x, rest)),
            _ => None,
        },
        Some((Step::Idx(i), rest)) => match v {
            GValue::Set(xs) => xs.get(*i).and_then(|x| value_at(x, rest)),
            _ => None,
        },
    }
}

/// a random position inside `v` (possibly `v` itself), as a path suffix
fn random_subpath(rng: &mut Rng, v: &GValue, out: &mut Vec<Step>) {
    match v {
        GValue::Rec(m) if !m.is_empty() && rng.chance(1, 2) => {
            let keys: Vec<&String> = m.keys().collect();
            let k = (*rng.pick(&keys)).clone();
            out.push(Step::Key(k.clone()));
            random_subpath(rng, &m[&k], out);
        }
        GValue::Set(xs) if !xs.is_empty() && rng.chance(1, 3) => {
            let i = rng.below(xs.len());
            out.push(Step::Idx(i));
            random_subpath(rng, &xs[i], out);
        }
        _ => {}
    }
}

fn is_prefix(a: &[Step], b: &[Step]) -> bool {
    a.len() <= b.len() && a.iter().zip(b).all(|(x, y)| x == y)
}

fn make_view(rng: &mut Rng, w: &GWorld) -> View {
    loop {
        let pr = |rng: &mut Rng| match rng.below(8) {
            0 | 1 => PR::Typed,
            2 => PR::Untyped,
            _ => PR::Known,
        };
        let mut v = View { principal: pr(rng), resource: pr(rng), ctx_unknown: rng.chance(1, 7), holes: vec![], removed: vec![], partial_store: false };
        let mut names: Vec<String> = HOLE_NAMES.iter().map(|s| s.to_string()).collect();
        rng.shuffle(&mut names);
        let mut fresh = 0usize;
        let mut next_name = |rng: &mut Rng, holes: &Vec<Hole>| -> String {
            if !holes.is_empty() && rng.chance(1, 12) {
                // deliberate aliasing: the same unknown occurs twice
                return holes[rng.below(holes.len())].name.clone();
            }
            fresh += 1;
            if fresh <= names.len() && rng.chance(1, 3) {
                names[fresh - 1].clone()
            } else {
                format!("h{fresh}")
            }
        };
        // context attributes
        if !v.ctx_unknown && !w.context.is_empty() && rng.chance(1, 2) {
            let keys: Vec<&String> = w.context.keys().collect();
            for _ in 0..1 + rng.below(2) {
                let k = (*rng.pick(&keys)).clone();
                let mut path = vec![Step::Key(k.clone())];
                random_subpath(rng, &w.context[&k], &mut path);
                if v.holes.iter().any(|h| h.ent.is_none() && (is_prefix(&h.path, &path) || is_prefix(&path, &h.path))) {
                    continue;
                }
                let orig = value_at(&GValue::Rec(w.context.clone()), &path).expect("path").clone();
                let name = next_name(rng, &v.holes);
                v.holes.push(Hole { ent: None, path, name, orig });
            }
        }
        // whole entities
        let uids: Vec<Uid> = w.entities.keys().cloned().collect();
        if !uids.is_empty() && rng.chance(1, 4) {
            for _ in 0..1 + rng.below(2) {
                let u = if rng.chance(1, 3) && w.entities.contains_key(&w.principal) {
                    w.principal.clone()
                } else if rng.chance(1, 3) && w.entities.contains_key(&w.resource) {
                    w.resource.clone()
                } else {
                    rng.pick_clone(&uids)
                };
                if u != w.action && !v.removed.contains(&u) {
                    v.removed.push(u);
                }
            }
        }
        v.partial_store = !v.removed.is_empty() || rng.chance(1, 10);
        // entity attributes
        let with_attrs: Vec<&Uid> = w.entities.iter().filter(|(u, e)| !e.attrs.is_empty() && !v.removed.contains(u)).map(|(u, _)| u).collect();
        if !with_attrs.is_empty() && rng.chance(1, 2) {
            for _ in 0..1 + rng.below(3) {
                let u = if rng.chance(1, 3) && with_attrs.contains(&&w.principal) {
                    w.principal.clone()
                } else if rng.chance(1, 3) && with_attrs.contains(&&w.resource) {
                    w.resource.clone()
                } else {
                    (*rng.pick(&with_attrs)).clone()
                };
                let e = &w.entities[&u];
                let keys: Vec<&String> = e.attrs.keys().collect();
                let k = (*rng.pick(&keys)).clone();
                let mut path = vec![Step::Key(k.clone())];
                random_subpath(rng, &e.attrs[&k], &mut path);
                if v.holes.iter().any(|h| h.ent.as_ref() == Some(&u) && (is_prefix(&h.path, &path) || is_prefix(&path, &h.path))) {
                    continue;
                }
                let orig = value_at(&GValue::Rec(e.attrs.clone()), &path).expect("path").clone();
                let name = next_name(rng, &v.holes);
                v.holes.push(Hole { ent: Some(u), path, name, orig });
            }
        }
        let n_unknown = (v.principal != PR::Known) as usize + (v.resource != PR::Known) as usize + v.ctx_unknown as usize + v.holes.len() + v.removed.len() + v.partial_store as usize;
        if n_unknown > 0 {
            return v;
        }
    }
}

fn partial_rexpr(v: &GValue, prefix: &mut Vec<Step>, holes: &[&Hole]) -> RestrictedExpression {
    if let Some(h) = holes.iter().find(|h| h.path == *prefix) {
        return RestrictedExpression::new_unknown(&h.name);
    }
    if !holes.iter().any(|h| is_prefix(prefix, &h.path)) {
        return bridge::rexpr(v);
    }
    match v {
        GValue::Set(xs) => {
            let mut out = vec![];
            for (i, x) in xs.iter().enumerate() {
                prefix.push(Step::Idx(i));
                out.push(partial_rexpr(x, prefix, holes));
                prefix.pop();
            }
            RestrictedExpression::new_set(out)
        }
        GValue::Rec(m) => {
            let mut out = vec![];
            for (k, x) in m {
                prefix.push(Step::Key(k.clone()));
                out.push((k.clone(), partial_rexpr(x, prefix, holes)));
                prefix.pop();
            }
            RestrictedExpression::new_record(out).unwrap_or_else(|e| panic!("harness: record: {e}"))
        }
        x => bridge::rexpr(x),
    }
}

fn subst_value(v: &GValue, prefix: &mut Vec<Step>, holes: &[&Hole], vals: &BTreeMap<String, GValue>) -> GValue {
    if let Some(h) = holes.iter().find(|h| h.path == *prefix) {
        return vals[&h.name].clone();
    }
    if !holes.iter().any(|h| is_prefix(prefix, &h.path)) {
        return v.clone();
    }
    match v {
        GValue::Set(xs) => {
            let mut out = vec![];
            for (i, x) in xs.iter().enumerate() {
                prefix.push(Step::Idx(i));
                out.push(subst_value(x, prefix, holes, vals));
                prefix.pop();
            }
            GValue::set(out)
        }
        GValue::Rec(m) => {
            let mut out = BTreeMap::new();
            for (k, x) in m {
                prefix.push(Step::Key(k.clone()));
                out.insert(k.clone(), subst_value(x, prefix, holes, vals));
                prefix.pop();
            }
            GValue::Rec(out)
        }
        x => x.clone(),
    }
}

fn partial_json(v: &GValue, prefix: &mut Vec<Step>, holes: &[&Hole]) -> J {
    if let Some(h) = holes.iter().find(|h| h.path == *prefix) {
        return json!({"<<unknown>>": h.name});
    }
    match v {
        GValue::Set(xs) => J::Array(
            xs.iter()
                .enumerate()
                .map(|(i, x)| {
                    prefix.push(Step::Idx(i));
                    let j = partial_json(x, prefix, holes);
                    prefix.pop();
                    j
                })
                .collect(),
        ),
        GValue::Rec(m) => J::Object(
            m.iter()
                .map(|(k, x)| {
                    prefix.push(Step::Key(k.clone()));
                    let j = partial_json(x, prefix, holes);
                    prefix.pop();
                    (k.clone(), j)
                })
                .collect(),
        ),
        x => render::value_json(x),
    }
}

fn view_json(w: &GWorld, v: &View) -> J {
    let pr = |k: PR, u: &Uid| match k {
        PR::Known => json!(format!("{}::{:?}", u.ty, u.id)),
        PR::Typed => json!({"<<unknown of type>>": u.ty}),
        PR::Untyped => json!("<<unknown>>"),
    };
    let ctx_holes: Vec<&Hole> = v.holes.iter().filter(|h| h.ent.is_none()).collect();
    let ents: Vec<J> = w
        .entities
        .iter()
        .filter(|(u, _)| !v.removed.contains(u))
        .map(|(u, e)| {
            let hs: Vec<&Hole> = v.holes.iter().filter(|h| h.ent.as_ref() == Some(u)).collect();
            json!({"uid": render::uid_json(u), "attrs": partial_json(&GValue::Rec(e.attrs.clone()), &mut vec![], &hs),
                   "ancestors": e.parents.iter().map(render::uid_json).collect::<Vec<_>>(),
                   "tags": J::Object(e.tags.iter().map(|(k, v)| (k.clone(), render::value_json(v))).collect())})
        })
        .collect();
    json!({
        "principal": pr(v.principal, &w.principal), "action": format!("{}::{:?}", w.action.ty, w.action.id), "resource": pr(v.resource, &w.resource),
        "context": if v.ctx_unknown { json!("<<unknown>>") } else { partial_json(&GValue::Rec(w.context.clone()), &mut vec![], &ctx_holes) },
        "entities": ents, "store_is_partial": v.partial_store,
        "entities_removed": v.removed.iter().map(render::uid_json).collect::<Vec<_>>(),
    })
}

fn build_partial_request(w: &GWorld, v: &View) -> Result<Request, String> {
    let mut b = Request::builder().action(bridge::uid(&w.action));
    b = match v.principal {
        PR::Known => b.principal(bridge::uid(&w.principal)),
        PR::Typed => b.unknown_principal_with_type(bridge::type_name(&w.principal.ty)),
        PR::Untyped => b,
    };
    b = match v.resource {
        PR::Known => b.resource(bridge::uid(&w.resource)),
        PR::Typed => b.unknown_resource_with_type(bridge::type_name(&w.resource.ty)),
        PR::Untyped => b,
    };
    if !v.ctx_unknown {
        let hs: Vec<&Hole> = v.holes.iter().filter(|h| h.ent.is_none()).collect();
        let pairs: Vec<(String, RestrictedExpression)> = w.context.iter().map(|(k, x)| (k.clone(), partial_rexpr(x, &mut vec![Step::Key(k.clone())], &hs))).collect();
        b = b.context(Context::from_pairs(pairs).map_err(|e| format!("partial context: {e}"))?);
    }
    Ok(b.build())
}

fn build_partial_entities(w: &GWorld, v: &View) -> Result<Entities, String> {
    let mut list = vec![];
    for (u, e) in &w.entities {
        if v.removed.contains(u) {
            continue;
        }
        let hs: Vec<&Hole> = v.holes.iter().filter(|h| h.ent.as_ref() == Some(u)).collect();
        let attrs: Vec<(String, RestrictedExpression)> = e.attrs.iter().map(|(k, x)| (k.clone(), partial_rexpr(x, &mut vec![Step::Key(k.clone())], &hs))).collect();
        let tags: Vec<(String, RestrictedExpression)> = e.tags.iter().map(|(k, x)| (k.clone(), bridge::rexpr(x))).collect();
        list.push(Entity::new_with_tags(bridge::uid(u), attrs, e.parents.iter().map(bridge::uid), tags).map_err(|e| format!("partial entity: {e}"))?);
    }
    let es = Entities::from_entities(list, None).map_err(|e| format!("partial entities: {e}"))?;
    Ok(if v.partial_store { es.partial() } else { es })
}

// ------------------------------------------------------------------ substitutions

#[derive(Clone, Debug)]
struct Sigma {
    principal: Uid,
    resource: Uid,
    /// used when the whole context is unknown
    context: BTreeMap<String, GValue>,
    hole_vals: BTreeMap<String, GValue>,
    /// completion of entities the partial store does not hold: Some(data) / None (does not exist)
    ents: BTreeMap<Uid, Option<GEntity>>,
    kind: &'static str,
}

fn apply_sigma(w: &GWorld, v: &View, s: &Sigma) -> GWorld {
    let ctx_holes: Vec<&Hole> = v.holes.iter().filter(|h| h.ent.is_none()).collect();
    let context = if v.ctx_unknown {
        s.context.clone()
    } else {
        match subst_value(&GValue::Rec(w.context.clone()), &mut vec![], &ctx_holes, &s.hole_vals) {
            GValue::Rec(m) => m,
            _ => unreachable!("context stays a record"),
        }
    };
    let mut entities = BTreeMap::new();
    for (u, e) in &w.entities {
        if v.removed.contains(u) {
            continue;
        }
        let hs: Vec<&Hole> = v.holes.iter().filter(|h| h.ent.as_ref() == Some(u)).collect();
        let mut e2 = e.clone();
        if !hs.is_empty() {
            if let GValue::Rec(m) = subst_value(&GValue::Rec(e.attrs.clone()), &mut vec![], &hs, &s.hole_vals) {
                e2.attrs = m;
            }
        }
        entities.insert(u.clone(), e2);
    }
    for (u, e) in &s.ents {
        if let Some(e) = e {
            entities.insert(u.clone(), e.clone());
        }
    }
    GWorld {
        principal: if v.principal == PR::Known { w.principal.clone() } else { s.principal.clone() },
        action: w.action.clone(),
        resource: if v.resource == PR::Known { w.resource.clone() } else { s.resource.clone() },
        context,
        entities,
    }
}

fn uid_of_type(rng: &mut Rng, w: &GWorld, ty: &str) -> Uid {
    let same: Vec<&Uid> = w.entities.keys().filter(|u| u.ty == ty).collect();
    if !same.is_empty() && rng.chance(2, 3) {
        (*rng.pick(&same)).clone()
    } else if rng.chance(1, 4) {
        Uid::new(ty, rng.pick(&pools::IDS))
    } else {
        Uid::new(ty, rng.pick(&["a", "b", "c", "a b"]))
    }
}

fn any_uid(rng: &mut Rng, w: &GWorld) -> Uid {
    let us: Vec<&Uid> = w.entities.keys().collect();
    match rng.below(4) {
        0 | 1 if !us.is_empty() => (*rng.pick(&us)).clone(),
        2 => pools::uid(rng),
        _ => pools::small_uid(rng),
    }
}

/// the original world as a substitution
fn sigma_original(w: &GWorld, v: &View) -> Sigma {
    let mut hole_vals = BTreeMap::new();
    for h in &v.holes {
        hole_vals.entry(h.name.clone()).or_insert_with(|| h.orig.clone());
    }
    Sigma {
        principal: w.principal.clone(),
        resource: w.resource.clone(),
        context: w.context.clone(),
        hole_vals,
        ents: v.removed.iter().map(|u| (u.clone(), w.entities.get(u).cloned())).collect(),
        kind: "original",
    }
}

fn sigma_random(rng: &mut Rng, w: &GWorld, v: &View, extra_unknown_entities: &[Uid]) -> Sigma {
    let all: Vec<Uid> = w.entities.keys().cloned().collect();
    let mut s = sigma_original(w, v);
    s.kind = "random";
    // keep part of the original (so completions differ from W in a few places only) or change everything
    let keep = *rng.pick(&[0u32, 0, 1, 2]);
    let change = |rng: &mut Rng| !rng.chance(keep, 3);
    if v.principal == PR::Typed && change(rng) {
        s.principal = uid_of_type(rng, w, &w.principal.ty);
    }
    if v.principal == PR::Untyped && change(rng) {
        s.principal = any_uid(rng, w);
    }
    if v.resource == PR::Typed && change(rng) {
        s.resource = uid_of_type(rng, w, &w.resource.ty);
    }
    if v.resource == PR::Untyped && change(rng) {
        s.resource = any_uid(rng, w);
    }
    if v.ctx_unknown && change(rng) {
        let mut c = if rng.bool() { w.context.clone() } else { BTreeMap::new() };
        for k in c.keys().cloned().collect::<Vec<_>>() {
            match rng.below(4) {
                0 => {
                    c.remove(&k);
                }
                1 => {
                    c.insert(k, gen::any_value(rng, 2, &all));
                }
                _ => {}
            }
        }
        for _ in 0..rng.below(3) {
            c.insert(pools::attr(rng), gen::any_value(rng, 2, &all));
        }
        s.context = c;
    }
    let names: Vec<String> = s.hole_vals.keys().cloned().collect();
    for n in names {
        if !change(rng) {
            continue;
        }
        let orig = s.hole_vals[&n].clone();
        let nv = match rng.below(5) {
            // same kind, other value
            0 | 1 => gen::value_of_kind(rng, gen::kind_of(&orig), 2, &all),
            // some value of some other hole / attribute of the world
            2 => {
                let mut cands: Vec<GValue> = w.context.values().cloned().collect();
                for e in w.entities.values() {
                    cands.extend(e.attrs.values().cloned());
                }
                if cands.is_empty() {
                    gen::any_value(rng, 2, &all)
                } else {
                    rng.pick_clone(&cands)
                }
            }
            // anything, including wrongly typed
            _ => gen::any_value(rng, 2, &all),
        };
        s.hole_vals.insert(n, nv);
    }
    // completion of the entities the store does not hold.  A known entity's ancestor set is
    // complete in the view, so a completed entity may only have ancestors it had originally.
    let complete = |rng: &mut Rng, _u: &Uid, orig: Option<&GEntity>| -> Option<GEntity> {
        match rng.below(6) {
            0 => orig.cloned(),
            1 => None,
            _ => {
                let mut e = orig.cloned().unwrap_or_default();
                e.parents = e.parents.iter().filter(|_| rng.chance(3, 4)).cloned().collect();
                for k in e.attrs.keys().cloned().collect::<Vec<_>>() {
                    match rng.below(4) {
                        0 => {
                            e.attrs.remove(&k);
                        }
                        1 => {
                            e.attrs.insert(k, gen::any_value(rng, 2, &all));
                        }
                        _ => {}
                    }
                }
                for _ in 0..rng.below(3) {
                    e.attrs.insert(pools::attr(rng), gen::any_value(rng, 2, &all));
                }
                if rng.chance(1, 3) {
                    e.tags.insert(rng.pick(&["t", "u", "", "a b", "x"]).to_string(), gen::any_value(rng, 1, &all));
                }
                Some(e)
            }
        }
    };
    for u in &v.removed {
        if change(rng) {
            let c = complete(rng, u, w.entities.get(u));
            s.ents.insert(u.clone(), c);
        }
    }
    if v.partial_store {
        // entities that never were in the store are unknown too
        for u in extra_unknown_entities {
            if !v.removed.contains(u) && !w.entities.contains_key(u) && rng.chance(1, 3) {
                let c = complete(rng, u, None);
                s.ents.insert(u.clone(), c);
            }
        }
    }
    s
}

fn sigma_json(v: &View, s: &Sigma) -> J {
    let mut m = serde_json::Map::new();
    if v.principal != PR::Known {
        m.insert("principal".into(), render::uid_json(&s.principal));
    }
    if v.resource != PR::Known {
        m.insert("resource".into(), render::uid_json(&s.resource));
    }
    if v.ctx_unknown {
        m.insert("context".into(), render::value_json(&GValue::Rec(s.context.clone())));
    }
    for (k, x) in &s.hole_vals {
        m.insert(format!("unknown {k:?}"), render::value_json(x));
    }
    for (u, e) in &s.ents {
        m.insert(
            format!("entity {}::{:?}", u.ty, u.id),
            match e {
                None => json!("<<does not exist>>"),
                Some(e) => json!({"attrs": render::value_json(&GValue::Rec(e.attrs.clone())), "ancestors": e.parents.iter().map(render::uid_json).collect::<Vec<_>>(),
                                  "tags": render::value_json(&GValue::Rec(e.tags.clone()))}),
            },
        );
    }
    J::Object(m)
}

// ------------------------------------------------------------------ policies

/// an expression whose value depends on an unknown of the view, with its value in W
fn atoms(w: &GWorld, v: &View) -> Vec<(GExpr, GValue)> {
    let mut out = vec![];
    if v.principal != PR::Known {
        out.push((GExpr::Var(Var::Principal), GValue::Ent(w.principal.clone())));
    }
    if v.resource != PR::Known {
        out.push((GExpr::Var(Var::Resource), GValue::Ent(w.resource.clone())));
    }
    if v.ctx_unknown {
        out.push((GExpr::Var(Var::Context), GValue::Rec(w.context.clone())));
        for (k, x) in &w.context {
            out.push((GExpr::attr(GExpr::Var(Var::Context), k), x.clone()));
        }
    }
    for h in &v.holes {
        let root = match &h.ent {
            None => GExpr::Var(Var::Context),
            Some(u) if *u == w.principal && v.principal == PR::Known => GExpr::Var(Var::Principal),
            Some(u) if *u == w.resource && v.resource == PR::Known => GExpr::Var(Var::Resource),
            Some(u) => GExpr::Ent(u.clone()),
        };
        let base = match &h.ent {
            None => GValue::Rec(w.context.clone()),
            Some(u) => GValue::Rec(w.entities[u].attrs.clone()),
        };
        // the longest prefix of the path that an expression can address (record keys only)
        let mut e = root;
        let mut n = 0;
        for st in &h.path {
            match st {
                Step::Key(k) => {
                    e = GExpr::attr(e, k);
                    n += 1;
                }
                Step::Idx(_) => break,
            }
        }
        if let Some(val) = value_at(&base, &h.path[..n]) {
            out.push((e.clone(), val.clone()));
        }
        // and the enclosing value
        if n >= 2 {
            if let (GExpr::Attr(inner, _), Some(val)) = (&e, value_at(&base, &h.path[..n - 1])) {
                out.push(((**inner).clone(), val.clone()));
            }
        }
    }
    for u in &v.removed {
        let root = if *u == w.principal && v.principal == PR::Known {
            GExpr::Var(Var::Principal)
        } else if *u == w.resource && v.resource == PR::Known {
            GExpr::Var(Var::Resource)
        } else {
            GExpr::Ent(u.clone())
        };
        if let Some(e) = w.entities.get(u) {
            for (k, x) in &e.attrs {
                out.push((GExpr::attr(root.clone(), k), x.clone()));
            }
            for (k, x) in &e.tags {
                out.push((GExpr::bin(BinOp::GetTag, root.clone(), GExpr::Str(k.clone())), x.clone()));
            }
            out.push((GExpr::has(root.clone(), e.attrs.keys().next().map(|s| s.as_str()).unwrap_or("x")), GValue::Bool(!e.attrs.is_empty())));
            let anc = e.parents.iter().next().cloned().unwrap_or_else(|| Uid::new("A", "a"));
            out.push((GExpr::bin(BinOp::In, root.clone(), GExpr::Ent(anc)), GValue::Bool(!e.parents.is_empty())));
            out.push((GExpr::bin(BinOp::HasTag, root.clone(), GExpr::Str("t".into())), GValue::Bool(e.tags.contains_key("t"))));
        }
    }
    out
}

fn erroring(rng: &mut Rng) -> GExpr {
    match rng.below(6) {
        0 => GExpr::eq(GExpr::bin(BinOp::Add, GExpr::Long(1), GExpr::Str("a".into())), GExpr::Long(2)),
        1 => GExpr::attr(GExpr::Rec(vec![]), "x"),
        2 => GExpr::eq(GExpr::bin(BinOp::Mul, GExpr::Long(i64::MAX), GExpr::Long(2)), GExpr::Long(0)),
        3 => GExpr::Long(7),
        4 => GExpr::Not(GExpr::Str("x".into()).b()),
        _ => GExpr::call("isIpv4", vec![GExpr::call("ip", vec![GExpr::Str("1.2.3".into())])]),
    }
}

struct PolGen<'a> {
    w: &'a GWorld,
    atoms: Vec<(GExpr, GValue)>,
}

impl<'a> PolGen<'a> {
    fn random_bool(&self, rng: &mut Rng, depth: usize) -> GExpr {
        let mut g = ExprGen::new(rng, self.w);
        g.chaos = 8;
        g.of_kind(Kind::Bool, depth)
    }

    /// a boolean-ish expression over an unknown-dependent operand
    fn ubool(&self, rng: &mut Rng) -> GExpr {
        if self.atoms.is_empty() {
            return self.random_bool(rng, 2);
        }
        let (e, v) = rng.pick_clone(&self.atoms);
        let all: Vec<Uid> = self.w.entities.keys().cloned().collect();
        let w = self.w;
        // use the operand at a kind it does not have, sometimes
        let v = if rng.chance(1, 10) { gen::any_value(rng, 1, &all) } else { v };
        match &v {
            GValue::Bool(b) => match rng.below(4) {
                0 => e,
                1 => GExpr::Not(e.b()),
                2 => GExpr::eq(e, GExpr::Bool(*b)),
                _ => GExpr::ite(e, GExpr::Bool(rng.bool()), GExpr::Bool(rng.bool())),
            },
            GValue::Long(n) => match rng.below(5) {
                0 => GExpr::eq(e, GExpr::Long(*n)),
                1 => GExpr::bin(*rng.pick(&[BinOp::Lt, BinOp::Le, BinOp::Gt, BinOp::Ge]), e, GExpr::Long(pools::long(rng))),
                2 => GExpr::eq(GExpr::bin(*rng.pick(&[BinOp::Add, BinOp::Sub, BinOp::Mul]), e, GExpr::Long(pools::long(rng))), GExpr::Long(pools::long(rng))),
                3 => GExpr::bin(BinOp::Neq, GExpr::Neg(e.b()), GExpr::Long(0)),
                _ => GExpr::bin(BinOp::Lt, GExpr::Long(pools::long(rng)), e),
            },
            GValue::Str(s) => match rng.below(3) {
                0 => GExpr::eq(e, GExpr::Str(s.clone())),
                1 => GExpr::Like(e.b(), pools::pattern(rng)),
                _ => GExpr::eq(GExpr::Str(pools::string(rng)), e),
            },
            GValue::Ent(u) => {
                let other = |rng: &mut Rng| if rng.bool() { u.clone() } else if !all.is_empty() && rng.bool() { rng.pick_clone(&all) } else { pools::small_uid(rng) };
                let ty = |rng: &mut Rng| if rng.chance(2, 3) { u.ty.clone() } else { rng.pick(&pools::ENTITY_TYPES).to_string() };
                match rng.below(14) {
                    0 => GExpr::eq(e, GExpr::Ent(other(rng))),
                    1 => GExpr::eq(GExpr::Ent(other(rng)), e),
                    2 => GExpr::bin(BinOp::Neq, e, GExpr::Ent(other(rng))),
                    3 => GExpr::Is(e.b(), ty(rng), None),
                    4 => GExpr::Is(e.b(), ty(rng), Some(GExpr::Ent(other(rng)).b())),
                    5 => GExpr::bin(BinOp::In, e, GExpr::Ent(other(rng))),
                    6 => GExpr::bin(BinOp::In, e, GExpr::Set(vec![GExpr::Ent(other(rng)), GExpr::Ent(other(rng))])),
                    7 => GExpr::bin(BinOp::In, GExpr::Ent(other(rng)), e),
                    8 => {
                        let a = w.entities.get(u).and_then(|x| x.attrs.keys().next().cloned()).unwrap_or_else(|| pools::attr(rng));
                        GExpr::has(e, &a)
                    }
                    9 => {
                        // e.a <op> value
                        match w.entities.get(u).and_then(|x| x.attrs.iter().next()) {
                            Some((a, val)) => GExpr::eq(GExpr::attr(e, a), GExpr::from_value(val)),
                            None => GExpr::eq(GExpr::attr(e, &pools::attr(rng)), GExpr::Long(1)),
                        }
                    }
                    10 => GExpr::eq(e, GExpr::Var(*rng.pick(&[Var::Principal, Var::Resource, Var::Action]))),
                    11 => GExpr::bin(BinOp::Contains, GExpr::Set(vec![GExpr::Ent(other(rng)), e.clone()]), if rng.bool() { e } else { GExpr::Ent(other(rng)) }),
                    12 => GExpr::bin(BinOp::HasTag, e, GExpr::Str(rng.pick(&["t", "u", "", "x"]).to_string())),
                    _ => GExpr::eq(e.clone(), e),
                }
            }
            GValue::Set(xs) => match rng.below(4) {
                0 => GExpr::IsEmpty(e.b()),
                1 => {
                    let x = if !xs.is_empty() && rng.bool() { rng.pick_clone(xs) } else { gen::any_value(rng, 1, &all) };
                    GExpr::bin(BinOp::Contains, e, GExpr::from_value(&x))
                }
                2 => GExpr::bin(*rng.pick(&[BinOp::ContainsAll, BinOp::ContainsAny]), e, GExpr::from_value(&GValue::set(xs.iter().filter(|_| rng.bool()).cloned().collect()))),
                _ => GExpr::eq(e, GExpr::from_value(&v)),
            },
            GValue::Rec(m) => {
                let k = if !m.is_empty() && rng.chance(3, 4) { (*rng.pick(&m.keys().collect::<Vec<_>>())).clone() } else { pools::attr(rng) };
                match rng.below(4) {
                    0 => GExpr::has(e, &k),
                    1 => match m.get(&k) {
                        Some(val) => GExpr::eq(GExpr::attr(e, &k), GExpr::from_value(val)),
                        None => GExpr::eq(GExpr::attr(e, &k), GExpr::Long(0)),
                    },
                    2 => GExpr::eq(e, GExpr::from_value(&v)),
                    _ => GExpr::Has(e.b(), vec![if render::is_plain_ident(&k) { k } else { "x".into() }, rng.pick(&pools::PLAIN_ATTRS).to_string()]),
                }
            }
            GValue::Ext(x) => match x {
                ExtVal::Decimal(_) => GExpr::call(*rng.pick(&["lessThan", "greaterThanOrEqual"]), vec![e, GExpr::call("decimal", vec![GExpr::Str("1.0".into())])]),
                ExtVal::Ip { .. } => match rng.below(3) {
                    0 => GExpr::call(*rng.pick(&["isIpv4", "isIpv6", "isLoopback", "isMulticast"]), vec![e]),
                    1 => GExpr::call("isInRange", vec![e, GExpr::call("ip", vec![GExpr::Str("10.0.0.0/8".into())])]),
                    _ => GExpr::eq(e, GExpr::from_value(&v)),
                },
                ExtVal::Datetime(_) => match rng.below(2) {
                    0 => GExpr::bin(BinOp::Lt, e, GExpr::call("datetime", vec![GExpr::Str("2024-01-01".into())])),
                    _ => GExpr::eq(GExpr::call("toDate", vec![e.clone()]), e),
                },
                ExtVal::Duration(_) => GExpr::bin(BinOp::Le, GExpr::call("duration", vec![GExpr::Str("1h".into())]), e),
            },
        }
    }

    fn condition(&self, rng: &mut Rng) -> GExpr {
        let side = |s: &Self, rng: &mut Rng| match rng.below(7) {
            0 => GExpr::Bool(false),
            1 => GExpr::Bool(true),
            2 | 3 => erroring(rng),
            4 => s.ubool(rng),
            _ => {
                let d = 1 + rng.below(2);
                s.random_bool(rng, d)
            }
        };
        match rng.below(16) {
            0 | 1 => GExpr::and(self.ubool(rng), side(self, rng)),
            2 => GExpr::or(self.ubool(rng), side(self, rng)),
            3 => GExpr::and(side(self, rng), self.ubool(rng)),
            4 => GExpr::or(side(self, rng), self.ubool(rng)),
            5 => {
                // if <unknown> with an erroring branch
                let x = side(self, rng);
                if rng.bool() {
                    GExpr::ite(self.ubool(rng), erroring(rng), x)
                } else {
                    GExpr::ite(self.ubool(rng), x, erroring(rng))
                }
            }
            6 => {
                // equal branches
                let x = side(self, rng);
                GExpr::ite(self.ubool(rng), x.clone(), x)
            }
            7 | 8 => {
                // projection out of a record that holds an unknown-dependent field
                let a = if self.atoms.is_empty() { self.random_bool(rng, 1) } else { rng.pick_clone(&self.atoms).0 };
                let a = match rng.below(4) {
                    0 => GExpr::attr(a, &pools::attr(rng)), // may error: record is not projectable
                    1 => self.ubool(rng),
                    _ => a,
                };
                let b = side(self, rng);
                let mut fs = vec![("a".to_string(), a), ("b".to_string(), b)];
                if rng.bool() {
                    fs.reverse();
                }
                let r = GExpr::Rec(fs);
                match rng.below(6) {
                    0 | 1 => GExpr::attr(r, "b"),
                    2 => GExpr::has(r, *rng.pick(&["a", "b", "c"])),
                    3 => GExpr::attr(r, "c"),
                    4 => GExpr::and(GExpr::has(r.clone(), "b"), GExpr::attr(r, "b")),
                    _ => GExpr::eq(GExpr::attr(r, "a"), GExpr::Bool(true)),
                }
            }
            9 | 10 => {
                // typed-unknown shortcuts
                let var = *rng.pick(&[Var::Principal, Var::Resource]);
                let me = if var == Var::Principal { &self.w.principal } else { &self.w.resource };
                let ty = if rng.chance(1, 2) { me.ty.clone() } else { rng.pick(&pools::ENTITY_TYPES).to_string() };
                let lit = GExpr::Ent(if rng.chance(1, 3) { me.clone() } else { Uid::new(&ty, rng.pick(&["a", "b", "c"])) });
                let x = GExpr::Var(var);
                let core = match rng.below(8) {
                    0 => GExpr::eq(x, lit),
                    1 => GExpr::eq(lit, x),
                    2 => GExpr::bin(BinOp::Neq, x, lit),
                    3 => GExpr::Is(x.b(), ty, None),
                    4 => GExpr::Is(x.b(), ty, Some(lit.b())),
                    5 => GExpr::eq(GExpr::Var(Var::Principal), GExpr::Var(Var::Resource)),
                    6 => GExpr::Not(GExpr::Is(x.b(), ty, None).b()),
                    _ => GExpr::eq(x, GExpr::Var(Var::Action)),
                };
                match rng.below(4) {
                    0 => GExpr::and(core, side(self, rng)),
                    1 => GExpr::or(core, side(self, rng)),
                    _ => core,
                }
            }
            11 => GExpr::Not(GExpr::and(self.ubool(rng), GExpr::Bool(false)).b()),
            12 => GExpr::or(GExpr::and(self.ubool(rng), side(self, rng)), side(self, rng)),
            13 => self.ubool(rng),
            _ => {
                let d = 1 + rng.below(3);
                self.random_bool(rng, d)
            }
        }
    }
}

fn scope_pr(rng: &mut Rng, w: &GWorld, me: &Uid, slot_ok: bool) -> ScopePR {
    let other = |rng: &mut Rng| {
        let us: Vec<&Uid> = w.entities.keys().collect();
        if !us.is_empty() && rng.chance(3, 4) {
            (*rng.pick(&us)).clone()
        } else {
            pools::small_uid(rng)
        }
    };
    let tgt = |rng: &mut Rng| {
        let u = if rng.bool() { me.clone() } else { other(rng) };
        if slot_ok && rng.chance(1, 3) {
            EntOrSlot::Slot
        } else {
            EntOrSlot::Ent(u)
        }
    };
    let ty = |rng: &mut Rng| if rng.chance(2, 3) { me.ty.clone() } else { rng.pick(&pools::ENTITY_TYPES).to_string() };
    match rng.below(10) {
        0..=4 => ScopePR::Any,
        5 => ScopePR::Eq(tgt(rng)),
        6 | 7 => ScopePR::In(tgt(rng)),
        8 => ScopePR::Is(ty(rng)),
        _ => ScopePR::IsIn(ty(rng), tgt(rng)),
    }
}

#[derive(Clone, Debug)]
struct PolSpec {
    pol: GPolicy,
    slots: Slots,
}

fn make_policy(rng: &mut Rng, w: &GWorld, g: &PolGen) -> PolSpec {
    let templ = rng.chance(1, 8);
    let mut pol = GPolicy {
        annotations: if rng.chance(1, 6) { vec![("id".into(), pools::string(rng))] } else { vec![] },
        effect: if rng.chance(3, 5) { Effect::Permit } else { Effect::Forbid },
        principal: scope_pr(rng, w, &w.principal, templ),
        action: match rng.below(8) {
            0 => ScopeA::Eq(if rng.chance(3, 4) { w.action.clone() } else { Uid::new("Action", "other") }),
            1 => ScopeA::In(if rng.chance(3, 4) { w.action.clone() } else { Uid::new("Action", "group") }),
            _ => ScopeA::Any,
        },
        resource: scope_pr(rng, w, &w.resource, templ),
        conds: vec![],
    };
    for _ in 0..rng.weighted(&[1, 6, 2]) {
        pol.conds.push((rng.chance(3, 4), g.condition(rng)));
    }
    let slots = Slots {
        principal: if pol.has_slot(Slot::Principal) { Some(if rng.bool() { w.principal.clone() } else { pools::small_uid(rng) }) } else { None },
        resource: if pol.has_slot(Slot::Resource) { Some(if rng.bool() { w.resource.clone() } else { pools::small_uid(rng) }) } else { None },
    };
    PolSpec { pol, slots }
}

fn add_policy(pset: &mut PolicySet, s: &PolSpec, id: &str, text: &str) -> Result<(), String> {
    if s.pol.is_template() {
        let tid = PolicyId::new(format!("template-of-{id}"));
        let t = Template::parse(Some(tid.clone()), text).map_err(|e| format!("template does not parse: {text}: {e}"))?;
        pset.add_template(t).map_err(|e| format!("add_template: {e}"))?;
        let mut vals: HashMap<SlotId, EntityUid> = HashMap::new();
        if let Some(u) = &s.slots.principal {
            vals.insert(SlotId::principal(), bridge::uid(u));
        }
        if let Some(u) = &s.slots.resource {
            vals.insert(SlotId::resource(), bridge::uid(u));
        }
        pset.link(tid, PolicyId::new(id), vals).map_err(|e| format!("link: {e}"))?;
    } else {
        let p = Policy::parse(Some(PolicyId::new(id)), text).map_err(|e| format!("policy does not parse: {text}: {e}"))?;
        pset.add(p).map_err(|e| format!("add: {e}"))?;
    }
    Ok(())
}

// ------------------------------------------------------------------ observations

fn id_str(p: &PolicyId) -> String {
    AsRef::<str>::as_ref(p).to_string()
}

#[derive(Clone, Debug, PartialEq, Eq)]
struct Conc {
    allow: bool,
    reasons: BTreeSet<String>,
    errors: BTreeSet<String>,
}

fn observe(resp: &Response) -> Conc {
    let mut errors = BTreeSet::new();
    for e in resp.diagnostics().errors() {
        let cedar_policy::AuthorizationError::PolicyEvaluationError(pe) = e;
        errors.insert(id_str(pe.policy_id()));
    }
    Conc { allow: resp.decision() == Decision::Allow, reasons: resp.diagnostics().reason().map(id_str).collect(), errors }
}

/// what the accessors of a partial response say
#[derive(Clone, Debug)]
struct PObs {
    decision: Option<bool>,
    sat: BTreeSet<String>,
    err: BTreeSet<String>,
    nontrivial: BTreeSet<String>,
    all: Vec<String>,
    may: BTreeSet<String>,
    must: BTreeSet<String>,
}

fn pobserve(p: &PartialResponse) -> PObs {
    let ids = |it: &mut dyn Iterator<Item = Policy>| -> BTreeSet<String> { it.map(|p| id_str(p.id())).collect() };
    PObs {
        decision: p.decision().map(|d| d == Decision::Allow),
        sat: ids(&mut p.definitely_satisfied()),
        err: p.definitely_errored().map(id_str).collect(),
        nontrivial: ids(&mut p.nontrivial_residuals()),
        all: p.all_residuals().map(|p| id_str(p.id())).collect(),
        may: ids(&mut p.may_be_determining()),
        must: ids(&mut p.must_be_determining()),
    }
}

impl PObs {
    fn falsy(&self) -> BTreeSet<String> {
        self.all.iter().filter(|i| !self.nontrivial.contains(*i) && !self.sat.contains(*i)).cloned().collect()
    }
    fn json(&self) -> J {
        json!({"decision": self.decision.map(|a| if a { "allow" } else { "deny" }), "definitely_satisfied": self.sat, "definitely_errored": self.err,
               "nontrivial_residuals": self.nontrivial, "may_be_determining": self.may, "must_be_determining": self.must, "all_residuals": self.all})
    }
}

fn dec_name(d: Option<bool>) -> &'static str {
    match d {
        Some(true) => "allow",
        Some(false) => "deny",
        None => "none",
    }
}

fn err_variant(e: &cedar_policy::ReauthorizationError) -> String {
    let d = format!("{e:?}");
    let head: String = d.chars().take_while(|c| c.is_alphanumeric()).collect();
    let inner: String = d.chars().skip(head.len()).skip_while(|c| !c.is_alphanumeric()).skip_while(|c| c.is_alphanumeric()).skip_while(|c| !c.is_alphanumeric()).take_while(|c| c.is_alphanumeric()).collect();
    format!("{head}:{inner}")
}

// ------------------------------------------------------------------ the case

/// Directed probe (case 0): the minimal witness of the listed finding "a residual of a
/// template-linked policy keeps an unbound slot" (debug assertion in ast/policy.rs).  If the
/// library panics here the main loop records it under the panic signature.
fn directed_slot_residual_probe(ctx: &mut CaseCtx) {
    use cedar_policy::{Authorizer, Context, Entities, PolicyId, PolicySet, Request, SlotId, Template};
    use std::collections::HashMap;
    ctx.count("directed:slot-residual-probe");
    let t = Template::parse(Some(PolicyId::new("t")), r#"permit(principal == A::"x", action, resource == ?resource) when { 1 + "a" == 2 };"#).expect("template");
    let mut ps = PolicySet::new();
    ps.add_template(t).expect("add_template");
    let mut vals = HashMap::new();
    vals.insert(SlotId::resource(), crate::bridge::uid(&Uid::new("B", "b")));
    ps.link(PolicyId::new("t"), PolicyId::new("l"), vals).expect("link");
    let req = Request::builder().action(crate::bridge::uid(&Uid::new("Action", "a"))).resource(crate::bridge::uid(&Uid::new("B", "b"))).context(Context::empty()).build();
    let resp = Authorizer::new().is_authorized_partial(&req, &ps, &Entities::empty());
    let n = resp.nontrivial_residuals().count();
    ctx.add("directed:slot-residual-probe:residuals", n as u64);
}

pub fn case(ctx: &mut CaseCtx) {
    if ctx.idx == 0 {
        return directed_slot_residual_probe(ctx);
    }
    // ---- world, normalised: every entity lists all its ancestors, so that removing an
    // entity from the store does not change what is known about the others
    let mut w = gen::world(&mut ctx.rng);
    let anc: BTreeMap<Uid, BTreeSet<Uid>> = w.entities.keys().map(|u| (u.clone(), w.ancestors(u))).collect();
    for (u, e) in w.entities.iter_mut() {
        e.parents = anc[u].clone();
    }
    let view = make_view(&mut ctx.rng, &w);

    // ---- policies
    let gen_ = PolGen { w: &w, atoms: atoms(&w, &view) };
    let n_pol = 1 + ctx.rng.below(6);
    let specs: Vec<PolSpec> = (0..n_pol).map(|_| make_policy(&mut ctx.rng, &w, &gen_)).collect();
    let ids: Vec<String> = (0..n_pol).map(|i| format!("p{i}")).collect();
    let texts: Vec<String> = specs
        .iter()
        .map(|s| {
            let mut o = if ctx.rng.chance(1, 4) { TextOpts::random(&mut ctx.rng) } else { TextOpts::plain(&mut ctx.rng) };
            render::policy_text(&s.pol, &mut o)
        })
        .collect();
    let mut pset = PolicySet::new();
    let mut singles: Vec<PolicySet> = vec![];
    for i in 0..n_pol {
        if let Err(e) = add_policy(&mut pset, &specs[i], &ids[i], &texts[i]) {
            return ctx.harness_error(e);
        }
        let mut one = PolicySet::new();
        if let Err(e) = add_policy(&mut one, &specs[i], &ids[i], &texts[i]) {
            return ctx.harness_error(e);
        }
        singles.push(one);
    }

    // ---- the partial inputs
    let preq = match build_partial_request(&w, &view) {
        Ok(r) => r,
        Err(e) => return ctx.harness_error(e),
    };
    let pents = match build_partial_entities(&w, &view) {
        Ok(r) => r,
        Err(e) => return ctx.harness_error(e),
    };
    for (k, on) in [
        ("unknown:principal:typed", view.principal == PR::Typed),
        ("unknown:principal:untyped", view.principal == PR::Untyped),
        ("unknown:resource:typed", view.resource == PR::Typed),
        ("unknown:resource:untyped", view.resource == PR::Untyped),
        ("unknown:context:whole", view.ctx_unknown),
        ("unknown:context:attribute", view.holes.iter().any(|h| h.ent.is_none() && h.path.len() == 1)),
        ("unknown:context:nested", view.holes.iter().any(|h| h.ent.is_none() && h.path.len() > 1)),
        ("unknown:entity-attribute", view.holes.iter().any(|h| h.ent.is_some() && h.path.len() == 1)),
        ("unknown:entity-attribute:nested", view.holes.iter().any(|h| h.ent.is_some() && h.path.len() > 1)),
        ("unknown:inside-a-set", view.holes.iter().any(|h| h.path.iter().any(|s| matches!(s, Step::Idx(_))))),
        ("unknown:entity:removed", !view.removed.is_empty()),
        ("unknown:store:partial", view.partial_store),
        ("unknown:same-name-twice", {
            let names: BTreeSet<&String> = view.holes.iter().map(|h| &h.name).collect();
            names.len() < view.holes.len()
        }),
    ] {
        if on {
            ctx.count(k);
        }
    }

    if ctx.verbose {
        eprintln!("policies: {}", serde_json::to_string_pretty(&json!(texts)).unwrap());
        eprintln!("slots: {:?}", specs.iter().map(|s| &s.slots).collect::<Vec<_>>());
        eprintln!("view: {}", serde_json::to_string(&view_json(&w, &view)).unwrap());
    }
    let auth = Authorizer::new();
    let presp = auth.is_authorized_partial(&preq, &pset, &pents);
    let po = pobserve(&presp);

    let pol_json: Vec<J> = specs.iter().zip(&ids).zip(&texts).map(|((s, id), t)| json!({"id": id, "text": t, "slots": format!("{:?}", s.slots)})).collect();
    let vjson = view_json(&w, &view);
    let detail = |extra: J| {
        let mut d = json!({"policies": pol_json, "partial_view": vjson, "partial_response": po.json(),
                           "residuals": presp.nontrivial_residuals().map(|p| json!({"id": id_str(p.id()), "residual": p.to_string()})).collect::<Vec<_>>()});
        if let (J::Object(m), J::Object(x)) = (&mut d, extra) {
            m.extend(x);
        }
        d
    };

    ctx.count(&format!("decision:{}", dec_name(po.decision)));
    ctx.count(&format!("residuals:n={}", po.nontrivial.len()));
    ctx.add("policies", n_pol as u64);
    ctx.add("policies:template-linked", specs.iter().filter(|s| s.pol.is_template()).count() as u64);
    ctx.add("policies:definitely_satisfied", po.sat.len() as u64);
    ctx.add("policies:definitely_errored", po.err.len() as u64);
    ctx.add("policies:residual", po.nontrivial.len() as u64);
    ctx.add("policies:false", (po.falsy().len() - po.falsy().intersection(&po.err).count()) as u64);

    // ---- the accessors' own contracts
    {
        let mut sorted = po.all.clone();
        sorted.sort();
        let mut want = ids.clone();
        want.sort();
        ctx.count("check:all_residuals-names-every-policy");
        if sorted != want {
            ctx.violation("C13:accessor:all_residuals", format!("all_residuals() names {:?} but the policy set holds {:?}", sorted, want), detail(json!({})));
        }
        if !po.nontrivial.iter().all(|i| want.contains(i)) || !po.sat.iter().all(|i| want.contains(i)) || !po.err.iter().all(|i| want.contains(i)) {
            ctx.violation("C13:accessor:unknown-id", "an accessor names a policy that is not in the set".into(), detail(json!({})));
        }
        for i in &ids {
            if presp.get(&PolicyId::new(i)).map(|p| id_str(p.id())) != Some(i.clone()) {
                ctx.violation("C13:accessor:get", format!("get({i:?}) does not return the residual of that policy"), detail(json!({})));
            }
        }
        if presp.get(&PolicyId::new("no such policy")).is_some() {
            ctx.violation("C13:accessor:get", "get() of an id that is not in the set returns a policy".into(), detail(json!({})));
        }
        // concretize(): "all residuals are treated as errors"
        let c = observe(&presp.clone().concretize());
        ctx.count("check:concretize-residuals-are-errors");
        if !po.nontrivial.iter().all(|i| c.errors.contains(i)) {
            ctx.violation("C13:concretize:residual-not-an-error", format!("concretize() reports errors {:?} but the residual policies are {:?}", c.errors, po.nontrivial), detail(json!({})));
        }
    }

    // ---- substitutions
    // (a HashSet: sorted, so that the case stays a pure function of (seed, idx))
    let mut unknown_ents: Vec<Uid> = presp.unknown_entities().iter().map(bridge::uid_back).collect();
    unknown_ents.sort();
    ctx.add("unknown_entities_reported", unknown_ents.len() as u64);
    if !view.partial_store && !unknown_ents.is_empty() {
        ctx.violation("C13:accessor:unknown_entities", format!("unknown_entities() = {:?} although the store is not partial", unknown_ents), detail(json!({})));
    }
    for u in &unknown_ents {
        if w.entities.contains_key(u) && !view.removed.contains(u) {
            ctx.violation("C13:accessor:unknown_entities", format!("unknown_entities() names {:?}, which the store holds", u), detail(json!({})));
        }
    }
    let n_sigma = 5 + ctx.rng.below(7);
    let mut sigmas = vec![sigma_original(&w, &view)];
    for _ in 1..n_sigma {
        sigmas.push(sigma_random(&mut ctx.rng, &w, &view, &unknown_ents));
    }
    // a substitution that ignores the declared type of a typed unknown: outside the property;
    // only exercises the refusal
    if (view.principal == PR::Typed || view.resource == PR::Typed) && ctx.rng.chance(1, 6) {
        let mut s = sigma_random(&mut ctx.rng, &w, &view, &unknown_ents);
        let other_ty = |rng: &mut Rng, t: &str| loop {
            let c = *rng.pick(&pools::ENTITY_TYPES);
            if c != t {
                break c.to_string();
            }
        };
        if view.principal == PR::Typed {
            s.principal = Uid::new(other_ty(&mut ctx.rng, &w.principal.ty), "a");
        } else {
            s.resource = Uid::new(other_ty(&mut ctx.rng, &w.resource.ty), "a");
        }
        s.kind = "ill-typed";
        sigmas.push(s);
    }

    let mut checked = 0u64;
    let canon_view = format!("{:?}|{:?}|{:?}|{:?}", specs, view, w, ());
    for (si, s) in sigmas.iter().enumerate() {
        let ws = apply_sigma(&w, &view, s);
        // bindings: request variables, named unknowns, and entities the store did not hold
        let mut bindings: Vec<(String, RestrictedExpression)> = vec![];
        if view.principal != PR::Known {
            bindings.push(("principal".into(), bridge::rexpr(&GValue::Ent(s.principal.clone()))));
        }
        if view.resource != PR::Known {
            bindings.push(("resource".into(), bridge::rexpr(&GValue::Ent(s.resource.clone()))));
        }
        if view.ctx_unknown {
            bindings.push(("context".into(), bridge::rexpr(&GValue::Rec(s.context.clone()))));
        }
        for (k, x) in &s.hole_vals {
            bindings.push((k.clone(), bridge::rexpr(x)));
        }
        let mut ent_names: BTreeSet<Uid> = view.removed.iter().cloned().collect();
        ent_names.extend(unknown_ents.iter().cloned());
        ent_names.extend(s.ents.keys().cloned());
        for u in &ent_names {
            let name = bridge::uid(u).to_string();
            if !bindings.iter().any(|(k, _)| *k == name) {
                bindings.push((name, bridge::rexpr(&GValue::Ent(u.clone()))));
            }
        }
        let creq = match bridge::request(&ws, None) {
            Ok(r) => r,
            Err(e) => {
                ctx.harness_error(format!("concrete request: {e}"));
                continue;
            }
        };
        let cents = match bridge::entities(&ws, None) {
            Ok(r) => r,
            Err(e) => {
                ctx.harness_error(format!("concrete entities: {e}"));
                continue;
            }
        };
        let sdetail = |extra: J| {
            let mut d = detail(json!({"substitution": sigma_json(&view, s), "substitution_kind": s.kind,
                "concrete": {"principal": render::uid_json(&ws.principal), "action": render::uid_json(&ws.action), "resource": render::uid_json(&ws.resource),
                             "context": render::context_json(&ws), "entities": render::entities_json(&ws)}}));
            if let (J::Object(m), J::Object(x)) = (&mut d, extra) {
                m.extend(x);
            }
            d
        };

        if s.kind == "ill-typed" {
            match presp.reauthorize_with_bindings(bindings.iter().map(|(k, x)| (k.as_str(), x)), &auth, &cents) {
                Ok(_) => ctx.count("ill-typed-binding:accepted"),
                Err(e) => ctx.count(&format!("ill-typed-binding:refused:{}", err_variant(&e))),
            }
            continue;
        }

        // ---- the oracle: concrete authorization from scratch, whole set and policy by policy
        let conc = observe(&auth.is_authorized(&creq, &pset, &cents));
        let mut per: BTreeMap<String, PolObs> = BTreeMap::new();
        let mut shape_ok = true;
        for (i, one) in singles.iter().enumerate() {
            let r = auth.is_authorized(&creq, one, &cents);
            match single_policy_outcome(&r, &PolicyId::new(&ids[i])) {
                Ok(o) => {
                    per.insert(ids[i].clone(), o);
                }
                Err(m) => {
                    ctx.harness_error(format!("concrete single-policy response: {m}"));
                    shape_ok = false;
                }
            }
        }
        if !shape_ok {
            continue;
        }
        checked += 1;
        ctx.count(&format!("sigma:{}", s.kind));
        ctx.count(&format!("cell:partial={},concrete={}", dec_name(po.decision), if conc.allow { "allow" } else { "deny" }));
        let cj = json!({"decision": if conc.allow {"allow"} else {"deny"}, "reasons": conc.reasons, "errors": conc.errors,
                        "per_policy": per.iter().map(|(k, o)| (k.clone(), json!(format!("{o:?}")))).collect::<serde_json::Map<_, _>>()});

        // (1) a definite decision holds under every substitution
        if let Some(d) = po.decision {
            ctx.count("check:definite-decision");
            if d != conc.allow {
                ctx.violation(
                    "C13:decision",
                    format!("partial decision {} but the concrete decision under substitution #{si} is {}", dec_name(Some(d)), dec_name(Some(conc.allow))),
                    sdetail(json!({"concrete_response": cj})),
                );
            }
        }
        // (3) must ⊆ determining ⊆ may
        ctx.count("check:must-subset-determining");
        if !po.must.is_subset(&conc.reasons) {
            ctx.violation("C13:must_be_determining", format!("must_be_determining {:?} is not a subset of the determining policies {:?} under substitution #{si}", po.must, conc.reasons), sdetail(json!({"concrete_response": cj})));
        }
        ctx.count("check:determining-subset-may");
        if !conc.reasons.is_subset(&po.may) {
            ctx.violation("C13:may_be_determining", format!("determining policies {:?} under substitution #{si} are not all in may_be_determining {:?}", conc.reasons, po.may), sdetail(json!({"concrete_response": cj})));
        }
        // (4) per-policy claims
        for i in &po.sat {
            ctx.count("check:definitely_satisfied");
            if per.get(i) != Some(&PolObs::Satisfied) {
                ctx.violation("C13:definitely_satisfied", format!("policy {i} is reported definitely satisfied but under substitution #{si} it is {:?}", per.get(i)), sdetail(json!({"concrete_response": cj})));
            }
        }
        for i in &po.err {
            ctx.count("check:definitely_errored");
            if !matches!(per.get(i), Some(PolObs::Error(_))) {
                ctx.violation("C13:definitely_errored", format!("policy {i} is reported definitely errored but under substitution #{si} it is {:?}", per.get(i)), sdetail(json!({"concrete_response": cj})));
            }
        }
        for i in &po.falsy() {
            ctx.count("check:trivially-false");
            match per.get(i) {
                Some(PolObs::Satisfied) => {
                    ctx.violation("C13:trivially-false", format!("the residual of policy {i} is `false` but under substitution #{si} the policy is satisfied"), sdetail(json!({"concrete_response": cj})));
                }
                Some(PolObs::Error(_)) if !po.err.contains(i) => {
                    ctx.violation("C13:false-but-errors", format!("policy {i} is reported false without error but under substitution #{si} it errors"), sdetail(json!({"concrete_response": cj})));
                }
                _ => {}
            }
        }
        // no residual at all: concretize() is the concrete answer
        if po.nontrivial.is_empty() {
            ctx.count("check:concretize-without-residuals");
            let c = observe(&presp.clone().concretize());
            if c != conc {
                ctx.violation("C13:concretize", format!("no residuals, concretize() = {:?} but the concrete response under substitution #{si} is {:?}", c, conc), sdetail(json!({"concrete_response": cj})));
            }
        }

        // (2) re-authorization
        let compare_reauth = |ctx: &mut CaseCtx, label: &str, r: &PartialResponse, earlier_errors: &BTreeSet<String>, allow_residual: bool| -> bool {
            let ro = pobserve(r);
            if !ro.nontrivial.is_empty() {
                if allow_residual {
                    ctx.count(&format!("{label}:residual-remains(allowed)"));
                } else {
                    ctx.violation(
                        &format!("C13:{label}:residual-remains"),
                        format!("after binding every unknown (substitution #{si}) residuals remain for {:?}", ro.nontrivial),
                        sdetail(json!({"concrete_response": cj, "reauthorized": ro.json(), "bindings": bindings.iter().map(|(k, _)| k.clone()).collect::<Vec<_>>(),
                                       "remaining": r.nontrivial_residuals().map(|p| p.to_string()).collect::<Vec<_>>()})),
                    );
                }
                return false;
            }
            ctx.count(&format!("check:{label}"));
            let rc = observe(&r.clone().concretize());
            let mut errs = rc.errors.clone();
            errs.extend(earlier_errors.iter().cloned());
            let same = ro.decision == Some(conc.allow) && rc.allow == conc.allow && rc.reasons == conc.reasons && errs == conc.errors && ro.must == conc.reasons && ro.may == conc.reasons;
            if !same {
                let what = if ro.decision != Some(conc.allow) || rc.allow != conc.allow {
                    "decision"
                } else if rc.reasons != conc.reasons || ro.must != conc.reasons || ro.may != conc.reasons {
                    "reasons"
                } else {
                    "errors"
                };
                ctx.violation(
                    &format!("C13:{label}:{what}"),
                    format!(
                        "{label} under substitution #{si}: decision {} reasons {:?} errors {:?} (must {:?}, may {:?}); concrete: decision {} reasons {:?} errors {:?}",
                        dec_name(ro.decision), rc.reasons, errs, ro.must, ro.may, dec_name(Some(conc.allow)), conc.reasons, conc.errors
                    ),
                    sdetail(json!({"concrete_response": cj, "reauthorized": ro.json()})),
                );
            }
            same
        };

        match presp.reauthorize_with_bindings(bindings.iter().map(|(k, x)| (k.as_str(), x)), &auth, &cents) {
            Err(e) => {
                ctx.count(&format!("reauthorize:refused:{}", err_variant(&e)));
                if ctx.verbose {
                    eprintln!("reauthorize refused: {e}");
                }
            }
            Ok(r) => {
                compare_reauth(ctx, "reauthorize", &r, &po.err, false);
            }
        }
        match ctx.rng.below(4) {
            0 => {
                #[allow(deprecated)]
                let r = presp.reauthorize(bindings.iter().map(|(k, x)| (smol_str::SmolStr::new(k), x.clone())).collect(), &auth, &cents);
                match r {
                    Err(e) => ctx.count(&format!("reauthorize(deprecated):refused:{}", err_variant(&e))),
                    Ok(r) => {
                        compare_reauth(ctx, "reauthorize(deprecated)", &r, &po.err, false);
                    }
                }
            }
            1 if bindings.len() >= 2 => {
                // in two steps
                let mut first = vec![];
                let mut second = vec![];
                for b in &bindings {
                    if ctx.rng.bool() {
                        first.push(b)
                    } else {
                        second.push(b)
                    }
                }
                match presp.reauthorize_with_bindings(first.iter().map(|(k, x)| (k.as_str(), x)), &auth, &cents) {
                    Err(e) => ctx.count(&format!("reauthorize(step1):refused:{}", err_variant(&e))),
                    Ok(r1) => {
                        let o1 = pobserve(&r1);
                        ctx.count("check:step1-decision-and-bounds");
                        let bad = match o1.decision {
                            Some(d) if d != conc.allow => Some("decision"),
                            _ if !o1.must.is_subset(&conc.reasons) => Some("must_be_determining"),
                            _ if !conc.reasons.is_subset(&o1.may) => Some("may_be_determining"),
                            _ => None,
                        };
                        if let Some(b) = bad {
                            ctx.violation(
                                &format!("C13:reauthorize(step1):{b}"),
                                format!("after binding {:?} the response (decision {}, must {:?}, may {:?}) is contradicted by substitution #{si}: decision {}, determining {:?}",
                                        first.iter().map(|(k, _)| k).collect::<Vec<_>>(), dec_name(o1.decision), o1.must, o1.may, dec_name(Some(conc.allow)), conc.reasons),
                                sdetail(json!({"concrete_response": cj, "reauthorized": o1.json()})),
                            );
                        }
                        let mut earlier = po.err.clone();
                        earlier.extend(o1.err.iter().cloned());
                        // Step 2 with only the bindings not given in step 1.  A sub-expression that step 1
                        // could not simplify is kept in its *original* form, i.e. with the unknowns that
                        // step 1 bound still in it, so this may leave residuals (outside the property:
                        // counted, not reported) ...
                        let mut finished = false;
                        match r1.reauthorize_with_bindings(second.iter().map(|(k, x)| (k.as_str(), x)), &auth, &cents) {
                            Err(e) => ctx.count(&format!("reauthorize(step2,disjoint):refused:{}", err_variant(&e))),
                            Ok(r2) => finished = compare_reauth(ctx, "reauthorize(two-steps,disjoint)", &r2, &earlier, true) || pobserve(&r2).nontrivial.is_empty(),
                        }
                        // ... in which case step 2 is given every binding again, except the request
                        // variables that step 1 fixed (binding those twice is refused by design, so a
                        // kept sub-expression that mentions them can never be finished: allowed too)
                        if !finished {
                            let cumulative: Vec<&(String, RestrictedExpression)> =
                                bindings.iter().filter(|b| !(first.iter().any(|f| f.0 == b.0) && ["principal", "resource", "context"].contains(&b.0.as_str()))).collect();
                            match r1.reauthorize_with_bindings(cumulative.iter().map(|(k, x)| (k.as_str(), x)), &auth, &cents) {
                                Err(e) => ctx.count(&format!("reauthorize(step2,cumulative):refused:{}", err_variant(&e))),
                                Ok(r2) => {
                                    compare_reauth(ctx, "reauthorize(two-steps,cumulative)", &r2, &earlier, true);
                                }
                            }
                        }
                    }
                }
            }
            2 if !view.partial_store => {
                // against the store that still holds the unknowns: a nested unknown read afresh is
                // not resolved by the bindings, so residuals may legitimately remain
                match presp.reauthorize_with_bindings(bindings.iter().map(|(k, x)| (k.as_str(), x)), &auth, &pents) {
                    Err(e) => ctx.count(&format!("reauthorize(same-store):refused:{}", err_variant(&e))),
                    Ok(r) => {
                        compare_reauth(ctx, "reauthorize(same-store)", &r, &po.err, true);
                    }
                }
            }
            _ => {}
        }

        if !po.nontrivial.is_empty() {
            ctx.nontrivial(&format!("{canon_view}|{:?}", s));
        }
    }
    ctx.add("pairs_checked", checked);
    ctx.count(&format!("sigma_per_view:{checked}"));
    ctx.sample(|| {
        json!({"policies": texts, "partial_view": vjson, "partial_response": po.json(), "substitutions": checked,
               "residuals": presp.nontrivial_residuals().map(|p| p.to_string()).collect::<Vec<_>>()})
    });
}
