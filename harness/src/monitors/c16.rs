//! C16 — level validation ⇒ the level-n slice suffices.
//!
//! For a policy set that `Validator::validate_with_level(.., n)` accepts, every
//! conformant request + store must be authorized the same way (decision,
//! determining policies, erroring policies) over the full store and over the
//! level-n slice.  The slice is computed by the harness, from the harness's own
//! world model, exactly as DESIGN.md §4 C16 states:
//!
//!   work set = {principal, action, resource} ∪ uids occurring in the context;
//!   n times: keep the work-set entities that exist (all attributes, all tags,
//!   full ancestor uid set); next work set = uids occurring in their attribute
//!   and tag values.  Level 0 = empty store.
//!
//! Two variants: **L** collects uids through records and sets (the literal
//! reading of the property), **M** through records only (RFC 76's minimal
//! slice).  L ≠ full is a violation; M ≠ full alone is reported under
//! `C16:minimal-slice-only`.  Also: accepted at n ⇒ accepted at n+1.
//!
//! This file also hosts the schema post-processor (`add_chains`) and the
//! dereference-chain policy generator that C17 re-uses.

use crate::bridge;
use crate::model::*;
use crate::monitors::c03::{entities_with_schema, load_schema};
use crate::pools;
use crate::render::{self, TextOpts};
use crate::report::CaseCtx;
use crate::rng::Rng;
use crate::schema::*;
use cedar_policy::{Authorizer, Entities, Policy, PolicyId, PolicySet, Response, ValidationMode, Validator};
use serde_json::json;
use std::collections::BTreeSet;

// ===================================================================== schema post-processing

fn push_attr(attrs: &mut Vec<GAttr>, name: &str, ty: GType, required: bool) {
    if !attrs.iter().any(|a| a.name == name) {
        attrs.push(GAttr { name: name.to_string(), ty, required });
    }
}

/// Give the generated schema entity-typed attributes / tags / context fields that form
/// chains and cycles (`next`, `peer`), entities inside records (`box`), sets of entities
/// (`friends`) and two distinguishing primitives (`lvl`, `opt`).
pub fn add_chains(rng: &mut Rng, gs: &mut GSchema, tags: bool) {
    let plain: Vec<String> = gs.entity_types.iter().filter(|e| e.enum_ids.is_none()).map(|e| e.name.clone()).collect();
    let all: Vec<String> = gs.entity_types.iter().map(|e| e.name.clone()).collect();
    if plain.is_empty() {
        return;
    }
    let target = |rng: &mut Rng| if rng.chance(7, 8) { rng.pick_clone(&plain) } else { rng.pick_clone(&all) };
    let boxed = |rng: &mut Rng, t: String, t2: String| {
        let mut fs = vec![GAttr { name: "e".into(), ty: GType::Ent(t), required: rng.chance(3, 4) }, GAttr { name: "v".into(), ty: GType::Long, required: true }];
        if rng.chance(1, 3) {
            fs.push(GAttr { name: "inner".into(), ty: GType::Rec(vec![GAttr { name: "e".into(), ty: GType::Ent(t2), required: true }]), required: rng.chance(3, 4) });
        }
        GType::Rec(fs)
    };
    // a cycle through the first plain type is always there: T0.next : T0 or T0.next : T1, T1.next : T0
    let n_plain = plain.len();
    for et in gs.entity_types.iter_mut() {
        if et.enum_ids.is_some() {
            continue;
        }
        let idx = plain.iter().position(|n| *n == et.name).unwrap_or(0);
        if rng.chance(9, 10) {
            let t = if rng.chance(1, 2) { plain[(idx + 1) % n_plain].clone() } else { target(rng) };
            push_attr(&mut et.attrs, "next", GType::Ent(t), rng.chance(3, 4));
        }
        if rng.chance(1, 2) {
            let t = target(rng);
            push_attr(&mut et.attrs, "peer", GType::Ent(t), rng.chance(1, 3));
        }
        if rng.chance(3, 5) {
            let (t, t2) = (target(rng), target(rng));
            let b = boxed(rng, t, t2);
            push_attr(&mut et.attrs, "box", b, rng.chance(3, 4));
        }
        if rng.chance(1, 2) {
            let t = target(rng);
            push_attr(&mut et.attrs, "friends", GType::Set(Box::new(GType::Ent(t))), rng.chance(3, 4));
        }
        push_attr(&mut et.attrs, "lvl", GType::Long, true);
        if rng.chance(1, 2) {
            push_attr(&mut et.attrs, "opt", GType::Long, false);
        }
        if tags && rng.chance(3, 5) {
            let (t, t2) = (target(rng), target(rng));
            et.tags = Some(match rng.below(6) {
                0..=2 => GType::Ent(t),
                3 => boxed(rng, t, t2),
                4 => GType::Long,
                _ => GType::Set(Box::new(GType::Ent(t))),
            });
        }
    }
    for a in gs.actions.iter_mut() {
        if let Some(ap) = &mut a.applies {
            if rng.chance(2, 3) {
                let t = target(rng);
                push_attr(&mut ap.context, "ce", GType::Ent(t), rng.chance(2, 3));
            }
            if rng.chance(1, 2) {
                let (t, t2) = (target(rng), target(rng));
                let b = boxed(rng, t, t2);
                push_attr(&mut ap.context, "cbox", b, rng.chance(2, 3));
            }
            if rng.chance(1, 2) {
                let t = target(rng);
                push_attr(&mut ap.context, "cset", GType::Set(Box::new(GType::Ent(t))), rng.chance(2, 3));
            }
        }
    }
}

// ===================================================================== dereference-chain generator

/// an entity-typed expression reached by `depth` entity dereferences from a request variable
#[derive(Clone, Debug)]
pub struct Chain {
    pub expr: GExpr,
    /// entity type of `expr`
    pub ty: String,
    pub depth: u32,
    /// guards (in the order they must be evaluated) that make `expr` well-typed
    pub guards: Vec<GExpr>,
}

pub struct ChainOpts {
    pub allow_tags: bool,
    /// percent chance that a chain starts at an entity literal
    pub literal_roots: u32,
    /// percent chance per step that the step is hidden in a record literal / `if`
    pub disguise: u32,
    /// longest chain (number of entity dereferences before the terminal use)
    pub max_depth: u32,
    /// percent chance that the chain's entity is used without dereferencing it (`==`, `is`)
    pub prefer_no_deref: u32,
    /// keep conditions of the shared type-directed generator (they dereference up to 3 levels)
    pub plain_filler: bool,
    /// what was generated (for coverage counters)
    pub shapes: Vec<String>,
}

impl ChainOpts {
    fn shape(&mut self, s: &str) {
        self.shapes.push(s.to_string());
    }
}

/// entity-typed fields reachable through records only: (field path with `required` flags, entity type)
fn ent_fields(s: &GSchema, attrs: &[GAttr], depth: usize) -> Vec<(Vec<(String, bool)>, String)> {
    let mut out = vec![];
    for a in attrs {
        match s.resolve(&a.ty) {
            GType::Ent(n) => out.push((vec![(a.name.clone(), a.required)], n.clone())),
            GType::Rec(fs) if depth > 0 => {
                for (mut p, n) in ent_fields(s, fs, depth - 1) {
                    p.insert(0, (a.name.clone(), a.required));
                    out.push((p, n));
                }
            }
            _ => {}
        }
    }
    out
}

fn follow(mut cur: GExpr, path: &[(String, bool)], guards: &mut Vec<GExpr>) -> GExpr {
    for (a, req) in path {
        if !*req {
            let g = GExpr::Has(cur.clone().b(), vec![a.clone()]);
            if !guards.contains(&g) {
                guards.push(g);
            }
        }
        cur = GExpr::Attr(cur.b(), a.clone());
    }
    cur
}

fn lit_uid(g: &mut TypedGen, ty: &str) -> Uid {
    let pool = g.pools.get(ty).cloned().unwrap_or_default();
    let is_enum = g.schema.entity_type(ty).map(|e| e.enum_ids.is_some()).unwrap_or(false);
    if pool.is_empty() || (!is_enum && g.rng.chance(1, 8)) {
        Uid::new(ty, "zz-lit")
    } else {
        g.rng.pick_clone(&pool)
    }
}

fn add_guards(dst: &mut Vec<GExpr>, src: &[GExpr]) {
    for g in src {
        if !dst.contains(g) {
            dst.push(g.clone());
        }
    }
}

fn wrap(guards: Vec<GExpr>, body: GExpr) -> GExpr {
    let mut e = body;
    for g in guards.into_iter().rev() {
        e = GExpr::and(g, e);
    }
    e
}

fn roots(g: &mut TypedGen, o: &mut ChainOpts) -> Vec<Chain> {
    let mut out = vec![
        Chain { expr: GExpr::Var(Var::Principal), ty: g.env.principal_ty.clone(), depth: 0, guards: vec![] },
        Chain { expr: GExpr::Var(Var::Resource), ty: g.env.resource_ty.clone(), depth: 0, guards: vec![] },
    ];
    for (p, n) in ent_fields(g.schema, &g.env.context, 2) {
        let mut guards = vec![];
        let e = follow(GExpr::Var(Var::Context), &p, &mut guards);
        out.push(Chain { expr: e, ty: n, depth: 0, guards });
    }
    if o.literal_roots > 0 && g.rng.chance(o.literal_roots, 100) {
        let names: Vec<String> = g.schema.entity_types.iter().filter(|e| e.enum_ids.is_none()).map(|e| e.name.clone()).collect();
        if !names.is_empty() {
            let t = g.rng.pick_clone(&names);
            let u = lit_uid(g, &t);
            o.shape("root:literal");
            // a literal root is the only candidate when chosen
            return vec![Chain { expr: GExpr::Ent(u), ty: t, depth: 0, guards: vec![] }];
        }
    }
    out
}

/// one more entity dereference from `c` (None: the type has no entity-typed attribute / tag)
fn step(g: &mut TypedGen, o: &mut ChainOpts, c: &Chain) -> Option<Chain> {
    let et = g.schema.entity_type(&c.ty)?.clone();
    // 0 = via attribute path, 1 = via tag
    let attr_edges = ent_fields(g.schema, &et.attrs, 2);
    let tag_edges: Vec<(Vec<(String, bool)>, String)> = match (&et.tags, o.allow_tags) {
        (Some(tt), true) => match g.schema.resolve(tt) {
            GType::Ent(n) => vec![(vec![], n.clone())],
            GType::Rec(fs) => ent_fields(g.schema, fs, 1),
            _ => vec![],
        },
        _ => vec![],
    };
    if attr_edges.is_empty() && tag_edges.is_empty() {
        return None;
    }
    let use_tag = !tag_edges.is_empty() && (attr_edges.is_empty() || g.rng.chance(2, 5));
    let mut guards = c.guards.clone();
    let (expr, ty) = if use_tag {
        let (p, n) = g.rng.pick_clone(&tag_edges);
        let k = g.rng.pick(&TAG_KEYS).to_string();
        let ht = GExpr::bin(BinOp::HasTag, c.expr.clone(), GExpr::Str(k.clone()));
        if !guards.contains(&ht) {
            guards.push(ht);
        }
        let gt = GExpr::bin(BinOp::GetTag, c.expr.clone(), GExpr::Str(k));
        o.shape(if p.is_empty() { "step:getTag" } else { "step:getTag.rec" });
        (follow(gt, &p, &mut guards), n)
    } else {
        let (p, n) = g.rng.pick_clone(&attr_edges);
        o.shape(if p.len() == 1 { "step:attr" } else { "step:attr.rec" });
        (follow(c.expr.clone(), &p, &mut guards), n)
    };
    Some(Chain { expr, ty, depth: c.depth + 1, guards })
}

const LIT_FIELDS: [&str; 5] = ["a", "e", "if", "x y", "principal"];

/// a chain of exactly the wanted type and at most `max_depth` derefs, if one is found quickly
fn chain_of_type(g: &mut TypedGen, o: &mut ChainOpts, ty: &str, max_depth: u32) -> Option<Chain> {
    for _ in 0..6 {
        let lr = std::mem::replace(&mut o.literal_roots, 0);
        let rs = roots(g, o);
        o.literal_roots = lr;
        let mut c = g.rng.pick_clone(&rs);
        let want = g.rng.below(max_depth as usize + 1) as u32;
        loop {
            if c.ty == ty && (c.depth >= want || g.rng.chance(1, 3)) {
                return Some(c);
            }
            if c.depth >= max_depth {
                break;
            }
            match step(g, o, &c) {
                Some(n) => c = n,
                None => break,
            }
        }
    }
    None
}

/// hide the entity expression of `c` in a record literal or an `if` (same value, same level)
fn disguise(g: &mut TypedGen, o: &mut ChainOpts, c: Chain) -> Chain {
    let Chain { expr, ty, depth, mut guards } = c;
    let e = match g.rng.below(6) {
        0 | 1 => {
            // {f: E [, other: X]}.f
            let f = g.rng.pick(&LIT_FIELDS).to_string();
            let mut fs = vec![(f.clone(), expr)];
            if g.rng.chance(1, 2) {
                let other = LIT_FIELDS.iter().find(|x| **x != f).unwrap().to_string();
                let x = if g.rng.chance(1, 2) {
                    // an unaccessed field with its own (possibly deeper) chain
                    match build_chain(g, o, 3) {
                        Some(c2) => {
                            add_guards(&mut guards, &c2.guards);
                            o.shape("disguise:record+unaccessed-chain");
                            c2.expr
                        }
                        None => GExpr::Long(1),
                    }
                } else {
                    GExpr::Long(g.rng.range(0, 3))
                };
                if g.rng.bool() {
                    fs.push((other, x));
                } else {
                    fs.insert(0, (other, x));
                }
            }
            o.shape("disguise:record");
            GExpr::Attr(GExpr::Rec(fs).b(), f)
        }
        2 => {
            o.shape("disguise:nested-record");
            let (f1, f2) = (g.rng.pick(&LIT_FIELDS).to_string(), g.rng.pick(&LIT_FIELDS).to_string());
            GExpr::Attr(GExpr::Attr(GExpr::Rec(vec![(f1.clone(), GExpr::Rec(vec![(f2.clone(), expr)]))]).b(), f1).b(), f2)
        }
        3 | 4 => {
            // if C then E else E2 (both branches of the same entity type)
            let cnd = match g.rng.below(4) {
                0 => GExpr::bin(BinOp::Lt, GExpr::attr(GExpr::Var(Var::Principal), "lvl"), GExpr::Long(g.rng.range(-1, 3))),
                1 => {
                    let t = g.env.principal_ty.clone();
                    GExpr::eq(GExpr::Var(Var::Principal), GExpr::Ent(lit_uid(g, &t)))
                }
                2 => GExpr::bin(BinOp::Gt, GExpr::attr(GExpr::Var(Var::Resource), "lvl"), GExpr::Long(g.rng.range(-1, 3))),
                _ => {
                    let t = g.env.resource_ty.clone();
                    GExpr::eq(GExpr::Var(Var::Resource), GExpr::Ent(lit_uid(g, &t)))
                }
            };
            let other = if g.rng.chance(1, 12) {
                o.shape("disguise:if-literal-branch");
                GExpr::Ent(lit_uid(g, &ty))
            } else {
                match chain_of_type(g, o, &ty, depth.max(1)) {
                    Some(c2) => {
                        add_guards(&mut guards, &c2.guards);
                        o.shape("disguise:if-two-chains");
                        c2.expr
                    }
                    None => {
                        o.shape("disguise:if-same");
                        expr.clone()
                    }
                }
            };
            if g.rng.bool() {
                GExpr::ite(cnd, expr, other)
            } else {
                GExpr::ite(cnd, other, expr)
            }
        }
        _ => {
            // record literal inside an if: (if C then {f: E} else {f: E}).f
            o.shape("disguise:if-of-records");
            let f = g.rng.pick(&LIT_FIELDS).to_string();
            let t = g.env.principal_ty.clone();
            let cnd = GExpr::eq(GExpr::Var(Var::Principal), GExpr::Ent(lit_uid(g, &t)));
            GExpr::Attr(GExpr::ite(cnd, GExpr::Rec(vec![(f.clone(), expr.clone())]), GExpr::Rec(vec![(f.clone(), expr)])).b(), f)
        }
    };
    Chain { expr: e, ty, depth, guards }
}

/// a chain of up to `max_depth` dereferences, each step possibly disguised
pub fn build_chain(g: &mut TypedGen, o: &mut ChainOpts, max_depth: u32) -> Option<Chain> {
    let rs = roots(g, o);
    if rs.is_empty() {
        return None;
    }
    let mut c = g.rng.pick_clone(&rs);
    let want = g.rng.below(max_depth as usize + 1) as u32;
    // the recursion budget: disguises call build_chain again
    let dis = o.disguise;
    while c.depth < want {
        match step(g, o, &c) {
            Some(n) => c = n,
            None => break,
        }
        if dis > 0 && g.rng.chance(dis, 100) {
            o.disguise = dis / 3;
            c = disguise(g, o, c);
            o.disguise = dis;
        }
    }
    if c.depth == 0 && dis > 0 && g.rng.chance(dis / 2, 100) {
        o.disguise = dis / 3;
        c = disguise(g, o, c);
        o.disguise = dis;
    }
    Some(c)
}

/// types an entity of type `t` can be `in` (itself and everything reachable through memberOfTypes)
fn in_targets(s: &GSchema, t: &str) -> Vec<String> {
    let mut v = vec![t.to_string()];
    for e in &s.entity_types {
        if e.name != t && s.type_can_descend(t, &e.name) {
            v.push(e.name.clone());
        }
    }
    v
}

/// a boolean use of the chain's entity (dereferencing or not)
fn terminal(g: &mut TypedGen, o: &mut ChainOpts, c: &Chain, guards: &mut Vec<GExpr>) -> GExpr {
    let et = match g.schema.entity_type(&c.ty) {
        Some(e) => e.clone(),
        None => return GExpr::Bool(true),
    };
    let e = c.expr.clone();
    let vars_of_type = |g: &TypedGen, t: &str| -> Vec<GExpr> {
        let mut v = vec![];
        if g.env.principal_ty == t {
            v.push(GExpr::Var(Var::Principal));
        }
        if g.env.resource_ty == t {
            v.push(GExpr::Var(Var::Resource));
        }
        v
    };
    for _ in 0..8 {
        let pick = if o.prefer_no_deref > 0 && g.rng.chance(o.prefer_no_deref, 100) { *g.rng.pick(&[7, 7, 10]) } else { g.rng.below(12) };
        match pick {
            0 | 1 => {
                // primitive attribute compared
                let prims: Vec<GAttr> = et.attrs.iter().filter(|a| matches!(g.schema.resolve(&a.ty), GType::Long | GType::Str | GType::Bool)).cloned().collect();
                if prims.is_empty() {
                    continue;
                }
                let a = g.rng.pick_clone(&prims);
                if !a.required {
                    add_guards(guards, &[GExpr::Has(e.clone().b(), vec![a.name.clone()])]);
                }
                let acc = GExpr::attr(e, &a.name);
                o.shape("use:attr-compare");
                return match g.schema.resolve(&a.ty) {
                    GType::Long => {
                        let rhs = if g.rng.chance(1, 4) { g.of_type(&GType::Long, 0, guards) } else { GExpr::Long(g.rng.range(-2, 4)) };
                        GExpr::bin(*g.rng.pick(&[BinOp::Lt, BinOp::Le, BinOp::Eq, BinOp::Neq, BinOp::Gt, BinOp::Ge]), acc, rhs)
                    }
                    GType::Str => {
                        if g.rng.bool() {
                            GExpr::eq(acc, GExpr::Str(pools::string(g.rng)))
                        } else {
                            GExpr::Like(acc.b(), pools::pattern(g.rng))
                        }
                    }
                    _ => acc,
                };
            }
            2 => {
                if et.attrs.is_empty() {
                    continue;
                }
                let a = g.rng.pick_clone(&et.attrs);
                // `e has a` or `e has a.b`
                if let GType::Rec(fs) = g.schema.resolve(&a.ty) {
                    // (the `has a.b` sugar only exists for identifier-shaped names)
                    let fs: Vec<GAttr> = fs.iter().filter(|f| render::is_plain_ident(&f.name)).cloned().collect();
                    if !fs.is_empty() && render::is_plain_ident(&a.name) && g.rng.bool() {
                        o.shape("use:has-path");
                        let f = g.rng.pick_clone(&fs);
                        return GExpr::Has(e.b(), vec![a.name.clone(), f.name]);
                    }
                }
                o.shape("use:has");
                return GExpr::Has(e.b(), vec![a.name]);
            }
            3 => {
                if !o.allow_tags {
                    continue;
                }
                let tt = match &et.tags {
                    Some(t) => g.schema.resolve(t).clone(),
                    None => continue,
                };
                let k = g.rng.pick(&TAG_KEYS).to_string();
                let ht = GExpr::bin(BinOp::HasTag, e.clone(), GExpr::Str(k.clone()));
                if g.rng.chance(1, 3) {
                    o.shape("use:hasTag");
                    return ht;
                }
                let gt = GExpr::bin(BinOp::GetTag, e.clone(), GExpr::Str(k));
                let body = match &tt {
                    GType::Long => GExpr::bin(BinOp::Lt, gt, GExpr::Long(g.rng.range(-2, 4))),
                    GType::Str => GExpr::eq(gt, GExpr::Str(pools::string(g.rng))),
                    GType::Ent(n) => {
                        if g.rng.bool() {
                            GExpr::eq(gt, GExpr::Ent(lit_uid(g, n)))
                        } else {
                            let ts = in_targets(g.schema, n);
                            let t = g.rng.pick_clone(&ts);
                            GExpr::bin(BinOp::In, gt, GExpr::Ent(lit_uid(g, &t)))
                        }
                    }
                    GType::Set(_) => GExpr::IsEmpty(gt.b()),
                    GType::Rec(fs) => match fs.iter().find(|f| f.name == "v" && f.required) {
                        Some(_) => GExpr::bin(BinOp::Ge, GExpr::attr(gt, "v"), GExpr::Long(g.rng.range(-2, 4))),
                        None => continue,
                    },
                    _ => continue,
                };
                o.shape("use:getTag");
                add_guards(guards, &[ht]);
                return body;
            }
            4 | 5 => {
                // E in X
                let ts = in_targets(g.schema, &c.ty);
                let t = g.rng.pick_clone(&ts);
                let rhs = match g.rng.below(5) {
                    0 => {
                        o.shape("use:in-set-literal");
                        let t2 = g.rng.pick_clone(&ts);
                        GExpr::Set(vec![GExpr::Ent(lit_uid(g, &t)), GExpr::Ent(lit_uid(g, &t2))])
                    }
                    1 => {
                        let vs = vars_of_type(g, &t);
                        if vs.is_empty() {
                            continue;
                        }
                        o.shape("use:in-var");
                        g.rng.pick_clone(&vs)
                    }
                    2 => {
                        // a set-of-entities path (context.cset, principal.friends, ...)
                        let want = GType::Set(Box::new(GType::Ent(t.clone())));
                        let cands: Vec<Path> = g.paths.iter().filter(|p| g.schema.expand(&p.ty) == want).cloned().collect();
                        if cands.is_empty() {
                            continue;
                        }
                        let p = g.rng.pick_clone(&cands);
                        add_guards(guards, &p.guards);
                        o.shape("use:in-set-path");
                        p.expr
                    }
                    3 => match chain_of_type(g, o, &t, 2) {
                        Some(c2) => {
                            add_guards(guards, &c2.guards);
                            o.shape("use:in-chain");
                            c2.expr
                        }
                        None => continue,
                    },
                    _ => {
                        o.shape("use:in-literal");
                        GExpr::Ent(lit_uid(g, &t))
                    }
                };
                return GExpr::bin(BinOp::In, e, rhs);
            }
            6 => {
                // X in E
                let lhs = if g.rng.chance(1, 6) {
                    GExpr::Ent(lit_uid(g, &c.ty))
                } else if g.rng.bool() {
                    GExpr::Var(Var::Principal)
                } else {
                    GExpr::Var(Var::Resource)
                };
                o.shape("use:rhs-of-in");
                return GExpr::bin(BinOp::In, lhs, e);
            }
            7 => {
                // equality (no dereference)
                let vs = vars_of_type(g, &c.ty);
                let rhs = if !vs.is_empty() && g.rng.bool() { g.rng.pick_clone(&vs) } else { GExpr::Ent(lit_uid(g, &c.ty)) };
                o.shape("use:eq");
                return GExpr::bin(if g.rng.chance(3, 4) { BinOp::Eq } else { BinOp::Neq }, e, rhs);
            }
            8 | 9 => {
                // sets of entities held by the entity
                let sets: Vec<(GAttr, String)> = et
                    .attrs
                    .iter()
                    .filter_map(|a| match g.schema.resolve(&a.ty) {
                        GType::Set(el) => match g.schema.resolve(el) {
                            GType::Ent(n) => Some((a.clone(), n.clone())),
                            _ => None,
                        },
                        _ => None,
                    })
                    .collect();
                if sets.is_empty() {
                    continue;
                }
                let (a, n) = g.rng.pick_clone(&sets);
                if !a.required {
                    add_guards(guards, &[GExpr::Has(e.clone().b(), vec![a.name.clone()])]);
                }
                let acc = GExpr::attr(e, &a.name);
                let vs = vars_of_type(g, &n);
                let x = if !vs.is_empty() && g.rng.bool() { g.rng.pick_clone(&vs) } else { GExpr::Ent(lit_uid(g, &n)) };
                return match g.rng.below(5) {
                    0 => {
                        o.shape("use:set.contains");
                        GExpr::bin(BinOp::Contains, acc, x)
                    }
                    1 => {
                        o.shape("use:in-own-set");
                        // any entity may stand left of `in`
                        let l = if g.rng.bool() { GExpr::Var(Var::Principal) } else { GExpr::Var(Var::Resource) };
                        GExpr::bin(BinOp::In, l, acc)
                    }
                    2 => {
                        o.shape("use:set.isEmpty");
                        GExpr::IsEmpty(acc.b())
                    }
                    3 => {
                        o.shape("use:set.containsAny");
                        GExpr::bin(BinOp::ContainsAny, acc, GExpr::Set(vec![x]))
                    }
                    _ => {
                        o.shape("use:set.containsAll");
                        GExpr::bin(BinOp::ContainsAll, acc, GExpr::Set(vec![x]))
                    }
                };
            }
            10 => {
                o.shape("use:is");
                let t = if g.rng.chance(3, 4) { c.ty.clone() } else { g.rng.pick_clone(&g.schema.entity_types.iter().map(|e| e.name.clone()).collect::<Vec<_>>()) };
                return GExpr::Is(e.b(), t, None);
            }
            _ => {
                // equality on a record-typed attribute (needs the whole record)
                let recs: Vec<GAttr> = et.attrs.iter().filter(|a| matches!(g.schema.resolve(&a.ty), GType::Rec(_))).cloned().collect();
                if recs.is_empty() {
                    continue;
                }
                let a = g.rng.pick_clone(&recs);
                if !a.required {
                    add_guards(guards, &[GExpr::Has(e.clone().b(), vec![a.name.clone()])]);
                }
                let acc = GExpr::attr(e.clone(), &a.name);
                let all_required = match g.schema.expand(&a.ty) {
                    GType::Rec(fs) => fs.iter().all(|f| f.required),
                    _ => false,
                };
                let rhs = if all_required && g.rng.chance(2, 3) {
                    o.shape("use:record-eq-literal");
                    g.of_type(&a.ty, 1, guards)
                } else {
                    o.shape("use:record-eq-self");
                    acc.clone()
                };
                return GExpr::eq(acc, rhs);
            }
        }
    }
    o.shape("use:fallback-is");
    GExpr::Is(e.b(), c.ty.clone(), None)
}

/// `guards && use(chain)`
pub fn chain_cond(g: &mut TypedGen, o: &mut ChainOpts) -> GExpr {
    if g.rng.chance(7, 100) {
        // the action and its groups (the hierarchy of `action` is data of the store, too)
        let acts: Vec<Uid> = g.schema.actions.iter().map(|a| a.uid()).collect();
        let a = g.rng.pick_clone(&acts);
        return match g.rng.below(6) {
            0 => {
                o.shape("use:action-eq");
                GExpr::eq(GExpr::Var(Var::Action), GExpr::Ent(a))
            }
            4 | 5 => {
                // an action LITERAL on the left of `in` (its own action or, usually, another one): only the
                // request's own action is in the slice, so a level checker must refuse other literals here
                o.shape("use:action-literal-in");
                let b = g.rng.pick_clone(&acts);
                let lhs = if g.rng.chance(1, 4) { GExpr::ite(GExpr::Bool(true), GExpr::Ent(a), GExpr::Var(Var::Action)) } else { GExpr::Ent(a) };
                if g.rng.bool() {
                    GExpr::bin(BinOp::In, lhs, GExpr::Ent(b))
                } else {
                    let c2 = g.rng.pick_clone(&acts);
                    GExpr::bin(BinOp::In, lhs, GExpr::Set(vec![GExpr::Ent(b), GExpr::Ent(c2)]))
                }
            }
            1 => {
                o.shape("use:action-in-set");
                let b = g.rng.pick_clone(&acts);
                GExpr::bin(BinOp::In, GExpr::Var(Var::Action), GExpr::Set(vec![GExpr::Ent(a), GExpr::Ent(b)]))
            }
            _ => {
                o.shape("use:action-in");
                GExpr::bin(BinOp::In, GExpr::Var(Var::Action), GExpr::Ent(a))
            }
        };
    }
    let c = match build_chain(g, o, o.max_depth) {
        Some(c) => c,
        None => return GExpr::Bool(true),
    };
    o.shapes.push(format!("chain-depth:{}", c.depth));
    let mut guards = c.guards.clone();
    let body = terminal(g, o, &c, &mut guards);
    wrap(guards, body)
}

/// a policy for `g.env` whose conditions are dominated by dereference chains
pub fn chain_policy(g: &mut TypedGen, o: &mut ChainOpts) -> GPolicy {
    // scope (pins the environment) from the shared generator; its conditions are kept sometimes
    let mut p = typed_policy(g, 1);
    if !o.plain_filler || g.rng.chance(2, 3) {
        p.conds.clear();
    }
    let n = 1 + g.rng.below(2);
    for _ in 0..n {
        let c = chain_cond(g, o);
        let c = match if o.plain_filler { g.rng.below(10) } else { 3 + g.rng.below(7) } {
            0 => {
                let t = g.bool_expr(1);
                GExpr::and(t, c)
            }
            1 => {
                let t = g.bool_expr(1);
                GExpr::or(t, c)
            }
            2 => {
                let t = g.bool_expr(1);
                let c2 = chain_cond(g, o);
                GExpr::ite(t, c, c2)
            }
            3 => GExpr::Not(c.b()),
            4 => {
                let c2 = chain_cond(g, o);
                if g.rng.bool() {
                    GExpr::or(c, c2)
                } else {
                    GExpr::and(c, c2)
                }
            }
            _ => c,
        };
        p.conds.push((g.rng.chance(4, 5), c));
    }
    p
}

// ===================================================================== the harness's own slice

/// uids of the entities in the level-`n` slice (`through_sets`: L, otherwise M)
pub fn level_slice(w: &GWorld, n: u32, through_sets: bool) -> BTreeSet<Uid> {
    let collect = |v: &GValue, out: &mut BTreeSet<Uid>| {
        if through_sets {
            v.uids(out)
        } else {
            v.uids_records_only(out)
        }
    };
    let mut work: BTreeSet<Uid> = [w.principal.clone(), w.action.clone(), w.resource.clone()].into_iter().collect();
    for v in w.context.values() {
        collect(v, &mut work);
    }
    let mut kept: BTreeSet<Uid> = BTreeSet::new();
    for _ in 0..n {
        let mut next = BTreeSet::new();
        for u in &work {
            if let Some(e) = w.entities.get(u) {
                kept.insert(u.clone());
                for v in e.attrs.values().chain(e.tags.values()) {
                    collect(v, &mut next);
                }
            }
        }
        work = next;
    }
    kept
}

/// the store holding exactly `keep`, each entity with all attributes, all tags and its FULL
/// ancestor uid set (taken from the original world) as parents
pub fn sliced_store(w: &GWorld, keep: &BTreeSet<Uid>) -> Result<Entities, String> {
    let mut list = vec![];
    for u in keep {
        let e = w.entities.get(u).ok_or_else(|| format!("slice names absent entity {:?}", u))?;
        let ge = GEntity { parents: w.ancestors(u), attrs: e.attrs.clone(), tags: e.tags.clone() };
        list.push(bridge::entity(u, &ge)?);
    }
    Entities::from_entities(list, None).map_err(|e| bridge::err_chain(&e))
}

#[derive(Clone, Debug, PartialEq, Eq)]
pub struct Summary {
    pub decision: String,
    pub reasons: BTreeSet<String>,
    pub errors: BTreeSet<String>,
}

impl Summary {
    pub fn of(r: &Response) -> Summary {
        Summary {
            decision: format!("{:?}", r.decision()),
            reasons: r.diagnostics().reason().map(|p| p.to_string()).collect(),
            errors: r
                .diagnostics()
                .errors()
                .map(|e| {
                    let cedar_policy::AuthorizationError::PolicyEvaluationError(pe) = e;
                    pe.policy_id().to_string()
                })
                .collect(),
        }
    }
    pub fn json(&self) -> serde_json::Value {
        json!({"decision": self.decision, "reasons": self.reasons, "errors": self.errors})
    }
    /// which components differ
    pub fn diff(&self, o: &Summary) -> String {
        let mut v = vec![];
        if self.decision != o.decision {
            v.push("decision");
        }
        if self.reasons != o.reasons {
            v.push("reasons");
        }
        if self.errors != o.errors {
            v.push("errors");
        }
        v.join("+")
    }
}

/// Record a violation, but keep at most a few witnesses per signature so that a frequent class
/// does not crowd a rare one out of the (bounded) report; every occurrence is counted.
pub fn report(ctx: &mut CaseCtx, sig: &str, what: String, detail: serde_json::Value) {
    ctx.count(&format!("violation:{sig}"));
    let already = ctx.rep.violations.iter().filter(|v| v.signature == sig).count();
    if already < 6 {
        ctx.violation(sig, what, detail);
    } else {
        ctx.count("violations_beyond_per_signature_limit");
    }
}

pub fn err_kind<E: std::fmt::Debug>(e: &E) -> String {
    let s = format!("{:?}", e);
    s.split(|c| c == '(' || c == ' ' || c == '{').next().unwrap_or("?").to_string()
}

/// parse the policies into a set with ids p0, p1, ...
pub fn make_pset(ctx: &mut CaseCtx, texts: &[String]) -> Option<PolicySet> {
    let mut pset = PolicySet::new();
    for (i, t) in texts.iter().enumerate() {
        match Policy::parse(Some(PolicyId::new(format!("p{i}"))), t) {
            Ok(p) => {
                if let Err(e) = pset.add(p) {
                    ctx.harness_error(format!("policy set refuses p{i}: {e}"));
                    return None;
                }
            }
            Err(e) => {
                ctx.harness_error(format!("generated policy does not parse: {t}: {e}"));
                return None;
            }
        }
    }
    Some(pset)
}

/// The shared world generator gives an entity 0..2 tags under keys {"k","t",""}; policies look
/// up "k" and "t".  Add (conformant) tags under those keys more often, so that a tag lookup
/// usually finds something and the entity behind it matters.
pub fn more_tags(rng: &mut Rng, wg: &WorldGen, w: &mut GWorld) {
    for (u, e) in w.entities.iter_mut() {
        let tt = match wg.schema.entity_type(&u.ty).and_then(|et| et.tags.clone()) {
            Some(t) => t,
            None => continue,
        };
        for k in TAG_KEYS {
            if !e.tags.contains_key(k) && rng.chance(1, 2) {
                e.tags.insert(k.to_string(), wg.value_of_type(rng, &tt, 2));
            }
        }
    }
}

pub const MAX_N: u32 = 4;

pub fn case(ctx: &mut CaseCtx) {
    let mut gs = gen_schema(&mut ctx.rng, &SchemaOpts::default());
    add_chains(&mut ctx.rng, &mut gs, true);
    let schema = match load_schema(ctx, &gs) {
        Some(s) => s,
        None => return,
    };
    let envs = gs.envs();
    if envs.is_empty() {
        ctx.count("no_envs");
        return;
    }
    let env = ctx.rng.pick_clone(&envs);
    let wg = WorldGen::new(&mut ctx.rng, &gs);
    let npol = 1 + ctx.rng.below(3);
    let mut opts = ChainOpts { allow_tags: true, literal_roots: 2, disguise: 45, max_depth: 4, plain_filler: true, prefer_no_deref: 5, shapes: vec![] };
    let mut pols: Vec<GPolicy> = vec![];
    {
        let mut g = TypedGen::new(&mut ctx.rng, &gs, &env, &wg.pools);
        // the longest chain is bounded per case so that every level 0..4 sees accepted sets
        let case_max = g.rng.below(5) as u32;
        for _ in 0..npol {
            opts.max_depth = g.rng.below(case_max as usize + 1) as u32;
            opts.plain_filler = case_max >= 2;
            opts.prefer_no_deref = if case_max == 0 { 60 } else { 5 };
            pols.push(chain_policy(&mut g, &mut opts));
        }
    }
    for s in std::mem::take(&mut opts.shapes) {
        ctx.count(&format!("shape:{s}"));
    }
    let texts: Vec<String> = pols
        .iter()
        .map(|p| {
            if ctx.rng.chance(1, 5) {
                render::policy_text(p, &mut TextOpts::random(&mut ctx.rng))
            } else {
                render::policy_text(p, &mut TextOpts::plain(&mut ctx.rng))
            }
        })
        .collect();
    let pset = match make_pset(ctx, &texts) {
        Some(p) => p,
        None => return,
    };
    let validator = Validator::new(schema.clone());
    let (mode, mode_name) = if ctx.rng.chance(4, 5) { (ValidationMode::Strict, "strict") } else { (ValidationMode::Permissive, "permissive") };
    let base_ok = validator.validate(&pset, mode).validation_passed();
    ctx.count(if base_ok { "plain-validation:accepted" } else { "plain-validation:rejected" });

    let schema_text = gs.to_cedar(&PrintStyle { unqualified: false, loose_json: false });
    let detail = |extra: serde_json::Value| json!({"schema": schema_text, "policies": texts, "mode": mode_name, "env": format!("{}/{:?}/{}", env.principal_ty, env.action, env.resource_ty), "extra": extra});

    // acceptance per level 0..=MAX_N+1
    let mut acc: Vec<bool> = vec![];
    for n in 0..=MAX_N + 1 {
        let r = validator.validate_with_level(&pset, mode, n);
        let ok = r.validation_passed();
        acc.push(ok);
        if n <= MAX_N {
            ctx.count(&format!("cell:n={}:{}", n, if ok { "accepted" } else { "rejected" }));
        }
        if !ok && base_ok {
            let mut kinds: BTreeSet<String> = BTreeSet::new();
            for e in r.validation_errors() {
                let msg = e.to_string();
                kinds.insert(if msg.contains("entity literals cannot be dereferenced") {
                    "LiteralDerefTarget".to_string()
                } else if msg.contains("exceeds the maximum allowed level") {
                    "MaximumLevelExceeded".to_string()
                } else {
                    err_kind(e)
                });
            }
            for k in kinds {
                ctx.count(&format!("level-rejected-for:{k}"));
            }
        }
        if ok && !base_ok {
            // not part of the property; recorded so that it would be noticed
            ctx.count("accepted-with-level-but-plain-validation-rejects");
        }
    }
    for n in 0..=MAX_N {
        if acc[n as usize] && !acc[n as usize + 1] {
            let msgs: Vec<String> = validator.validate_with_level(&pset, mode, n + 1).validation_errors().map(|e| e.to_string()).collect();
            ctx.violation("C16:accepted-at-n-rejected-at-n+1", format!("policy set accepted at level {} but rejected at level {}: {:?} :: {:?}", n, n + 1, texts, msgs), detail(json!({"n": n, "errors_at_n+1": msgs})));
        }
    }
    let min_level = match (0..=MAX_N).find(|n| acc[*n as usize]) {
        Some(n) => n,
        None => {
            ctx.count(if base_ok { "never-accepted-up-to-4" } else { "not-valid" });
            return;
        }
    };
    ctx.count(&format!("min-accepted-level:{min_level}"));
    // >= 1 dereference: the set is refused at level 0 only because of the level
    let has_deref = min_level >= 1;

    let n_worlds = if ctx.thorough() { 8 } else { 4 };
    let auth = Authorizer::new();
    for _ in 0..n_worlds {
        let mut w = wg.world(&mut ctx.rng, &env);
        more_tags(&mut ctx.rng, &wg, &mut w);
        let req = match bridge::request(&w, Some(&schema)) {
            Ok(r) => r,
            Err(e) => {
                ctx.count("world_rejected:request");
                if ctx.verbose {
                    eprintln!("request rejected: {e}");
                }
                continue;
            }
        };
        let full = match entities_with_schema(&w, &gs, &schema) {
            Ok(e) => e,
            Err(e) => {
                ctx.count("world_rejected:entities");
                if ctx.verbose {
                    eprintln!("entities rejected: {e}");
                }
                continue;
            }
        };
        let full_sum = Summary::of(&auth.is_authorized(&req, &pset, &full));
        ctx.count(&format!("full-decision:{}", full_sum.decision));
        if !full_sum.errors.is_empty() {
            ctx.count("full-store-with-erroring-policies");
        }
        let store_size = w.entities.len() as u64;
        for n in 0..=MAX_N {
            if !acc[n as usize] {
                continue;
            }
            ctx.count("triples");
            ctx.count(&format!("triples:n={n}"));
            let l = level_slice(&w, n, true);
            let m = level_slice(&w, n, false);
            debug_assert!(m.is_subset(&l));
            ctx.add(&format!("slice-size-sum:L:n={n}"), l.len() as u64);
            ctx.add(&format!("slice-size-sum:M:n={n}"), m.len() as u64);
            ctx.add(&format!("store-size-sum:n={n}"), store_size);
            if m.len() < l.len() {
                ctx.count("M-smaller-than-L");
            }
            let wdetail = |extra: serde_json::Value| {
                let mut d = detail(extra);
                d["n"] = json!(n);
                d["principal"] = json!(format!("{:?}", w.principal));
                d["action"] = json!(format!("{:?}", w.action));
                d["resource"] = json!(format!("{:?}", w.resource));
                d["context"] = render::context_json(&w);
                d["entities"] = render::entities_json(&w);
                d
            };
            let l_store = match sliced_store(&w, &l) {
                Ok(s) => s,
                Err(e) => {
                    ctx.harness_error(format!("could not build slice L: {e}"));
                    continue;
                }
            };
            let l_sum = Summary::of(&auth.is_authorized(&req, &pset, &l_store));
            let mut l_ok = true;
            if l_sum != full_sum {
                l_ok = false;
                report(
                    ctx,
                    &format!("C16:slice-differs:{}", full_sum.diff(&l_sum)),
                    format!("accepted at level {} ({}) but the level-{} slice answers {:?} where the full store answers {:?}: {:?}", n, mode_name, n, l_sum, full_sum, texts),
                    wdetail(json!({"full": full_sum.json(), "slice": l_sum.json(), "slice_uids": l.iter().map(|u| format!("{}::{:?}", u.ty, u.id)).collect::<Vec<_>>()})),
                );
            }
            if m != l {
                let m_store = match sliced_store(&w, &m) {
                    Ok(s) => s,
                    Err(e) => {
                        ctx.harness_error(format!("could not build slice M: {e}"));
                        continue;
                    }
                };
                let m_sum = Summary::of(&auth.is_authorized(&req, &pset, &m_store));
                if m_sum != full_sum && l_ok {
                    report(
                        ctx,
                        "C16:minimal-slice-only",
                        format!("accepted at level {} ({}): slice L agrees with the full store but the records-only slice M answers {:?} instead of {:?}: {:?}", n, mode_name, m_sum, full_sum, texts),
                        wdetail(json!({"full": full_sum.json(), "slice_M": m_sum.json(), "slice_M_uids": m.iter().map(|u| format!("{}::{:?}", u.ty, u.id)).collect::<Vec<_>>()})),
                    );
                }
            }
            let beyond = (l.len() as u64) < store_size;
            if beyond {
                ctx.count(&format!("triples-with-entities-beyond-slice:n={n}"));
            }
            if has_deref && beyond {
                ctx.count(&format!("nontrivial:n={n}"));
                ctx.nontrivial(&format!("{:?}|{}|{}|{:?}", texts, mode_name, n, w));
            }
        }
    }
    ctx.sample(|| json!({"policies": texts, "mode": mode_name, "accepted_at": acc.iter().enumerate().filter(|(_, a)| **a).map(|(i, _)| i).collect::<Vec<_>>(), "schema": schema_text}));
}
