//! C18 — symbolic compilation agrees with evaluation on concrete environments.
//!
//! For a generated schema, strictly valid type-directed policies pinned to one
//! request environment and a concrete conformant world (request + store accepted
//! by the library's schema validation), compile the policies against the literal
//! `SymEnv::from_concrete_env(..)` and read every kind of assert list the crate
//! can build WITHOUT a solver:
//!   (i)   every element is a boolean literal term         (C18:not-constant:<kind>)
//!   (ii)  the hierarchy assumptions (all but the last) are `true`   (C18:assumption-false)
//!   (iii) the last element is `¬φ`; φ must be what the concrete evaluator /
//!         authorizer says about this very request and store   (C18:disagree:<kind>)
//! A compile `Err` on a strictly valid policy is C18:compile-error.
//!
//! Shape of the lists (cedar-policy-symcc/src/symccopt/verifier.rs):
//! `assumptions ++ [¬φ]`, or the single literal `false` when `¬φ` folds to false.
//! So "φ holds on this environment" <=> the last element is `false`; the list is
//! all-`true` (this environment is a counterexample) <=> φ is false here.
//!
//! Worlds.  SymCC is specified for *strongly well-formed* environments only: every
//! entity uid mentioned by the request, by an attribute/tag value, as a parent or
//! by a policy literal exists in the store (`SymEnv::concretize` adds exactly those
//! uids "to avoid incorrect short-circuiting in an incomplete entity store", and
//! the compiler compiles `e has required_attr` to `true` and `e.attr` to the UDF
//! default for an absent `e`).  The checked worlds are therefore CLOSED: C03's
//! world generator followed by a closure step that adds a conformant entity for
//! every dangling reference.  Pool uids that nobody refers to may still be absent
//! ("missing entities").  A minority of cases is run on the un-closed world too;
//! there everything is only *counted* (`open:*` keys), never reported.

use crate::bridge;
use crate::ext;
use crate::model::*;
use crate::monitors::c03::{entities_with_schema, load_schema};
use crate::monitors::common::{single_policy_outcome, PolObs};
use crate::pools;
use crate::refsem;
use crate::render::{self, TextOpts};
use crate::report::CaseCtx;
use crate::rng::{hash_str, Rng};
use crate::schema::*;
use cedar_policy::{Authorizer, Context, Decision, Entities, EntityUid, Policy, PolicyId, PolicySet, Request, RequestEnv, Schema, ValidationMode, Validator};
use cedar_policy_symcc as symcc;
use serde_json::{json, Value as J};
use std::collections::BTreeSet;
use std::str::FromStr;
use symcc::term::{Term, TermPrim};
use symcc::{CompiledPolicy, CompiledPolicySet, SymEnv};

// ===================================================================== reading assert lists

fn lit_bool(t: &Term) -> Option<bool> {
    match t {
        Term::Prim(TermPrim::Bool(b)) => Some(*b),
        _ => None,
    }
}

fn show_terms(ts: &[Term]) -> Vec<String> {
    ts.iter()
        .map(|t| {
            let s = format!("{:?}", t);
            if s.len() > 400 {
                format!("{}…", s.chars().take(400).collect::<String>())
            } else {
                s
            }
        })
        .collect()
}

/// Applies (i), (ii), (iii) to one assert list.  `phi` = what the concrete run says
/// about the verified condition on this environment.  Returns false when something was reported.
fn check_list(ctx: &mut CaseCtx, kind: &str, ts: &[Term], phi: bool, closed: bool, what: &str, detail: &dyn Fn(J) -> J) -> bool {
    let pre = if closed { "" } else { "open:" };
    ctx.count(&format!("{pre}asserts:{kind}"));
    let mut nonlit = 0u64;
    for t in ts {
        if lit_bool(t).is_none() {
            nonlit += 1;
        }
    }
    ctx.add(&format!("{pre}terms:literal"), ts.len() as u64 - nonlit);
    ctx.add(&format!("{pre}terms:non-literal"), nonlit);
    if nonlit > 0 {
        if closed {
            ctx.violation(
                &format!("C18:not-constant:{kind}"),
                format!("{kind} asserts over a literal environment contain {nonlit} non-literal term(s): {what}"),
                detail(json!({"kind": kind, "asserts": show_terms(ts)})),
            );
        }
        return false;
    }
    let bs: Vec<bool> = ts.iter().filter_map(lit_bool).collect();
    let (assumptions, last) = match bs.split_last() {
        Some((l, a)) => (a, *l),
        None => {
            // never produced by the verifier; an empty list is vacuously all-true
            ctx.count("shape:empty");
            (&bs[..], true)
        }
    };
    if bs.len() == 1 && !last {
        ctx.count(&format!("{pre}shape:single-false"));
    } else {
        ctx.count(&format!("{pre}shape:assumptions+1"));
        ctx.add(&format!("{pre}assumption_terms"), assumptions.len() as u64);
    }
    let mut ok = true;
    if assumptions.iter().any(|b| !*b) {
        ctx.count(&format!("{pre}assumption-false"));
        if closed {
            ctx.violation(
                "C18:assumption-false",
                format!("a hierarchy/well-formedness assumption of the {kind} asserts is `false` for a world the library's validation accepted: {what}"),
                detail(json!({"kind": kind, "asserts": bs})),
            );
        }
        ok = false;
    }
    // last = ¬φ
    let phi_sym = !last;
    ctx.count(&format!("{pre}verdict:{kind}:{}", if phi_sym { "holds" } else { "refuted" }));
    if phi_sym != phi {
        ctx.count(&format!("{pre}diverged:{kind}"));
        if closed {
            ctx.violation(
                &format!("C18:disagree:{kind}"),
                format!("{kind}: the asserts say the condition {} on this environment, the concrete run says it {}: {what}", if phi_sym { "holds" } else { "is refuted" }, if phi { "holds" } else { "is refuted" }),
                detail(json!({"kind": kind, "asserts": bs, "phi_concrete": phi, "phi_symbolic": phi_sym})),
            );
        }
        ok = false;
    } else {
        ctx.count(&format!("{pre}agreed"));
    }
    ok
}

// ===================================================================== running one (policies, environment)

pub struct Pols {
    /// (text, parsed) — ids p0, p1, ...
    pub list: Vec<(String, Policy)>,
    pub set1: Vec<usize>,
    pub set2: Vec<usize>,
}

fn pset_of(pols: &Pols, idx: &[usize]) -> PolicySet {
    let mut ps = PolicySet::new();
    for i in idx {
        ps.add(pols.list[*i].1.clone()).expect("harness: distinct policy ids");
    }
    ps
}

fn compile_error_is_documented_unsupported(e: &symcc::err::Error) -> bool {
    matches!(e, symcc::err::Error::CompileError(symcc::err::CompileError::UnsupportedFeature(_)))
}

/// Returns the concrete outcome of every policy (None if it could not be observed)
#[allow(clippy::too_many_arguments)]
fn run_env(
    ctx: &mut CaseCtx,
    schema: &Schema,
    req_env: &RequestEnv,
    pols: &Pols,
    req: &Request,
    ents: &Entities,
    closed: bool,
    detail: &dyn Fn(J) -> J,
    canon: &dyn Fn(usize) -> String,
) -> Vec<Option<PolObs>> {
    let pre = if closed { "" } else { "open:" };
    let mut outcomes: Vec<Option<PolObs>> = vec![None; pols.list.len()];
    let cenv = symcc::Env { request: req.clone(), entities: ents.clone() };
    let symenv = match SymEnv::from_concrete_env(req_env, schema, &cenv) {
        Ok(s) => s,
        Err(e) => {
            ctx.count(&format!("{pre}skipped:from_concrete_env_err"));
            ctx.count(&format!("{pre}skipped:from_concrete_env_err:{}", format!("{:?}", e).split(|c| c == '(' || c == ' ' || c == '{').next().unwrap_or("?")));
            if ctx.verbose {
                eprintln!("from_concrete_env: {}", bridge::err_chain(&e));
            }
            return outcomes;
        }
    };
    ctx.count(&format!("{pre}symenv_built"));
    let auth = Authorizer::new();

    // ---- single policies
    let mut compiled: Vec<Option<CompiledPolicy>> = vec![];
    for (i, (text, p)) in pols.list.iter().enumerate() {
        let cp = match CompiledPolicy::compile_with_custom_symenv(p, req_env, schema, symenv.clone()) {
            Ok(c) => c,
            Err(e) => {
                if compile_error_is_documented_unsupported(&e) {
                    ctx.count(&format!("{pre}compile:unsupported"));
                } else {
                    ctx.count(&format!("{pre}compile:error"));
                    if closed {
                        ctx.violation("C18:compile-error", format!("strictly valid policy does not compile against the literal environment: {} :: {}", text, bridge::err_chain(&e)), detail(json!({"policy": text, "error": bridge::err_chain(&e), "error_debug": format!("{:?}", e)})));
                    }
                }
                compiled.push(None);
                continue;
            }
        };
        ctx.count(&format!("{pre}compile:ok"));
        if closed {
            ctx.nontrivial(&canon(i));
        }
        // concrete run of this policy alone
        let mut ps = PolicySet::new();
        ps.add(p.clone()).expect("add");
        let resp = auth.is_authorized(req, &ps, ents);
        let obs = match single_policy_outcome(&resp, p.id()) {
            Ok(o) => o,
            Err(e) => {
                ctx.harness_error(format!("cannot observe the single-policy outcome: {e}"));
                compiled.push(None);
                continue;
            }
        };
        let (errs, sat) = (matches!(obs, PolObs::Error(_)), matches!(obs, PolObs::Satisfied));
        match &obs {
            PolObs::Satisfied => ctx.count(&format!("{pre}outcome:satisfied")),
            PolObs::NotSatisfied => ctx.count(&format!("{pre}outcome:not-satisfied")),
            PolObs::Error(c) => ctx.count(&format!("{pre}outcome:error:{}", refsem::class_name(*c))),
        }
        let what = format!("`{}` is {:?}", text, obs);
        let d = |x: J| {
            let mut d = detail(x);
            d["policy"] = json!(text);
            d["concrete_outcome"] = json!(format!("{:?}", obs));
            d
        };
        check_list(ctx, "never_errors", symcc::never_errors_asserts(&cp).asserts(), !errs, closed, &what, &d);
        check_list(ctx, "always_matches", symcc::always_matches_asserts(&cp).asserts(), sat, closed, &what, &d);
        check_list(ctx, "never_matches", symcc::never_matches_asserts(&cp).asserts(), !sat, closed, &what, &d);
        // the singleton policy set derived from the compiled policy
        let allow = resp.decision() == Decision::Allow;
        let cps = cp.clone().into_compiled_policyset();
        check_list(ctx, "always_allows(singleton)", symcc::always_allows_asserts(&cps).asserts(), allow, closed, &what, &d);
        check_list(ctx, "always_denies(singleton)", symcc::always_denies_asserts(&cps).asserts(), !allow, closed, &what, &d);
        outcomes[i] = Some(obs);
        compiled.push(Some(cp));
    }

    // ---- pairs of single policies (matches-* conditions)
    if pols.list.len() >= 2 {
        let (i, j) = (0usize, pols.list.len() - 1);
        if let (Some(c1), Some(c2), Some(o1), Some(o2)) = (&compiled[i], &compiled[j], &outcomes[i], &outcomes[j]) {
            let (s1, s2) = (matches!(o1, PolObs::Satisfied), matches!(o2, PolObs::Satisfied));
            let what = format!("`{}` is {:?}; `{}` is {:?}", pols.list[i].0, o1, pols.list[j].0, o2);
            let d = |x: J| {
                let mut d = detail(x);
                d["policy1"] = json!(pols.list[i].0);
                d["policy2"] = json!(pols.list[j].0);
                d
            };
            check_list(ctx, "matches_equivalent", symcc::matches_equivalent_asserts(c1, c2).asserts(), s1 == s2, closed, &what, &d);
            check_list(ctx, "matches_implies", symcc::matches_implies_asserts(c1, c2).asserts(), !s1 || s2, closed, &what, &d);
            check_list(ctx, "matches_disjoint", symcc::matches_disjoint_asserts(c1, c2).asserts(), !(s1 && s2), closed, &what, &d);
            ctx.count(&format!("{pre}policy_pair_comparisons"));
        }
    }

    // ---- the two policy sets
    let (ps1, ps2) = (pset_of(pols, &pols.set1), pset_of(pols, &pols.set2));
    let texts = |idx: &[usize]| idx.iter().map(|i| pols.list[*i].0.clone()).collect::<Vec<_>>();
    let compile_set = |ctx: &mut CaseCtx, ps: &PolicySet, idx: &[usize]| match CompiledPolicySet::compile_with_custom_symenv(ps, req_env, schema, symenv.clone()) {
        Ok(c) => {
            ctx.count(&format!("{pre}compile_set:ok"));
            Some(c)
        }
        Err(e) => {
            if compile_error_is_documented_unsupported(&e) {
                ctx.count(&format!("{pre}compile_set:unsupported"));
            } else {
                ctx.count(&format!("{pre}compile_set:error"));
                if closed {
                    ctx.violation("C18:compile-error", format!("policy set of strictly valid policies does not compile against the literal environment: {:?} :: {}", texts(idx), bridge::err_chain(&e)), detail(json!({"policies": texts(idx), "error": bridge::err_chain(&e), "error_debug": format!("{:?}", e)})));
                }
            }
            None
        }
    };
    let c1 = compile_set(ctx, &ps1, &pols.set1);
    let c2 = compile_set(ctx, &ps2, &pols.set2);
    if let (Some(c1), Some(c2)) = (c1, c2) {
        let r1 = auth.is_authorized(req, &ps1, ents);
        let r2 = auth.is_authorized(req, &ps2, ents);
        let (a1, a2) = (r1.decision() == Decision::Allow, r2.decision() == Decision::Allow);
        ctx.count(&format!("{pre}decisions:{}/{}", if a1 { "allow" } else { "deny" }, if a2 { "allow" } else { "deny" }));
        ctx.count(&format!("{pre}set_sizes:{}/{}", pols.set1.len(), pols.set2.len()));
        if r1.diagnostics().errors().count() + r2.diagnostics().errors().count() > 0 {
            ctx.count(&format!("{pre}pset_with_erroring_policy"));
        }
        let what = format!("set1 {:?} decides {:?}; set2 {:?} decides {:?}", texts(&pols.set1), r1.decision(), texts(&pols.set2), r2.decision());
        let d = |x: J| {
            let mut d = detail(x);
            d["set1"] = json!(texts(&pols.set1));
            d["set2"] = json!(texts(&pols.set2));
            d["decision1"] = json!(format!("{:?}", r1.decision()));
            d["decision2"] = json!(format!("{:?}", r2.decision()));
            d
        };
        check_list(ctx, "always_allows", symcc::always_allows_asserts(&c1).asserts(), a1, closed, &what, &d);
        check_list(ctx, "always_denies", symcc::always_denies_asserts(&c1).asserts(), !a1, closed, &what, &d);
        check_list(ctx, "always_allows", symcc::always_allows_asserts(&c2).asserts(), a2, closed, &what, &d);
        check_list(ctx, "always_denies", symcc::always_denies_asserts(&c2).asserts(), !a2, closed, &what, &d);
        check_list(ctx, "implies", symcc::implies_asserts(&c1, &c2).asserts(), !a1 || a2, closed, &what, &d);
        check_list(ctx, "implies", symcc::implies_asserts(&c2, &c1).asserts(), !a2 || a1, closed, &what, &d);
        check_list(ctx, "equivalent", symcc::equivalent_asserts(&c1, &c2).asserts(), a1 == a2, closed, &what, &d);
        check_list(ctx, "disjoint", symcc::disjoint_asserts(&c1, &c2).asserts(), !(a1 && a2), closed, &what, &d);
        ctx.count(&format!("{pre}policy_set_comparisons"));
    }
    outcomes
}

// ===================================================================== hand-written family (case 0)

const HAND_SCHEMA: &str = r#"
entity Group in [Group];
entity User in [Group] = { age: Long, nick?: String, ip: ipaddr, born: datetime, manager?: User } tags String;
entity Doc in [Group] = { owner: User, size: Long, price: decimal, ttl: duration, labels: Set<String>, meta: { pub: Bool, n?: Long } };
action grp;
action view in [grp] appliesTo { principal: [User], resource: [Doc], context: { mfa: Bool, when: datetime, n?: Long, lim: duration } };
"#;

#[derive(Clone, Copy, PartialEq, Eq, Debug)]
enum Exp {
    Sat,
    Not,
    Err,
}

const HAND: [(&str, Exp); 24] = [
    ("permit(principal, action, resource);", Exp::Sat),
    ("permit(principal, action, resource) when { principal.age > 18 };", Exp::Sat),
    ("permit(principal, action, resource) when { principal.age + resource.size > 0 };", Exp::Err),
    ("permit(principal, action, resource) when { resource.size - principal.age > 0 };", Exp::Sat),
    ("permit(principal, action, resource) when { principal has nick && principal.nick like \"a*\" };", Exp::Sat),
    ("permit(principal, action, resource) when { context has n && context.n > 0 };", Exp::Not),
    ("permit(principal, action, resource) when { principal in Group::\"g2\" };", Exp::Sat),
    ("permit(principal, action, resource) when { resource in Group::\"g1\" };", Exp::Not),
    ("permit(principal, action, resource) when { resource in [Group::\"g1\", Group::\"g2\"] };", Exp::Sat),
    ("permit(principal, action, resource) when { principal.hasTag(\"k\") && principal.getTag(\"k\") == \"v\" };", Exp::Sat),
    ("permit(principal, action, resource) when { principal.hasTag(\"zz\") };", Exp::Not),
    ("permit(principal, action, resource) when { context.when.offset(resource.ttl) > context.when };", Exp::Err),
    ("permit(principal, action, resource) when { context.when.offset(context.lim) > context.when };", Exp::Sat),
    ("permit(principal, action, resource) when { resource.price.greaterThan(decimal(\"1.0\")) };", Exp::Sat),
    ("permit(principal, action, resource) when { principal.ip.isInRange(ip(\"10.0.0.0/8\")) && !principal.ip.isLoopback() };", Exp::Sat),
    ("permit(principal, action, resource) when { principal has manager && principal.manager.age == 9223372036854775807 };", Exp::Sat),
    ("permit(principal, action, resource) when { resource.labels.contains(\"a\") && resource.meta.pub && !(resource.meta has n) };", Exp::Sat),
    ("permit(principal is User, action == Action::\"view\", resource is Doc in Group::\"g2\");", Exp::Sat),
    ("forbid(principal, action, resource) when { principal has manager && -(principal.manager.age) - 2 < 0 };", Exp::Err),
    ("permit(principal, action, resource) when { context.when.durationSince(principal.born).toDays() > 8000 };", Exp::Sat),
    ("permit(principal, action, resource) when { context.when.toDate() == datetime(\"2024-02-29\") && context.when.toTime() == duration(\"12h\") };", Exp::Sat),
    ("forbid(principal, action, resource) unless { context.mfa };", Exp::Not),
    ("permit(principal, action in Action::\"grp\", resource) when { resource.owner == principal && resource.owner.age * 2 == 60 };", Exp::Sat),
    ("permit(principal, action, resource) when { if principal.age < 0 then principal.age * 9223372036854775807 > 0 else resource.ttl.toMilliseconds() == 9223372036854775807 };", Exp::Sat),
];

fn hand_family(ctx: &mut CaseCtx) {
    let schema = match Schema::from_cedarschema_str(HAND_SCHEMA) {
        Ok((s, _)) => s,
        Err(e) => return ctx.harness_error(format!("hand schema: {e}")),
    };
    let ents_json = json!([
        {"uid": {"type": "Group", "id": "g2"}, "attrs": {}, "parents": []},
        {"uid": {"type": "Group", "id": "g1"}, "attrs": {}, "parents": [{"type": "Group", "id": "g2"}]},
        {"uid": {"type": "User", "id": "alice"}, "attrs": {"age": 30, "nick": "al", "ip": "10.1.2.3", "born": "2000-01-01", "manager": {"__entity": {"type": "User", "id": "bob"}}}, "parents": [{"type": "Group", "id": "g1"}], "tags": {"k": "v"}},
        {"uid": {"type": "User", "id": "bob"}, "attrs": {"age": 9223372036854775807i64, "ip": "::1", "born": "1969-12-31T23:59:59.999Z"}, "parents": []},
        {"uid": {"type": "Doc", "id": "d"}, "attrs": {"owner": {"__entity": {"type": "User", "id": "alice"}}, "size": 9223372036854775807i64, "price": "922337203685477.5807", "ttl": "9223372036854775807ms", "labels": ["a", "b"], "meta": {"pub": true}}, "parents": [{"type": "Group", "id": "g2"}]},
    ]);
    let ents = match Entities::from_json_value(ents_json.clone(), Some(&schema)) {
        Ok(e) => e,
        Err(e) => return ctx.harness_error(format!("hand entities: {}", bridge::err_chain(&e))),
    };
    let action = EntityUid::from_str("Action::\"view\"").expect("uid");
    let cjson = json!({"mfa": true, "when": "2024-02-29T12:00:00Z", "lim": "1d"});
    let context = match Context::from_json_value(cjson.clone(), Some((&schema, &action))) {
        Ok(c) => c,
        Err(e) => return ctx.harness_error(format!("hand context: {}", bridge::err_chain(&e))),
    };
    let req = match Request::new(EntityUid::from_str("User::\"alice\"").expect("uid"), action.clone(), EntityUid::from_str("Doc::\"d\"").expect("uid"), context, Some(&schema)) {
        Ok(r) => r,
        Err(e) => return ctx.harness_error(format!("hand request: {}", bridge::err_chain(&e))),
    };
    let req_env = RequestEnv::new("User".parse().expect("ty"), action, "Doc".parse().expect("ty"));
    let validator = Validator::new(schema.clone());
    let mut list = vec![];
    for (i, (text, _)) in HAND.iter().enumerate() {
        let p = match Policy::parse(Some(PolicyId::new(format!("p{i}"))), *text) {
            Ok(p) => p,
            Err(e) => return ctx.harness_error(format!("hand policy {text}: {e}")),
        };
        let mut ps = PolicySet::new();
        ps.add(p.clone()).expect("add");
        let r = validator.validate(&ps, ValidationMode::Strict);
        if !r.validation_passed() {
            return ctx.harness_error(format!("hand policy not strictly valid: {text}: {:?}", r.validation_errors().map(|e| e.to_string()).collect::<Vec<_>>()));
        }
        list.push((text.to_string(), p));
    }
    let n = list.len();
    // a few set pairings, each run as its own (policies, env)
    let pairings: [(Vec<usize>, Vec<usize>); 4] = [((0..n).collect(), vec![0]), (vec![0, 21], vec![1, 18]), (vec![], vec![7]), (vec![2, 5], vec![6, 10, 11])];
    for (k, (s1, s2)) in pairings.iter().enumerate() {
        let pols = Pols { list: if k == 0 { list.clone() } else { list.clone() }, set1: s1.clone(), set2: s2.clone() };
        let detail = |x: J| json!({"family": "hand", "schema": HAND_SCHEMA, "entities": ents_json, "context": cjson, "principal": "User::\"alice\"", "resource": "Doc::\"d\"", "extra": x});
        let canon = |i: usize| format!("hand|{i}");
        let outcomes = run_env(ctx, &schema, &req_env, &pols, &req, &ents, true, &detail, &canon);
        if k == 0 {
            for (i, o) in outcomes.iter().enumerate() {
                let exp = HAND[i].1;
                let got = match o {
                    Some(PolObs::Satisfied) => Exp::Sat,
                    Some(PolObs::NotSatisfied) => Exp::Not,
                    Some(PolObs::Error(_)) => Exp::Err,
                    None => continue, // already reported
                };
                if got != exp {
                    ctx.harness_error(format!("hand case `{}`: concrete outcome {:?}, the harness expected {:?}", HAND[i].0, got, exp));
                }
            }
            ctx.count("hand_family_runs");
        }
    }
}

// ===================================================================== generated workload

fn expr_uids<'a>(e: &'a GExpr, out: &mut BTreeSet<Uid>) {
    if let GExpr::Ent(u) = e {
        out.insert(u.clone());
    }
    let mut kids: Vec<&'a GExpr> = vec![];
    e.for_children(|c| kids.push(c));
    for k in kids {
        expr_uids(k, out);
    }
}

fn policy_uids(p: &GPolicy, out: &mut BTreeSet<Uid>) {
    for sc in [&p.principal, &p.resource] {
        match sc {
            ScopePR::Eq(EntOrSlot::Ent(u)) | ScopePR::In(EntOrSlot::Ent(u)) | ScopePR::IsIn(_, EntOrSlot::Ent(u)) => {
                out.insert(u.clone());
            }
            _ => {}
        }
    }
    for (_, c) in &p.conds {
        expr_uids(c, out);
    }
}

fn count_features(ctx: &mut CaseCtx, e: &GExpr) {
    ctx.count(&format!("feat:{}", e.node_name()));
    let mut kids: Vec<&GExpr> = vec![];
    e.for_children(|c| kids.push(c));
    for k in kids {
        count_features(ctx, k);
    }
}

/// every uid referenced by the request, a value, a parent edge or a policy literal that has no record
fn dangling(gs: &GSchema, w: &GWorld, lits: &BTreeSet<Uid>) -> Vec<Uid> {
    let mut refs = lits.clone();
    refs.insert(w.principal.clone());
    refs.insert(w.resource.clone());
    for v in w.context.values() {
        v.uids(&mut refs);
    }
    for e in w.entities.values() {
        refs.extend(e.parents.iter().cloned());
        for v in e.attrs.values().chain(e.tags.values()) {
            v.uids(&mut refs);
        }
    }
    refs.into_iter().filter(|u| !w.entities.contains_key(u) && gs.entity_type(&u.ty).is_some()).collect()
}

/// add a conformant entity for every dangling reference until none is left
fn close_world(rng: &mut Rng, wg: &WorldGen, gs: &GSchema, w: &mut GWorld, lits: &BTreeSet<Uid>) -> u64 {
    let mut added = 0;
    for _ in 0..64 {
        let missing = dangling(gs, w, lits);
        if missing.is_empty() {
            break;
        }
        for u in missing {
            let et = match gs.entity_type(&u.ty) {
                Some(e) => e,
                None => continue,
            };
            let mut e = GEntity::default();
            if et.enum_ids.is_none() {
                e.attrs = wg.record_of(rng, &et.attrs, 3);
                if let Some(tt) = &et.tags {
                    for _ in 0..rng.below(3) {
                        e.tags.insert(rng.pick(&["k", "t", ""]).to_string(), wg.value_of_type(rng, tt, 2));
                    }
                }
            }
            w.entities.insert(u, e);
            added += 1;
        }
    }
    added
}

fn valid_strs(pool: &[&'static str], ok: impl Fn(&str) -> bool) -> Vec<&'static str> {
    pool.iter().copied().filter(|s| ok(s)).collect()
}

/// boundary-focused conditions on top of the type-directed generator: extension
/// values at their limits, offsets / differences that overflow, conversions,
/// i64 arithmetic at the boundary.
fn boundary_cond(g: &mut TypedGen) -> GExpr {
    let mut guards: Vec<GExpr> = vec![];
    let dt_lits = valid_strs(&pools::DATETIME_STRS, |s| ext::parse_datetime(s).is_some());
    let du_lits = valid_strs(&pools::DURATION_STRS, |s| ext::parse_duration(s).is_some());
    let de_lits = valid_strs(&pools::DECIMAL_STRS, |s| ext::parse_decimal(s).is_some());
    let ip_lits = valid_strs(&pools::IP_STRS, |s| ext::parse_ip(s).is_some());
    let dt = |g: &mut TypedGen, guards: &mut Vec<GExpr>| {
        if g.rng.chance(1, 3) {
            g.of_type(&GType::Ext("datetime".into()), 1, guards)
        } else {
            GExpr::call("datetime", vec![GExpr::Str(g.rng.pick(&dt_lits).to_string())])
        }
    };
    let du = |g: &mut TypedGen, guards: &mut Vec<GExpr>| {
        if g.rng.chance(1, 3) {
            g.of_type(&GType::Ext("duration".into()), 1, guards)
        } else {
            GExpr::call("duration", vec![GExpr::Str(g.rng.pick(&du_lits).to_string())])
        }
    };
    let lng = |g: &mut TypedGen, guards: &mut Vec<GExpr>| {
        if g.rng.chance(1, 3) {
            g.of_type(&GType::Long, 1, guards)
        } else {
            GExpr::Long(*g.rng.pick(&pools::LONGS))
        }
    };
    let cmp = |g: &mut TypedGen| *g.rng.pick(&[BinOp::Lt, BinOp::Le, BinOp::Gt, BinOp::Ge, BinOp::Eq, BinOp::Neq]);
    let body = match g.rng.below(12) {
        0 => {
            // datetime.offset(duration) compared
            let a = dt(g, &mut guards);
            let d = du(g, &mut guards);
            let b = dt(g, &mut guards);
            GExpr::bin(cmp(g), GExpr::call("offset", vec![a, d]), b)
        }
        1 => {
            let a = dt(g, &mut guards);
            let b = dt(g, &mut guards);
            let d = du(g, &mut guards);
            GExpr::bin(cmp(g), GExpr::call("durationSince", vec![a, b]), d)
        }
        2 => {
            let d = du(g, &mut guards);
            let f = *g.rng.pick(&["toMilliseconds", "toSeconds", "toMinutes", "toHours", "toDays"]);
            let l = lng(g, &mut guards);
            GExpr::bin(cmp(g), GExpr::call(f, vec![d]), l)
        }
        3 => {
            let a = dt(g, &mut guards);
            let b = dt(g, &mut guards);
            GExpr::bin(cmp(g), GExpr::call("toDate", vec![a]), b)
        }
        4 => {
            let a = dt(g, &mut guards);
            let d = du(g, &mut guards);
            GExpr::bin(cmp(g), GExpr::call("toTime", vec![a]), d)
        }
        5 => {
            let a = g.of_type(&GType::Ext("decimal".into()), 1, &mut guards);
            let b = GExpr::call("decimal", vec![GExpr::Str(g.rng.pick(&de_lits).to_string())]);
            let f = *g.rng.pick(&["lessThan", "lessThanOrEqual", "greaterThan", "greaterThanOrEqual"]);
            if g.rng.bool() {
                GExpr::call(f, vec![a, b])
            } else {
                GExpr::call(f, vec![b, a])
            }
        }
        6 => {
            let a = if g.rng.bool() { g.of_type(&GType::Ext("ipaddr".into()), 1, &mut guards) } else { GExpr::call("ip", vec![GExpr::Str(g.rng.pick(&ip_lits).to_string())]) };
            let b = GExpr::call("ip", vec![GExpr::Str(g.rng.pick(&ip_lits).to_string())]);
            match g.rng.below(3) {
                0 => GExpr::call("isInRange", vec![a, b]),
                1 => GExpr::eq(a, b),
                _ => GExpr::call(*g.rng.pick(&["isIpv4", "isIpv6", "isLoopback", "isMulticast"]), vec![a]),
            }
        }
        7 | 8 => {
            // i64 arithmetic at the boundary
            let a = lng(g, &mut guards);
            let b = lng(g, &mut guards);
            let c = lng(g, &mut guards);
            let lhs = match g.rng.below(5) {
                0 => GExpr::bin(BinOp::Add, a, b),
                1 => GExpr::bin(BinOp::Sub, a, b),
                2 => GExpr::bin(BinOp::Mul, a, GExpr::Long(*g.rng.pick(&[-1i64, 0, 1, 2, -2, 3037000500, i64::MIN, i64::MAX]))),
                3 => GExpr::Neg(a.b()),
                _ => GExpr::bin(BinOp::Sub, GExpr::Neg(a.b()), b),
            };
            GExpr::bin(cmp(g), lhs, c)
        }
        9 => {
            // a difference of durations turned into a number, then arithmetic on it
            let a = dt(g, &mut guards);
            let b = dt(g, &mut guards);
            let l = lng(g, &mut guards);
            GExpr::bin(cmp(g), GExpr::bin(BinOp::Add, GExpr::call("toMilliseconds", vec![GExpr::call("durationSince", vec![a, b])]), l), GExpr::Long(0))
        }
        10 => {
            let s = g.of_type(&GType::Str, 1, &mut guards);
            GExpr::Like(s.b(), pools::pattern(g.rng))
        }
        _ => {
            // error on one side of a short-circuit
            let a = lng(g, &mut guards);
            let boom = GExpr::bin(BinOp::Gt, GExpr::bin(BinOp::Add, a, GExpr::Long(i64::MAX)), GExpr::Long(0));
            let c = g.bool_expr(1);
            match g.rng.below(4) {
                0 => GExpr::and(c, boom),
                1 => GExpr::or(c, boom),
                2 => GExpr::ite(c, boom, GExpr::Bool(g.rng.bool())),
                _ => GExpr::and(boom, c),
            }
        }
    };
    // guards to the left of everything that needs them
    let mut e = body;
    for gd in guards.into_iter().rev() {
        e = GExpr::and(gd, e);
    }
    e
}

pub fn case(ctx: &mut CaseCtx) {
    if ctx.idx == 0 {
        hand_family(ctx);
        return;
    }
    let gs = gen_schema(&mut ctx.rng, &SchemaOpts::default());
    let schema = match load_schema(ctx, &gs) {
        Some(s) => s,
        None => return,
    };
    let envs = gs.envs();
    if envs.is_empty() {
        ctx.count("no_envs");
        return;
    }
    let env = ctx.rng.pick_clone(&envs);
    let wg = WorldGen::new(&mut ctx.rng, &gs);
    let st = PrintStyle { unqualified: false, loose_json: false };

    // ---- policies: type-directed, fault-free, pinned to `env` by their scope
    let n_pol = 1 + ctx.rng.below(4);
    let validator = Validator::new(schema.clone());
    let mut gpols: Vec<GPolicy> = vec![];
    let mut list: Vec<(String, Policy)> = vec![];
    for _ in 0..n_pol {
        let depth = 1 + ctx.rng.below(3);
        let pol = {
            let mut g = TypedGen::new(&mut ctx.rng, &gs, &env, &wg.pools);
            let mut p = typed_policy(&mut g, depth);
            // let the body decide more often than the scope does
            if g.rng.bool() {
                if !matches!(p.principal, ScopePR::Is(_)) {
                    p.principal = ScopePR::Is(env.principal_ty.clone());
                }
                if !matches!(p.resource, ScopePR::Is(_)) {
                    p.resource = ScopePR::Is(env.resource_ty.clone());
                }
            }
            if g.rng.chance(1, 2) {
                let c = (g.rng.chance(4, 5), boundary_cond(&mut g));
                match g.rng.below(3) {
                    0 => p.conds = vec![c],
                    1 => p.conds.insert(0, c),
                    _ => p.conds.push(c),
                }
            }
            if g.faults > 0 {
                // (a record type that no expression can produce exactly) — outside the valid family
                None
            } else {
                Some(p)
            }
        };
        let pol = match pol {
            Some(p) => p,
            None => {
                ctx.count("policy:outside-valid-family");
                continue;
            }
        };
        let text = render::policy_text(&pol, &mut TextOpts::plain(&mut ctx.rng));
        let id = format!("p{}", list.len());
        let policy = match Policy::parse(Some(PolicyId::new(&id)), &text) {
            Ok(p) => p,
            Err(e) => {
                ctx.harness_error(format!("typed policy does not parse: {text}: {e}"));
                continue;
            }
        };
        let mut ps = PolicySet::new();
        ps.add(policy.clone()).expect("add");
        let r = validator.validate(&ps, ValidationMode::Strict);
        if !r.validation_passed() {
            ctx.count("policy:strict-rejected");
            if ctx.verbose {
                eprintln!("rejected: {text}: {:?}", r.validation_errors().map(|e| e.to_string()).collect::<Vec<_>>());
            }
            continue;
        }
        ctx.count("policy:strict-accepted");
        ctx.count(if pol.effect == Effect::Permit { "policy:permit" } else { "policy:forbid" });
        for (_, c) in &pol.conds {
            count_features(ctx, c);
        }
        gpols.push(pol);
        list.push((text, policy));
    }
    if list.is_empty() {
        ctx.count("no_valid_policy");
        return;
    }
    // two small policy sets over the same policies (possibly overlapping, possibly empty)
    let n = list.len();
    let subset = |rng: &mut Rng| -> Vec<usize> {
        if rng.chance(1, 12) {
            return vec![];
        }
        let mut v: Vec<usize> = (0..n).filter(|_| rng.chance(3, 5)).collect();
        if v.is_empty() {
            v.push(rng.below(n));
        }
        v
    };
    let set1 = subset(&mut ctx.rng);
    let set2 = subset(&mut ctx.rng);
    let pols = Pols { list, set1, set2 };
    let mut lits = BTreeSet::new();
    for p in &gpols {
        policy_uids(p, &mut lits);
    }

    let req_env = RequestEnv::new(bridge::type_name(&env.principal_ty), bridge::uid(&env.action), bridge::type_name(&env.resource_ty));
    let schema_text = gs.to_cedar(&st);
    let gs_hash = hash_str(&format!("{:?}|{:?}", gs, env));

    let n_worlds = if ctx.thorough() { 6 } else { 3 };
    for _ in 0..n_worlds {
        let mut w = wg.world(&mut ctx.rng, &env);
        let open = ctx.rng.chance(3, 20);
        let n_dangling = dangling(&gs, &w, &lits).len() as u64;
        if open {
            ctx.count("world:open");
            if n_dangling == 0 {
                ctx.count("world:open-but-closed-anyway");
            }
        } else {
            let added = close_world(&mut ctx.rng, &wg, &gs, &mut w, &lits);
            ctx.count("world:closed");
            ctx.add("closure_added_entities", added);
            if !dangling(&gs, &w, &lits).is_empty() {
                ctx.harness_error("closure did not terminate".into());
                continue;
            }
            // "missing entities": pool uids with no record (nobody refers to them)
            let absent = wg.pools.values().flatten().filter(|u| !w.entities.contains_key(u)).count() as u64;
            ctx.add("closed_world_absent_pool_entities", absent);
        }
        let closed = !open || n_dangling == 0;
        let req = match bridge::request(&w, Some(&schema)) {
            Ok(r) => r,
            Err(e) => {
                ctx.count("world_rejected:request");
                if ctx.verbose {
                    eprintln!("request rejected: {e}");
                }
                continue;
            }
        };
        let ents = match entities_with_schema(&w, &gs, &schema) {
            Ok(e) => e,
            Err(e) => {
                ctx.count("world_rejected:entities");
                if ctx.verbose {
                    eprintln!("entities rejected: {e}");
                }
                continue;
            }
        };
        ctx.count("world:accepted");
        ctx.max("entities_in_world", w.entities.len() as u64);
        let has_chain = w.entities.iter().any(|(u, e)| !e.parents.is_empty() && w.ancestors(u).len() > e.parents.len());
        if has_chain {
            ctx.count("world:with-transitive-ancestors");
        }
        if w.entities.values().any(|e| !e.tags.is_empty()) {
            ctx.count("world:with-tags");
        }
        let detail = |x: J| {
            json!({
                "schema": schema_text,
                "env": format!("{}/{:?}/{}", env.principal_ty, env.action, env.resource_ty),
                "principal": format!("{:?}", w.principal),
                "resource": format!("{:?}", w.resource),
                "context": render::context_json(&w),
                "entities": render::entities_json(&w),
                "closed_world": closed,
                "extra": x,
            })
        };
        let canon = |i: usize| format!("{:x}|{:?}|{:?}", gs_hash, gpols[i], w);
        run_env(ctx, &schema, &req_env, &pols, &req, &ents, closed, &detail, &canon);
    }
    ctx.sample(|| json!({"schema": schema_text, "policies": pols.list.iter().map(|(t, _)| t.clone()).collect::<Vec<_>>(), "set1": pols.set1, "set2": pols.set2, "env": format!("{}/{:?}/{}", env.principal_ty, env.action, env.resource_ty)}));
}
