//! C08 — template linking = substitution; policy-set edits keep ids consistent.
//!
//! Part (a), "link focus": one random template (slots in `==`, `in`, `is .. in`
//! scope positions, random conditions, annotations) is linked with every kind of
//! binding (exact / missing / extra / wrong slot).  `link` must succeed iff exactly
//! the template's slots are bound; a successful link must have the template's
//! effect and annotations and must answer every probe request like (i) the static
//! policy obtained by textual substitution (`GPolicy::substitute`, rendered and
//! parsed), (ii) the reference model (`refsem::policy_outcome` with `Slots`) and
//! (iii) the static policy read back from the link's own JSON rendering.
//!
//! Part (b), "name model": two policy sets are driven through a history of 1–25
//! `add / add_template / link / unlink / remove_static / remove_template / merge`
//! operations with ids from a pool of 5 and contents from a small per-case pool
//! (so id collisions with equal and with different contents are the norm).  After
//! every operation: success/failure per the documented rules, full observable
//! state vs. the name model, "a failed operation changes nothing" (snapshot
//! before == snapshot after, order ignored), public view vs. the doc-hidden
//! `AsRef<ast::PolicySet>` view, structural invariants (no id shared between a
//! template and a policy, no link without its template, link sets consistent),
//! and `is_authorized` vs. `refsem::authorize_model` over the model's statics and
//! substituted links.  `merge` is modelled up to the choice of fresh names.

use super::common::*;
use crate::bridge;
use crate::gen::{self, ExprGen};
use crate::model::*;
use crate::pools;
use crate::refsem::{self, Outcome, Slots};
use crate::render::{self, TextOpts};
use crate::report::CaseCtx;
use crate::rng::Rng;
use cedar_policy::{
    ActionConstraint, Authorizer, Decision, Entities, EntityUid, Policy, PolicyId, PolicySet, PrincipalConstraint, Request,
    ResourceConstraint, SlotId, Template, TemplatePrincipalConstraint, TemplateResourceConstraint,
};
use cedar_policy_core::ast;
use serde_json::{json, Value as J};
use std::collections::{BTreeMap, BTreeSet, HashMap};

/// the id pool: collisions are the norm; `policy0`/`policy1` are also the first
/// fresh names `merge` would like to hand out
const IDS: [&str; 5] = ["policy0", "policy1", "t", "a b", ""];
const ANNOT_KEYS: [&str; 6] = ["a", "id", "if", "in", "permit", "principal"];

// ------------------------------------------------------------------ environment

struct Env {
    w0: GWorld,
    uids: Vec<Uid>,
    actions: Vec<Uid>,
    types: Vec<String>,
    ents: Entities,
    probes: Vec<(GWorld, Request)>,
}

fn make_env(ctx: &mut CaseCtx) -> Option<Env> {
    let mut w0 = gen::world(&mut ctx.rng);
    let mut actions = vec![w0.action.clone()];
    for a in [Uid::new("Action", "view"), Uid::new("Action", "edit"), Uid::new("N::Action", "a")] {
        if !actions.contains(&a) {
            actions.push(a);
        }
    }
    // a small action hierarchy so that `action in ..` is not always an equality
    let grp = Uid::new("Action", "all");
    for a in actions.clone() {
        if ctx.rng.chance(1, 2) {
            w0.entities.entry(a).or_default().parents.insert(grp.clone());
        }
    }
    actions.push(grp);
    let mut us: BTreeSet<Uid> = BTreeSet::new();
    for (u, e) in &w0.entities {
        if !u.ty.ends_with("Action") {
            us.insert(u.clone());
        }
        for p in &e.parents {
            if !p.ty.ends_with("Action") {
                us.insert(p.clone());
            }
        }
    }
    us.insert(w0.principal.clone());
    us.insert(w0.resource.clone());
    let uids: Vec<Uid> = us.into_iter().collect();
    let mut types: Vec<String> = uids.iter().map(|u| u.ty.clone()).collect();
    types.sort();
    types.dedup();
    let ents = match bridge::entities(&w0, None) {
        Ok(e) => e,
        Err(e) => {
            ctx.harness_error(format!("entities: {e}"));
            return None;
        }
    };
    let mut probes = vec![];
    let n = 4 + ctx.rng.below(3);
    for i in 0..n {
        let mut w = w0.clone();
        if i > 0 {
            w.principal = if ctx.rng.chance(1, 8) { pools::uid(&mut ctx.rng) } else { ctx.rng.pick_clone(&uids) };
            w.resource = if ctx.rng.chance(1, 8) { pools::uid(&mut ctx.rng) } else { ctx.rng.pick_clone(&uids) };
            w.action = ctx.rng.pick_clone(&actions);
        }
        match bridge::request(&w, None) {
            Ok(r) => probes.push((w, r)),
            Err(e) => {
                ctx.harness_error(format!("request: {e}"));
                return None;
            }
        }
    }
    Some(Env { w0, uids, actions, types, ents, probes })
}

/// a probe request under which the scope of `p` (already substituted) holds, when that is possible
fn targeted_probe(rng: &mut Rng, env: &Env, p: &GPolicy) -> Option<(GWorld, Request)> {
    let mut w = env.w0.clone();
    let pick = |sc: &ScopePR, rng: &mut Rng| -> Uid {
        match sc {
            ScopePR::Eq(EntOrSlot::Ent(u)) | ScopePR::In(EntOrSlot::Ent(u)) | ScopePR::IsIn(_, EntOrSlot::Ent(u)) => u.clone(),
            ScopePR::Is(t) => env.uids.iter().find(|u| &u.ty == t).cloned().unwrap_or_else(|| Uid::new(t, "a")),
            _ => rng.pick_clone(&env.uids),
        }
    };
    w.principal = pick(&p.principal, rng);
    w.resource = pick(&p.resource, rng);
    w.action = match &p.action {
        ScopeA::Eq(u) | ScopeA::In(u) => u.clone(),
        ScopeA::InList(us) if !us.is_empty() => rng.pick_clone(us),
        _ => rng.pick_clone(&env.actions),
    };
    bridge::request(&w, None).ok().map(|r| (w, r))
}

// ------------------------------------------------------------------ policy generators

fn gen_scope(rng: &mut Rng, env: &Env, slot: bool) -> ScopePR {
    let ty = if rng.chance(1, 8) { rng.pick(&pools::ENTITY_TYPES).to_string() } else { rng.pick_clone(&env.types) };
    if slot {
        match rng.below(3) {
            0 => ScopePR::Eq(EntOrSlot::Slot),
            1 => ScopePR::In(EntOrSlot::Slot),
            _ => ScopePR::IsIn(ty, EntOrSlot::Slot),
        }
    } else {
        let u = if rng.chance(1, 8) { pools::uid(rng) } else { rng.pick_clone(&env.uids) };
        match rng.below(9) {
            0..=2 => ScopePR::Any,
            3 | 4 => ScopePR::Eq(EntOrSlot::Ent(u)),
            5 | 6 => ScopePR::In(EntOrSlot::Ent(u)),
            7 => ScopePR::Is(ty),
            _ => ScopePR::IsIn(ty, EntOrSlot::Ent(u)),
        }
    }
}

fn gen_action(rng: &mut Rng, env: &Env) -> ScopeA {
    match rng.below(8) {
        0..=3 => ScopeA::Any,
        4 => ScopeA::Eq(rng.pick_clone(&env.actions)),
        5 | 6 => ScopeA::In(rng.pick_clone(&env.actions)),
        _ => {
            let n = 1 + rng.below(3);
            ScopeA::InList((0..n).map(|_| rng.pick_clone(&env.actions)).collect())
        }
    }
}

fn gen_policy(rng: &mut Rng, env: &Env, sp: bool, sr: bool, max_depth: usize) -> GPolicy {
    let mut annotations: Vec<(String, String)> = vec![];
    if rng.chance(1, 2) {
        for _ in 0..1 + rng.below(2) {
            let k = rng.pick(&ANNOT_KEYS).to_string();
            if !annotations.iter().any(|(k2, _)| *k2 == k) {
                annotations.push((k, pools::string(rng)));
            }
        }
    }
    let effect = if rng.chance(2, 3) { Effect::Permit } else { Effect::Forbid };
    let principal = gen_scope(rng, env, sp);
    let action = gen_action(rng, env);
    let resource = gen_scope(rng, env, sr);
    let n_conds = match rng.below(5) {
        0 | 1 => 0,
        2 | 3 => 1,
        _ => 2,
    };
    let mut conds = vec![];
    for _ in 0..n_conds {
        let is_when = rng.chance(3, 4);
        let depth = rng.below(max_depth + 1);
        let chaos = *rng.pick(&[3u32, 12]);
        let e = {
            let mut g = ExprGen::new(rng, &env.w0);
            g.chaos = chaos;
            g.of_kind(gen::Kind::Bool, depth)
        };
        conds.push((is_when, e));
    }
    GPolicy { annotations, effect, principal, action, resource, conds }
}

fn slot_choice(rng: &mut Rng) -> (bool, bool) {
    match rng.below(3) {
        0 => (true, false),
        1 => (false, true),
        _ => (true, true),
    }
}

fn parse_plain(g: &GPolicy, rng: &mut Rng) -> bool {
    let text = render::policy_text(g, &mut TextOpts::plain(rng));
    if g.is_template() {
        Template::parse(Some(PolicyId::new("x")), &text).is_ok()
    } else {
        Policy::parse(Some(PolicyId::new("x")), &text).is_ok()
    }
}

/// a policy the parser accepts (wild conditions may contain e.g. wrong-arity calls)
fn gen_accepted(ctx: &mut CaseCtx, env: &Env, sp: bool, sr: bool, max_depth: usize) -> Option<GPolicy> {
    for _ in 0..8 {
        let g = gen_policy(&mut ctx.rng, env, sp, sr, max_depth);
        if parse_plain(&g, &mut ctx.rng) {
            return Some(g);
        }
        ctx.count("gen:rejected_by_parser");
        let mut g2 = g.clone();
        g2.conds.clear();
        if parse_plain(&g2, &mut ctx.rng) {
            return Some(g2);
        }
        ctx.count("gen:rejected_by_parser_without_conditions");
    }
    ctx.harness_error("could not generate a policy the parser accepts".into());
    None
}

/// two contents that are different policies under any reading (no reliance on how sugar is desugared)
fn clearly_different(a: &GPolicy, b: &GPolicy) -> bool {
    let ann = |p: &GPolicy| p.annotations.iter().cloned().collect::<BTreeMap<_, _>>();
    a.effect != b.effect || a.principal != b.principal || norm_action(&a.action) != norm_action(&b.action) || a.resource != b.resource || ann(a) != ann(b)
}

fn gen_pool(ctx: &mut CaseCtx, env: &Env, n: usize, templates: bool) -> Option<Vec<GPolicy>> {
    let mut out: Vec<GPolicy> = vec![];
    for i in 0..n {
        let (sp, sr) = if templates { slot_choice(&mut ctx.rng) } else { (false, false) };
        let mut g = gen_accepted(ctx, env, sp, sr, 2)?;
        if out.iter().any(|o| !clearly_different(o, &g)) {
            g.annotations.retain(|(k, _)| k != "c");
            g.annotations.push(("c".into(), format!("{}{}", if templates { "t" } else { "s" }, i)));
        }
        out.push(g);
    }
    Some(out)
}

enum Built<T> {
    Ok(T, String),
    Failed(String),
}

fn build_static(rng: &mut Rng, g: &GPolicy, id: &str, via_json: bool) -> Built<Policy> {
    if via_json {
        let est = render::est_policy(g);
        if let Ok(p) = Policy::from_json(Some(PolicyId::new(id)), est.clone()) {
            return Built::Ok(p, format!("json:{}", est));
        }
    }
    let text = render::policy_text(g, &mut TextOpts::random(rng));
    match Policy::parse(Some(PolicyId::new(id)), &text) {
        Ok(p) => Built::Ok(p, text),
        Err(_) => {
            let text = render::policy_text(g, &mut TextOpts::plain(rng));
            match Policy::parse(Some(PolicyId::new(id)), &text) {
                Ok(p) => Built::Ok(p, text),
                Err(e) => Built::Failed(format!("static policy `{}` rejected: {}", text, e)),
            }
        }
    }
}

fn build_template(rng: &mut Rng, g: &GPolicy, id: &str, via_json: bool) -> Built<Template> {
    if via_json {
        let est = render::est_policy(g);
        if let Ok(p) = Template::from_json(Some(PolicyId::new(id)), est.clone()) {
            return Built::Ok(p, format!("json:{}", est));
        }
    }
    let text = render::policy_text(g, &mut TextOpts::random(rng));
    match Template::parse(Some(PolicyId::new(id)), &text) {
        Ok(p) => Built::Ok(p, text),
        Err(_) => {
            let text = render::policy_text(g, &mut TextOpts::plain(rng));
            match Template::parse(Some(PolicyId::new(id)), &text) {
                Ok(p) => Built::Ok(p, text),
                Err(e) => Built::Failed(format!("template `{}` rejected: {}", text, e)),
            }
        }
    }
}

fn bindings(p: &Option<Uid>, r: &Option<Uid>) -> HashMap<SlotId, EntityUid> {
    let mut m = HashMap::new();
    if let Some(u) = p {
        m.insert(SlotId::principal(), bridge::uid(u));
    }
    if let Some(u) = r {
        m.insert(SlotId::resource(), bridge::uid(u));
    }
    m
}

fn slot_shape(sc: &ScopePR) -> &'static str {
    match sc {
        ScopePR::Eq(EntOrSlot::Slot) => "== ?slot",
        ScopePR::In(EntOrSlot::Slot) => "in ?slot",
        ScopePR::IsIn(_, EntOrSlot::Slot) => "is T in ?slot",
        _ => "no slot",
    }
}

/// exact / missing / extra / wrong (= missing and extra)
fn binding_class(t: &GPolicy, p: &Option<Uid>, r: &Option<Uid>) -> &'static str {
    let need = [t.has_slot(Slot::Principal), t.has_slot(Slot::Resource)];
    let have = [p.is_some(), r.is_some()];
    let missing = (0..2).any(|i| need[i] && !have[i]);
    let extra = (0..2).any(|i| !need[i] && have[i]);
    match (missing, extra) {
        (false, false) => "exact",
        (true, false) => "missing",
        (false, true) => "extra",
        (true, true) => "wrong-slot",
    }
}

// ------------------------------------------------------------------ library -> harness views

fn eff_back(e: cedar_policy::Effect) -> Effect {
    match e {
        cedar_policy::Effect::Permit => Effect::Permit,
        cedar_policy::Effect::Forbid => Effect::Forbid,
    }
}

fn eos(u: Option<EntityUid>) -> EntOrSlot {
    match u {
        Some(u) => EntOrSlot::Ent(bridge::uid_back(&u)),
        None => EntOrSlot::Slot,
    }
}

fn pc_back(c: PrincipalConstraint) -> ScopePR {
    match c {
        PrincipalConstraint::Any => ScopePR::Any,
        PrincipalConstraint::In(u) => ScopePR::In(eos(Some(u))),
        PrincipalConstraint::Eq(u) => ScopePR::Eq(eos(Some(u))),
        PrincipalConstraint::Is(t) => ScopePR::Is(t.to_string()),
        PrincipalConstraint::IsIn(t, u) => ScopePR::IsIn(t.to_string(), eos(Some(u))),
    }
}

fn rc_back(c: ResourceConstraint) -> ScopePR {
    match c {
        ResourceConstraint::Any => ScopePR::Any,
        ResourceConstraint::In(u) => ScopePR::In(eos(Some(u))),
        ResourceConstraint::Eq(u) => ScopePR::Eq(eos(Some(u))),
        ResourceConstraint::Is(t) => ScopePR::Is(t.to_string()),
        ResourceConstraint::IsIn(t, u) => ScopePR::IsIn(t.to_string(), eos(Some(u))),
    }
}

fn tpc_back(c: TemplatePrincipalConstraint) -> ScopePR {
    match c {
        TemplatePrincipalConstraint::Any => ScopePR::Any,
        TemplatePrincipalConstraint::In(u) => ScopePR::In(eos(u)),
        TemplatePrincipalConstraint::Eq(u) => ScopePR::Eq(eos(u)),
        TemplatePrincipalConstraint::Is(t) => ScopePR::Is(t.to_string()),
        TemplatePrincipalConstraint::IsIn(t, u) => ScopePR::IsIn(t.to_string(), eos(u)),
    }
}

fn trc_back(c: TemplateResourceConstraint) -> ScopePR {
    match c {
        TemplateResourceConstraint::Any => ScopePR::Any,
        TemplateResourceConstraint::In(u) => ScopePR::In(eos(u)),
        TemplateResourceConstraint::Eq(u) => ScopePR::Eq(eos(u)),
        TemplateResourceConstraint::Is(t) => ScopePR::Is(t.to_string()),
        TemplateResourceConstraint::IsIn(t, u) => ScopePR::IsIn(t.to_string(), eos(u)),
    }
}

fn ac_back(c: ActionConstraint) -> ScopeA {
    match c {
        ActionConstraint::Any => ScopeA::Any,
        ActionConstraint::In(us) => ScopeA::InList(us.iter().map(bridge::uid_back).collect()),
        ActionConstraint::Eq(u) => ScopeA::Eq(bridge::uid_back(&u)),
    }
}

/// `action in X` and `action in [X]` are the same constraint
fn norm_action(a: &ScopeA) -> ScopeA {
    match a {
        ScopeA::In(u) => ScopeA::InList(vec![u.clone()]),
        x => x.clone(),
    }
}

fn ann_map<'a>(it: impl Iterator<Item = (&'a str, &'a str)>) -> BTreeMap<String, String> {
    it.map(|(k, v)| (k.to_string(), v.to_string())).collect()
}

#[derive(Clone, Debug, PartialEq, Eq)]
struct PolView {
    is_static: bool,
    tid: Option<String>,
    binds: Vec<(String, Uid)>,
    effect: Effect,
    ann: BTreeMap<String, String>,
    pc: ScopePR,
    ac: ScopeA,
    rc: ScopePR,
}

#[derive(Clone, Debug, PartialEq, Eq)]
struct TplView {
    effect: Effect,
    ann: BTreeMap<String, String>,
    pc: ScopePR,
    ac: ScopeA,
    rc: ScopePR,
    /// None: `get_linked_policies` refused the id
    links: Option<BTreeSet<String>>,
}

fn pol_view(p: &Policy) -> PolView {
    let mut binds: Vec<(String, Uid)> = p.template_links().map(|m| m.iter().map(|(k, v)| (k.to_string(), bridge::uid_back(v))).collect()).unwrap_or_default();
    binds.sort();
    PolView {
        is_static: p.is_static(),
        tid: p.template_id().map(|t| t.to_string()),
        binds,
        effect: eff_back(p.effect()),
        ann: ann_map(p.annotations()),
        pc: pc_back(p.principal_constraint()),
        ac: ac_back(p.action_constraint()),
        rc: rc_back(p.resource_constraint()),
    }
}

fn tpl_view(ps: &PolicySet, t: &Template) -> TplView {
    TplView {
        effect: eff_back(t.effect()),
        ann: ann_map(t.annotations()),
        pc: tpc_back(t.principal_constraint()),
        ac: ac_back(t.action_constraint()),
        rc: trc_back(t.resource_constraint()),
        links: ps.get_linked_policies(t.id().clone()).ok().map(|it| it.map(|i| i.to_string()).collect()),
    }
}

/// Everything observable about a policy set, order ignored
#[derive(Clone, Debug, PartialEq, Eq)]
struct Snap {
    pols: BTreeMap<String, PolView>,
    tpls: BTreeMap<String, TplView>,
    /// renderings (Display and JSON) of every policy and template
    texts: BTreeMap<String, String>,
    n_pol: usize,
    n_tpl: usize,
    empty: bool,
    /// ids delivered more than once by an iterator, or links listed twice
    dups: Vec<String>,
    /// `policy(id)` / `template(id)` disagreeing with the iterators
    lookup_bad: Vec<String>,
    /// the doc-hidden core view, rendered
    core: Vec<String>,
}

fn snapshot(ps: &PolicySet) -> Snap {
    let mut pols = BTreeMap::new();
    let mut tpls = BTreeMap::new();
    let mut texts = BTreeMap::new();
    let mut dups = vec![];
    let mut lookup_bad = vec![];
    for p in ps.policies() {
        let id = p.id().to_string();
        texts.insert(format!("p:{}", id), format!("{} || {:?}", p, p.to_json().ok().map(|j| j.to_string())));
        if pols.insert(id.clone(), pol_view(p)).is_some() {
            dups.push(format!("policy {id:?} iterated twice"));
        }
    }
    for t in ps.templates() {
        let id = t.id().to_string();
        texts.insert(format!("t:{}", id), format!("{} || {:?}", t, t.to_json().ok().map(|j| j.to_string())));
        if let Ok(it) = ps.get_linked_policies(t.id().clone()) {
            let v: Vec<String> = it.map(|i| i.to_string()).collect();
            let s: BTreeSet<&String> = v.iter().collect();
            if s.len() != v.len() {
                dups.push(format!("links of template {id:?} listed twice: {v:?}"));
            }
        }
        if tpls.insert(id.clone(), tpl_view(ps, t)).is_some() {
            dups.push(format!("template {id:?} iterated twice"));
        }
    }
    let mut ids: BTreeSet<String> = IDS.iter().map(|s| s.to_string()).collect();
    ids.extend(pols.keys().cloned());
    ids.extend(tpls.keys().cloned());
    for id in &ids {
        let pid = PolicyId::new(id);
        match (ps.policy(&pid), pols.get(id)) {
            (None, None) => {}
            (Some(p), Some(v)) => {
                if p.id().to_string() != *id || pol_view(p) != *v {
                    lookup_bad.push(format!("policy({id:?}) differs from the policy iterated under that id"));
                }
            }
            (Some(_), None) => lookup_bad.push(format!("policy({id:?}) is Some but policies() does not deliver it")),
            (None, Some(_)) => lookup_bad.push(format!("policy({id:?}) is None but policies() delivers it")),
        }
        match (ps.template(&pid), tpls.get(id)) {
            (None, None) => {}
            (Some(t), Some(v)) => {
                if t.id().to_string() != *id || tpl_view(ps, t) != *v {
                    lookup_bad.push(format!("template({id:?}) differs from the template iterated under that id"));
                }
            }
            (Some(_), None) => lookup_bad.push(format!("template({id:?}) is Some but templates() does not deliver it")),
            (None, Some(_)) => lookup_bad.push(format!("template({id:?}) is None but templates() delivers it")),
        }
    }
    let a: &ast::PolicySet = ps.as_ref();
    let mut core = vec![];
    for p in a.policies() {
        let mut env: Vec<String> = p.env().iter().map(|(k, v)| format!("{k}={v}")).collect();
        env.sort();
        core.push(format!("P {:?} static={} template={:?} env={:?} :: {}", p.id().to_string(), p.is_static(), p.template().id().to_string(), env, p));
    }
    for t in a.all_templates() {
        let links: Option<BTreeSet<String>> = a.get_linked_policies(t.id()).ok().map(|it| it.map(|i| i.to_string()).collect());
        core.push(format!("T {:?} slots={} links={:?} :: {}", t.id().to_string(), t.slots().count(), links, t));
    }
    core.sort();
    Snap { pols, tpls, texts, n_pol: ps.num_of_policies(), n_tpl: ps.num_of_templates(), empty: ps.is_empty(), dups, lookup_bad, core }
}

/// public view vs. the doc-hidden core view, plus the structural invariants
fn check_views(ps: &PolicySet) -> Vec<(&'static str, String)> {
    let mut bad: Vec<(&'static str, String)> = vec![];
    let a: &ast::PolicySet = ps.as_ref();
    let pub_pol: BTreeSet<String> = ps.policies().map(|p| p.id().to_string()).collect();
    let pub_static: BTreeSet<String> = ps.policies().filter(|p| p.is_static()).map(|p| p.id().to_string()).collect();
    let pub_tpl: BTreeSet<String> = ps.templates().map(|t| t.id().to_string()).collect();
    let core_pol: BTreeSet<String> = a.policies().map(|p| p.id().to_string()).collect();
    let core_tpl: BTreeSet<String> = a.templates().map(|t| t.id().to_string()).collect();
    let core_all_tpl: BTreeSet<String> = a.all_templates().map(|t| t.id().to_string()).collect();
    if pub_pol != core_pol {
        bad.push(("policy-ids", format!("public policies {pub_pol:?} vs core policies {core_pol:?}")));
    }
    if pub_tpl != core_tpl {
        bad.push(("template-ids", format!("public templates {pub_tpl:?} vs core templates {core_tpl:?}")));
    }
    let exp_all: BTreeSet<String> = pub_tpl.union(&pub_static).cloned().collect();
    if exp_all != core_all_tpl {
        bad.push(("body-ids", format!("core bodies {core_all_tpl:?} vs public templates + static policies {exp_all:?}")));
    }
    if let Some(x) = pub_tpl.intersection(&pub_pol).next() {
        bad.push(("shared-id", format!("id {x:?} names both a template and a policy")));
    }
    for p in ps.policies() {
        let cp: &ast::Policy = p.as_ref();
        match a.get(p.id().as_ref()) {
            Some(x) if x == cp => {}
            Some(_) => bad.push(("policy-content", format!("policy {:?}: public and core representation differ", p.id().to_string()))),
            None => {}
        }
    }
    for t in ps.templates() {
        let ct: &ast::Template = t.as_ref();
        match a.get_template(t.id().as_ref()) {
            Some(x) if x == ct => {}
            Some(_) => bad.push(("template-content", format!("template {:?}: public and core representation differ", t.id().to_string()))),
            None => {}
        }
    }
    // no link without its template; the link's own copy of the template is the set's template
    for p in a.policies() {
        let tid = p.template().id();
        match a.get_template(tid) {
            None => bad.push(("link-without-template", format!("policy {:?} refers to template {:?} which is not in the set", p.id().to_string(), tid.to_string()))),
            Some(t) => {
                if t != p.template() {
                    bad.push(("link-stale-template", format!("policy {:?} carries a template {:?} that differs from the set's template of that id", p.id().to_string(), tid.to_string())));
                }
            }
        }
        if !p.is_static() && !pub_tpl.contains(&tid.to_string()) {
            bad.push(("link-without-template", format!("link {:?}: template {:?} is not among templates()", p.id().to_string(), tid.to_string())));
        }
    }
    // link sets are exactly { p | p.template().id() == t }
    for t in a.all_templates() {
        let want: BTreeSet<String> = a.policies().filter(|p| p.template().id() == t.id()).map(|p| p.id().to_string()).collect();
        match a.get_linked_policies(t.id()) {
            Ok(it) => {
                let got: BTreeSet<String> = it.map(|i| i.to_string()).collect();
                if got != want {
                    bad.push(("link-set", format!("template {:?}: recorded links {got:?}, policies referring to it {want:?}", t.id().to_string())));
                }
            }
            Err(_) => bad.push(("link-set", format!("template {:?} has no link-set entry", t.id().to_string()))),
        }
    }
    if ps.num_of_policies() != ps.policies().count() || ps.num_of_templates() != ps.templates().count() {
        bad.push(("counts", format!("num_of_policies {} / {} iterated, num_of_templates {} / {} iterated", ps.num_of_policies(), ps.policies().count(), ps.num_of_templates(), ps.templates().count())));
    }
    bad
}

// ------------------------------------------------------------------ the name model

#[derive(Clone, Debug, PartialEq, Eq)]
struct MLink {
    tid: String,
    p: Option<Uid>,
    r: Option<Uid>,
}

#[derive(Clone, Debug, PartialEq, Eq)]
enum Obj {
    Tpl(usize),
    Stat(usize),
    Link(MLink),
}

#[derive(Clone, Debug, Default, PartialEq, Eq)]
struct Model {
    /// id -> index into the template content pool
    templates: BTreeMap<String, usize>,
    /// id -> index into the static content pool
    statics: BTreeMap<String, usize>,
    links: BTreeMap<String, MLink>,
}

struct Pools {
    tpls: Vec<GPolicy>,
    stats: Vec<GPolicy>,
}

impl Model {
    fn obj(&self, id: &str) -> Option<Obj> {
        if let Some(c) = self.templates.get(id) {
            return Some(Obj::Tpl(*c));
        }
        if let Some(c) = self.statics.get(id) {
            return Some(Obj::Stat(*c));
        }
        self.links.get(id).map(|l| Obj::Link(l.clone()))
    }
    fn kind(&self, id: &str) -> &'static str {
        match self.obj(id) {
            Some(Obj::Tpl(_)) => "template",
            Some(Obj::Stat(_)) => "static",
            Some(Obj::Link(_)) => "link",
            None => "absent",
        }
    }
    fn ids(&self) -> BTreeSet<String> {
        self.templates.keys().chain(self.statics.keys()).chain(self.links.keys()).cloned().collect()
    }
    fn objects(&self) -> Vec<(String, Obj)> {
        let mut v: Vec<(String, Obj)> = vec![];
        v.extend(self.templates.iter().map(|(k, c)| (k.clone(), Obj::Tpl(*c))));
        v.extend(self.statics.iter().map(|(k, c)| (k.clone(), Obj::Stat(*c))));
        v.extend(self.links.iter().map(|(k, l)| (k.clone(), Obj::Link(l.clone()))));
        v
    }
    fn links_of(&self, tid: &str) -> BTreeSet<String> {
        self.links.iter().filter(|(_, l)| l.tid == tid).map(|(k, _)| k.clone()).collect()
    }
    /// the executable policies: (id, substituted content, template content, slots)
    fn executable<'a>(&self, pools: &'a Pools) -> Vec<(String, GPolicy, &'a GPolicy, Slots)> {
        let mut v = vec![];
        for (id, c) in &self.statics {
            v.push((id.clone(), pools.stats[*c].clone(), &pools.stats[*c], Slots::default()));
        }
        for (id, l) in &self.links {
            if let Some(c) = self.templates.get(&l.tid) {
                let t = &pools.tpls[*c];
                v.push((id.clone(), t.substitute(l.p.as_ref(), l.r.as_ref()), t, Slots { principal: l.p.clone(), resource: l.r.clone() }));
            }
        }
        v
    }
}

fn expected_views(m: &Model, pools: &Pools) -> (BTreeMap<String, PolView>, BTreeMap<String, TplView>) {
    let ann = |g: &GPolicy| g.annotations.iter().cloned().collect::<BTreeMap<_, _>>();
    let mut pv = BTreeMap::new();
    let mut tv = BTreeMap::new();
    for (id, c) in &m.statics {
        let g = &pools.stats[*c];
        pv.insert(id.clone(), PolView { is_static: true, tid: None, binds: vec![], effect: g.effect, ann: ann(g), pc: g.principal.clone(), ac: norm_action(&g.action), rc: g.resource.clone() });
    }
    for (id, l) in &m.links {
        if let Some(c) = m.templates.get(&l.tid) {
            let t = &pools.tpls[*c];
            let g = t.substitute(l.p.as_ref(), l.r.as_ref());
            let mut binds = vec![];
            if let Some(u) = &l.p {
                binds.push(("?principal".to_string(), u.clone()));
            }
            if let Some(u) = &l.r {
                binds.push(("?resource".to_string(), u.clone()));
            }
            binds.sort();
            pv.insert(id.clone(), PolView { is_static: false, tid: Some(l.tid.clone()), binds, effect: t.effect, ann: ann(t), pc: g.principal, ac: norm_action(&g.action), rc: g.resource });
        }
    }
    for (id, c) in &m.templates {
        let t = &pools.tpls[*c];
        tv.insert(id.clone(), TplView { effect: t.effect, ann: ann(t), pc: t.principal.clone(), ac: norm_action(&t.action), rc: t.resource.clone(), links: Some(m.links_of(id)) });
    }
    (pv, tv)
}

/// first difference between the observed state and the model
fn compare_with_model(s: &Snap, m: &Model, pools: &Pools) -> Option<(&'static str, String)> {
    if !s.dups.is_empty() {
        return Some(("duplicate-ids", s.dups.join("; ")));
    }
    let (pv, tv) = expected_views(m, pools);
    let got_p: BTreeSet<&String> = s.pols.keys().collect();
    let exp_p: BTreeSet<&String> = pv.keys().collect();
    if got_p != exp_p {
        return Some(("policy-ids", format!("policies() has ids {got_p:?}, the model {exp_p:?}")));
    }
    let got_t: BTreeSet<&String> = s.tpls.keys().collect();
    let exp_t: BTreeSet<&String> = tv.keys().collect();
    if got_t != exp_t {
        return Some(("template-ids", format!("templates() has ids {got_t:?}, the model {exp_t:?}")));
    }
    if !s.lookup_bad.is_empty() {
        return Some(("lookup", s.lookup_bad.join("; ")));
    }
    if s.n_pol != pv.len() || s.n_tpl != tv.len() {
        return Some(("counts", format!("num_of_policies {} (model {}), num_of_templates {} (model {})", s.n_pol, pv.len(), s.n_tpl, tv.len())));
    }
    if s.empty != (pv.is_empty() && tv.is_empty()) {
        return Some(("is_empty", format!("is_empty() = {} with {} policies and {} templates in the model", s.empty, pv.len(), tv.len())));
    }
    for (id, want) in &pv {
        let got = &s.pols[id];
        if got != want {
            let aspect = if got.is_static != want.is_static {
                "policy-kind"
            } else if got.tid != want.tid {
                "link-target"
            } else if got.binds != want.binds {
                "link-bindings"
            } else if got.effect != want.effect {
                "policy-effect"
            } else if got.ann != want.ann {
                "policy-annotations"
            } else {
                "policy-scope"
            };
            return Some((aspect, format!("policy {id:?}: observed {got:?}, model {want:?}")));
        }
    }
    for (id, want) in &tv {
        let got = &s.tpls[id];
        if got != want {
            let aspect = if got.links != want.links {
                "linked-policies"
            } else if got.effect != want.effect {
                "template-effect"
            } else if got.ann != want.ann {
                "template-annotations"
            } else {
                "template-scope"
            };
            return Some((aspect, format!("template {id:?}: observed {got:?}, model {want:?}")));
        }
    }
    None
}

// ------------------------------------------------------------------ merge, up to the choice of fresh names

#[derive(Debug, Default)]
struct MergeClass {
    free: usize,
    same: usize,
    clash: usize,
}

fn same_object(m: &Model, o: &Model, mine: &Obj, theirs: &Obj) -> bool {
    match (mine, theirs) {
        (Obj::Tpl(a), Obj::Tpl(b)) => a == b,
        (Obj::Stat(a), Obj::Stat(b)) => a == b,
        (Obj::Link(a), Obj::Link(b)) => a == b && m.templates.get(&a.tid).is_some() && m.templates.get(&a.tid) == o.templates.get(&b.tid),
        _ => false,
    }
}

fn classify_merge(m: &Model, o: &Model) -> MergeClass {
    let mut c = MergeClass::default();
    for (id, theirs) in o.objects() {
        match m.obj(&id) {
            None => c.free += 1,
            Some(mine) => {
                if same_object(m, o, &mine, &theirs) {
                    c.same += 1
                } else {
                    c.clash += 1
                }
            }
        }
    }
    c
}

/// `m` ∪ (`o` renamed by `r`); Err: an object of `o` lands on an id of `m` that holds something else
fn apply_merge(m: &Model, o: &Model, r: &BTreeMap<String, String>) -> Result<Model, String> {
    let rn = |id: &String| r.get(id).cloned().unwrap_or_else(|| id.clone());
    let mut out = m.clone();
    for (id, theirs) in o.objects() {
        let y = rn(&id);
        let theirs = match theirs {
            Obj::Link(l) => Obj::Link(MLink { tid: rn(&l.tid), p: l.p, r: l.r }),
            x => x,
        };
        match m.obj(&y) {
            None => match theirs {
                Obj::Tpl(c) => {
                    out.templates.insert(y, c);
                }
                Obj::Stat(c) => {
                    out.statics.insert(y, c);
                }
                Obj::Link(l) => {
                    out.links.insert(y, l);
                }
            },
            Some(mine) => {
                if mine != theirs {
                    return Err(format!("id {y:?} holds {mine:?} in the receiving set and {theirs:?} (after renaming) in the merged-in set, and was not renamed"));
                }
            }
        }
    }
    Ok(out)
}

// ------------------------------------------------------------------ authorization vs. the model

fn observe_response(resp: &cedar_policy::Response) -> (bool, Vec<String>, Vec<(String, u8)>) {
    let mut reasons: Vec<String> = resp.diagnostics().reason().map(|i| i.to_string()).collect();
    reasons.sort();
    let mut errors: Vec<(String, u8)> = resp
        .diagnostics()
        .errors()
        .map(|e| {
            let cedar_policy::AuthorizationError::PolicyEvaluationError(pe) = e;
            (pe.policy_id().to_string(), bridge::err_class(pe.inner()))
        })
        .collect();
    errors.sort();
    (resp.decision() == Decision::Allow, reasons, errors)
}

/// `is_authorized` must consider exactly the model's policies
fn authz_disagreement(env: &Env, ps: &PolicySet, m: &Model, pools: &Pools, w: &GWorld, req: &Request) -> Result<Option<(&'static str, String)>, String> {
    let mut per: Vec<(String, Effect, Outcome)> = vec![];
    for (id, subst, tpl, slots) in m.executable(pools) {
        let o1 = refsem::policy_outcome(tpl, w, &slots);
        let o2 = refsem::policy_outcome(&subst, w, &Slots::default());
        if o1 != o2 {
            return Err(format!("reference model: slots {:?} vs substitution {:?} for {:?}", o1, o2, id));
        }
        per.push((id, tpl.effect, o1));
    }
    let want = refsem::authorize_model(&per);
    let resp = Authorizer::new().is_authorized(req, ps, &env.ents);
    let (allow, reasons, errors) = observe_response(&resp);
    let err_ids: Vec<String> = errors.iter().map(|(i, _)| i.clone()).collect();
    let show = |id: &String| per.iter().find(|(i, _, _)| i == id).map(|(_, e, o)| format!("{:?}/{:?}", e, o)).unwrap_or_else(|| "not in the model".into());
    if reasons != want.reasons {
        let odd: Vec<String> = reasons.iter().filter(|i| !want.reasons.contains(i)).chain(want.reasons.iter().filter(|i| !reasons.contains(i))).map(|i| format!("{i:?}: {}", show(i))).collect();
        return Ok(Some(("reasons", format!("reasons {reasons:?}, model {:?} ({})", want.reasons, odd.join(", ")))));
    }
    if err_ids != want.errors {
        let odd: Vec<String> = err_ids.iter().filter(|i| !want.errors.contains(i)).chain(want.errors.iter().filter(|i| !err_ids.contains(i))).map(|i| format!("{i:?}: {}", show(i))).collect();
        return Ok(Some(("errors", format!("erroring policies {err_ids:?}, model {:?} ({})", want.errors, odd.join(", ")))));
    }
    if allow != want.allow {
        return Ok(Some(("decision", format!("decision allow={allow}, model allow={}", want.allow))));
    }
    for (id, class) in &errors {
        if let Some((_, _, Outcome::Error(set))) = per.iter().find(|(i, _, _)| i == id) {
            if !set.contains(*class) {
                return Ok(Some(("error-class", format!("policy {id:?} failed with {}, model allows {}", refsem::class_name(*class), set.names()))));
            }
        }
    }
    Ok(None)
}

// ------------------------------------------------------------------ part (a): link focus

fn obs_name(o: &PolObs) -> String {
    match o {
        PolObs::Satisfied => "sat".into(),
        PolObs::NotSatisfied => "unsat".into(),
        PolObs::Error(c) => format!("err:{}", refsem::class_name(*c)),
    }
}

fn link_focus(ctx: &mut CaseCtx, env: &Env) -> Option<String> {
    let (sp, sr) = slot_choice(&mut ctx.rng);
    let t = gen_accepted(ctx, env, sp, sr, 3)?;
    let tid = ctx.rng.pick(&IDS).to_string();
    let via_json = ctx.rng.chance(1, 3);
    let (tpl, ttext) = match build_template(&mut ctx.rng, &t, &tid, via_json) {
        Built::Ok(t, s) => (t, s),
        Built::Failed(m) => {
            ctx.harness_error(m);
            return None;
        }
    };
    // what the template itself reports
    let tann = ann_map(tpl.annotations());
    let want_ann: BTreeMap<String, String> = t.annotations.iter().cloned().collect();
    let got_slots: BTreeSet<String> = tpl.slots().map(|s| s.to_string()).collect();
    let mut want_slots = BTreeSet::new();
    if sp {
        want_slots.insert("?principal".to_string());
    }
    if sr {
        want_slots.insert("?resource".to_string());
    }
    if tann != want_ann || eff_back(tpl.effect()) != t.effect || got_slots != want_slots {
        ctx.violation(
            "C08:template:self-description",
            format!("template `{}` reports effect {:?}, annotations {:?}, slots {:?}", ttext, tpl.effect(), tann, got_slots),
            json!({"template": ttext, "expected_effect": format!("{:?}", t.effect), "expected_annotations": want_ann, "expected_slots": want_slots}),
        );
        return None;
    }

    let n_attempts = 2 + ctx.rng.below(3);
    let mut canon = format!("{:?}", t);
    for _ in 0..n_attempts {
        // exact bindings most of the time, otherwise any subset of {?principal, ?resource}
        let (have_p, have_r) = if ctx.rng.chance(3, 5) { (sp, sr) } else { (ctx.rng.bool(), ctx.rng.bool()) };
        let pick = |rng: &mut Rng| if rng.chance(1, 6) { pools::uid(rng) } else { rng.pick_clone(&env.uids) };
        let bp = if have_p { Some(pick(&mut ctx.rng)) } else { None };
        let br = if have_r { Some(pick(&mut ctx.rng)) } else { None };
        let class = binding_class(&t, &bp, &br);
        let expect_ok = class == "exact";
        let lid = loop {
            let l = ctx.rng.pick(&IDS).to_string();
            if l != tid {
                break l;
            }
        };
        canon.push_str(&format!("|{:?},{:?}", bp, br));
        let mut ps = PolicySet::new();
        if let Err(e) = ps.add_template(tpl.clone()) {
            ctx.violation("C08:add_template:unexpected-err", format!("add_template into an empty set failed: {e}"), json!({"template": ttext, "id": tid}));
            return None;
        }
        let before = snapshot(&ps);
        let res = ps.link(PolicyId::new(&tid), PolicyId::new(&lid), bindings(&bp, &br));
        ctx.count(&format!("link-bindings:{}:{}", class, if res.is_ok() { "ok" } else { "err" }));
        ctx.count(&format!("cell:link-focus:principal {} resource {}:bound {}{}:{}", slot_shape(&t.principal), slot_shape(&t.resource), if bp.is_some() { "P" } else { "-" }, if br.is_some() { "R" } else { "-" }, if res.is_ok() { "ok" } else { "err" }));
        let detail = |extra: J| json!({"template": ttext, "template_id": tid, "link_id": lid, "principal_binding": format!("{:?}", bp), "resource_binding": format!("{:?}", br), "binding_class": class, "more": extra});
        if res.is_ok() != expect_ok {
            ctx.violation(
                &format!("C08:link:arity:{}", class),
                format!("link of `{}` with ?principal={:?} ?resource={:?} ({}) {}", ttext, bp, br, class, if res.is_ok() { "succeeded" } else { "failed" }),
                detail(json!({"result": res.as_ref().err().map(|e| e.to_string())})),
            );
            return None;
        }
        if res.is_err() {
            ctx.count("failed_op_unchanged_checks");
            let after = snapshot(&ps);
            if after != before {
                ctx.violation("C08:link:failed-op-changed-state", format!("failed link ({}) of `{}` changed the policy set", class, ttext), detail(json!({"before": format!("{:?}", before), "after": format!("{:?}", after)})));
                return None;
            }
            continue;
        }
        // ---- the link exists: effect, annotations, template id, bindings, scope
        let Some(lp) = ps.policy(&PolicyId::new(&lid)).cloned() else {
            ctx.violation("C08:link:not-retrievable", format!("link {lid:?} of `{ttext}` succeeded but policy(id) is None"), detail(json!({})));
            return None;
        };
        let subst = t.substitute(bp.as_ref(), br.as_ref());
        let mut binds = vec![];
        if let Some(u) = &bp {
            binds.push(("?principal".to_string(), u.clone()));
        }
        if let Some(u) = &br {
            binds.push(("?resource".to_string(), u.clone()));
        }
        let want = PolView { is_static: false, tid: Some(tid.clone()), binds, effect: t.effect, ann: want_ann.clone(), pc: subst.principal.clone(), ac: norm_action(&subst.action), rc: subst.resource.clone() };
        let got = pol_view(&lp);
        if got != want {
            let aspect = if got.effect != want.effect {
                "effect"
            } else if got.ann != want.ann {
                "annotations"
            } else if got.tid != want.tid || got.is_static {
                "template-id"
            } else if got.binds != want.binds {
                "bindings"
            } else {
                "scope"
            };
            ctx.violation(&format!("C08:link:{}", aspect), format!("link of `{}` with {:?}/{:?}: observed {:?}, expected {:?}", ttext, bp, br, got, want), detail(json!({"observed": format!("{:?}", got), "expected": format!("{:?}", want)})));
            return None;
        }
        for (aspect, msg) in check_views(&ps) {
            ctx.violation(&format!("C08:views:after-link:{}", aspect), msg.clone(), detail(json!({"problem": msg})));
            return None;
        }
        // ---- the same policy written out by substitution
        let stext = render::policy_text(&subst, &mut TextOpts::random(&mut ctx.rng));
        let sp_static = match Policy::parse(Some(PolicyId::new("subst")), &stext) {
            Ok(p) => p,
            Err(e) => {
                ctx.harness_error(format!("substituted policy `{stext}` rejected: {e}"));
                return None;
            }
        };
        // ---- and the link's own JSON rendering read back as a static policy
        // (what `to_json` of a link must look like is not part of this property: only when the
        // library itself offers a static policy as the rendering of the link must that policy agree)
        let json_static = match lp.to_json() {
            Ok(j) => match Policy::from_json(Some(PolicyId::new("fromjson")), j.clone()) {
                Ok(p) if p.is_static() => {
                    ctx.count("link-json:read-back");
                    Some((p, j))
                }
                _ => {
                    ctx.count("link-json:not-a-static-policy");
                    None
                }
            },
            Err(_) => {
                ctx.count("link-json:to_json-refused");
                None
            }
        };
        let slots = Slots { principal: bp.clone(), resource: br.clone() };
        let mut probes: Vec<(GWorld, Request)> = env.probes.clone();
        for _ in 0..2 {
            if let Some(pr) = targeted_probe(&mut ctx.rng, env, &subst) {
                probes.push(pr);
            }
        }
        for (w, req) in &probes {
            let m1 = refsem::policy_outcome(&t, w, &slots);
            let m2 = refsem::policy_outcome(&subst, w, &Slots::default());
            if m1 != m2 {
                ctx.harness_error(format!("reference model: slots {:?} vs substitution {:?}", m1, m2));
                return None;
            }
            let resp = Authorizer::new().is_authorized(req, &ps, &env.ents);
            let pdetail = |extra: J| {
                detail(json!({"substituted": stext, "principal": format!("{:?}", w.principal), "action": format!("{:?}", w.action), "resource": format!("{:?}", w.resource),
                "entities": render::entities_json(w), "context": render::context_json(w), "model": format!("{:?}", m1), "more": extra}))
            };
            let lo = match single_policy_outcome(&resp, &PolicyId::new(&lid)) {
                Ok(o) => o,
                Err(m) => {
                    ctx.violation("C08:link:response-shape", m.clone(), pdetail(json!({"problem": m})));
                    return None;
                }
            };
            let so = match authorize_single(sp_static.clone(), req, &env.ents) {
                Ok((d, o)) => (d, o),
                Err(m) => {
                    ctx.violation("C08:link:response-shape", m.clone(), pdetail(json!({"problem": m})));
                    return None;
                }
            };
            ctx.count("link_semantic_probes");
            ctx.count(&format!("link-outcome:{}", obs_name(&lo)));
            if lo != so.1 || resp.decision() != so.0 {
                ctx.violation(
                    "C08:link:differs-from-substitution",
                    format!("link of `{}` with {:?}/{:?} answers {}/{:?}, the substituted policy `{}` answers {}/{:?}", ttext, bp, br, obs_name(&lo), resp.decision(), stext, obs_name(&so.1), so.0),
                    pdetail(json!({"link": obs_name(&lo), "substituted_policy": obs_name(&so.1)})),
                );
                return None;
            }
            if !outcome_agrees(&m1, &lo) {
                ctx.violation(
                    "C08:link:differs-from-model",
                    format!("link of `{}` with {:?}/{:?} answers {}, the reference model {:?}", ttext, bp, br, obs_name(&lo), m1),
                    pdetail(json!({"link": obs_name(&lo)})),
                );
                return None;
            }
            let want_allow = t.effect == Effect::Permit && m1 == Outcome::Satisfied;
            if (resp.decision() == Decision::Allow) != want_allow {
                ctx.violation("C08:link:decision", format!("link of `{}`: decision {:?} with outcome {:?} and effect {:?}", ttext, resp.decision(), m1, t.effect), pdetail(json!({})));
                return None;
            }
            if let Some((jp, j)) = &json_static {
                match authorize_single(jp.clone(), req, &env.ents) {
                    Ok((d, o)) => {
                        if o != lo || d != resp.decision() {
                            ctx.violation(
                                "C08:link:to_json-substitution",
                                format!("link of `{}` with {:?}/{:?} answers {}, its JSON rendering read back answers {}", ttext, bp, br, obs_name(&lo), obs_name(&o)),
                                pdetail(json!({"json": j, "link": obs_name(&lo), "json_policy": obs_name(&o)})),
                            );
                            return None;
                        }
                    }
                    Err(m) => {
                        ctx.violation("C08:link:response-shape", m.clone(), pdetail(json!({"problem": m})));
                        return None;
                    }
                }
            }
        }
    }
    Some(canon)
}

// ------------------------------------------------------------------ part (b): histories

struct Side {
    ps: PolicySet,
    m: Model,
    snap: Snap,
}

struct Hist<'a> {
    env: &'a Env,
    pools: &'a Pools,
    log: Vec<String>,
    ok_ops: usize,
    failed_ops: usize,
}

impl<'a> Hist<'a> {
    fn detail(&self, side: usize, s: &Side, extra: J) -> J {
        json!({"history": self.log, "set": side, "model": format!("{:?}", s.m), "observed_policies": format!("{:?}", s.snap.pols), "observed_templates": format!("{:?}", s.snap.tpls),
               "template_pool": self.pools.tpls.iter().map(|g| render_plain(g)).collect::<Vec<_>>(),
               "static_pool": self.pools.stats.iter().map(|g| render_plain(g)).collect::<Vec<_>>(),
               "more": extra})
    }
}

fn render_plain(g: &GPolicy) -> String {
    let mut r = Rng::new(0);
    render::policy_text(g, &mut TextOpts::plain(&mut r))
}

/// id for an operation: mostly an id for which the operation can succeed, otherwise any id of the pool
fn pick_id(rng: &mut Rng, good: Vec<String>) -> String {
    if !good.is_empty() && rng.chance(3, 5) {
        rng.pick_clone(&good)
    } else {
        rng.pick(&IDS).to_string()
    }
}

fn free_ids(m: &Model) -> Vec<String> {
    IDS.iter().map(|s| s.to_string()).filter(|i| m.obj(i).is_none()).collect()
}

/// checks after an operation on `sides[i]`; false = a violation was reported, stop the history
fn after_op(ctx: &mut CaseCtx, h: &Hist, i: usize, sides: &mut [Side; 2], op: &str, succeeded: bool, n_probes: usize) -> bool {
    let after = snapshot(&sides[i].ps);
    if !succeeded {
        ctx.count("failed_op_unchanged_checks");
        if after != sides[i].snap {
            let mut diff = vec![];
            if after.pols != sides[i].snap.pols {
                diff.push("policies");
            }
            if after.tpls != sides[i].snap.tpls {
                diff.push("templates");
            }
            if after.texts != sides[i].snap.texts {
                diff.push("renderings");
            }
            if after.core != sides[i].snap.core {
                diff.push("core-view");
            }
            if (after.n_pol, after.n_tpl, after.empty) != (sides[i].snap.n_pol, sides[i].snap.n_tpl, sides[i].snap.empty) {
                diff.push("counts");
            }
            let d = h.detail(i, &sides[i], json!({"before": format!("{:?}", sides[i].snap), "after": format!("{:?}", after), "changed": diff}));
            ctx.violation(&format!("C08:{}:failed-op-changed-state", op), format!("failed operation `{}` changed {}", h.log.last().cloned().unwrap_or_default(), diff.join(", ")), d);
            return false;
        }
    }
    sides[i].snap = after;
    if let Some((aspect, msg)) = compare_with_model(&sides[i].snap, &sides[i].m, h.pools) {
        let d = h.detail(i, &sides[i], json!({"problem": msg}));
        ctx.violation(&format!("C08:state:after-{}:{}", op, aspect), format!("after `{}`: {}", h.log.last().cloned().unwrap_or_default(), msg), d);
        return false;
    }
    ctx.count("state_comparisons");
    for (aspect, msg) in check_views(&sides[i].ps) {
        let d = h.detail(i, &sides[i], json!({"problem": msg}));
        ctx.violation(&format!("C08:views:after-{}:{}", op, aspect), format!("after `{}`: {}", h.log.last().cloned().unwrap_or_default(), msg), d);
        return false;
    }
    ctx.count("views_checked");
    for _ in 0..n_probes {
        let k = ctx.rng.below(h.env.probes.len());
        let (w, req) = &h.env.probes[k];
        if !probe(ctx, h, i, &sides[i], op, w, req) {
            return false;
        }
    }
    // one request aimed at one of the policies the model says are in the set
    let exe = sides[i].m.executable(h.pools);
    if !exe.is_empty() {
        let k = ctx.rng.below(exe.len());
        if let Some((w, req)) = targeted_probe(&mut ctx.rng, h.env, &exe[k].1) {
            ctx.count("probes:targeted");
            if !probe(ctx, h, i, &sides[i], op, &w, &req) {
                return false;
            }
        }
    }
    // what get_linked_policies says about ids that are not templates is not judged, only recorded
    for id in IDS {
        if !sides[i].m.templates.contains_key(id) {
            let r = sides[i].ps.get_linked_policies(PolicyId::new(id)).is_ok();
            ctx.count(&format!("get_linked_policies:on-{}:{}", sides[i].m.kind(id), if r { "ok" } else { "err" }));
        }
    }
    true
}

fn probe(ctx: &mut CaseCtx, h: &Hist, i: usize, s: &Side, op: &str, w: &GWorld, req: &Request) -> bool {
    ctx.count("probes");
    match authz_disagreement(h.env, &s.ps, &s.m, h.pools, w, req) {
        Err(m) => {
            ctx.harness_error(m);
            false
        }
        Ok(None) => true,
        Ok(Some((aspect, msg))) => {
            let d = h.detail(i, s, json!({"problem": msg, "principal": format!("{:?}", w.principal), "action": format!("{:?}", w.action), "resource": format!("{:?}", w.resource),
                "entities": render::entities_json(w), "context": render::context_json(w)}));
            ctx.violation(&format!("C08:authz:after-{}:{}", op, aspect), format!("after `{}`, request ({:?}, {:?}, {:?}): {}", h.log.last().cloned().unwrap_or_default(), w.principal, w.action, w.resource, msg), d);
            false
        }
    }
}

/// expectation of an operation under the documented rules
enum Expect {
    Ok,
    Err(String),
}

fn record(ctx: &mut CaseCtx, h: &mut Hist, op: &str, exp: &Expect, ok: bool) {
    ctx.count(&format!("op:{}:{}", op, if ok { "ok" } else { "err" }));
    match exp {
        Expect::Ok => ctx.count(&format!("cell:{}:succeeds", op)),
        Expect::Err(r) => ctx.count(&format!("cell:{}:fails:{}", op, r)),
    }
    if ok {
        h.ok_ops += 1
    } else {
        h.failed_ops += 1
    }
}

/// true iff the result agrees with the expectation; reports otherwise
fn judge(ctx: &mut CaseCtx, h: &Hist, i: usize, s: &Side, op: &str, exp: &Expect, res: Result<(), String>) -> bool {
    match (exp, &res) {
        (Expect::Ok, Ok(())) | (Expect::Err(_), Err(_)) => true,
        (Expect::Ok, Err(e)) => {
            let d = h.detail(i, s, json!({"error": e}));
            ctx.violation(&format!("C08:{}:unexpected-err", op), format!("`{}` must succeed but failed: {}", h.log.last().cloned().unwrap_or_default(), e), d);
            false
        }
        (Expect::Err(why), Ok(())) => {
            let d = h.detail(i, s, json!({"must_fail_because": why}));
            ctx.violation(&format!("C08:{}:unexpected-ok:{}", op, why), format!("`{}` must fail ({}) but succeeded", h.log.last().cloned().unwrap_or_default(), why), d);
            false
        }
    }
}

fn history(ctx: &mut CaseCtx, env: &Env, pools: &Pools) -> Option<(String, usize, usize)> {
    let mut sides: [Side; 2] = [
        Side { ps: PolicySet::new(), m: Model::default(), snap: snapshot(&PolicySet::new()) },
        Side { ps: PolicySet::new(), m: Model::default(), snap: snapshot(&PolicySet::new()) },
    ];
    let mut h = Hist { env, pools, log: vec![], ok_ops: 0, failed_ops: 0 };
    let n_ops = 1 + ctx.rng.below(25);
    ctx.max("history_len", n_ops as u64);
    for _ in 0..n_ops {
        let i = if ctx.rng.chance(2, 3) { 0 } else { 1 };
        let mut kind = ctx.rng.weighted(&[16, 19, 30, 8, 8, 8, 9, 2]);
        let m = sides[i].m.clone();
        if kind == 2 && m.templates.is_empty() && ctx.rng.chance(2, 3) {
            kind = 1; // nothing to link yet: rather add a template
        }
        match kind {
            // ---------------------------------------------------------------- add
            0 => {
                let id = pick_id(&mut ctx.rng, free_ids(&m));
                let c = ctx.rng.below(pools.stats.len());
                let via_json = ctx.rng.chance(1, 3);
                let (p, text) = match build_static(&mut ctx.rng, &pools.stats[c], &id, via_json) {
                    Built::Ok(p, t) => (p, t),
                    Built::Failed(msg) => {
                        ctx.harness_error(msg);
                        return None;
                    }
                };
                h.log.push(format!("set{i}.add(id={id:?}, content=s{c}: {text})"));
                let exp = if m.obj(&id).is_some() { Expect::Err(format!("id-in-use-by-{}", m.kind(&id))) } else { Expect::Ok };
                let res = sides[i].ps.add(p).map_err(|e| e.to_string());
                let ok = res.is_ok();
                record(ctx, &mut h, "add", &exp, ok);
                if !judge(ctx, &h, i, &sides[i], "add", &exp, res) {
                    return None;
                }
                if ok {
                    sides[i].m.statics.insert(id, c);
                }
                if !after_op(ctx, &h, i, &mut sides, "add", ok, 2) {
                    return None;
                }
            }
            // ---------------------------------------------------------------- add_template
            1 => {
                let id = pick_id(&mut ctx.rng, free_ids(&m));
                let c = ctx.rng.below(pools.tpls.len());
                let via_json = ctx.rng.chance(1, 3);
                let (t, text) = match build_template(&mut ctx.rng, &pools.tpls[c], &id, via_json) {
                    Built::Ok(p, t) => (p, t),
                    Built::Failed(msg) => {
                        ctx.harness_error(msg);
                        return None;
                    }
                };
                h.log.push(format!("set{i}.add_template(id={id:?}, content=t{c}: {text})"));
                let exp = if m.obj(&id).is_some() { Expect::Err(format!("id-in-use-by-{}", m.kind(&id))) } else { Expect::Ok };
                let res = sides[i].ps.add_template(t).map_err(|e| e.to_string());
                let ok = res.is_ok();
                record(ctx, &mut h, "add_template", &exp, ok);
                if !judge(ctx, &h, i, &sides[i], "add_template", &exp, res) {
                    return None;
                }
                if ok {
                    sides[i].m.templates.insert(id, c);
                }
                if !after_op(ctx, &h, i, &mut sides, "add_template", ok, 1) {
                    return None;
                }
            }
            // ---------------------------------------------------------------- link
            2 => {
                let tids: Vec<String> = m.templates.keys().cloned().collect();
                let tid = if !tids.is_empty() && ctx.rng.chance(5, 6) { ctx.rng.pick_clone(&tids) } else { ctx.rng.pick(&IDS).to_string() };
                let id = pick_id(&mut ctx.rng, free_ids(&m));
                let tpl = m.templates.get(&tid).map(|c| &pools.tpls[*c]);
                let (have_p, have_r) = match tpl {
                    Some(t) if ctx.rng.chance(3, 4) => (t.has_slot(Slot::Principal), t.has_slot(Slot::Resource)),
                    _ => (ctx.rng.bool(), ctx.rng.bool()),
                };
                let pick = |rng: &mut Rng| if rng.chance(1, 8) { pools::uid(rng) } else { rng.pick_clone(&env.uids) };
                let bp = if have_p { Some(pick(&mut ctx.rng)) } else { None };
                let br = if have_r { Some(pick(&mut ctx.rng)) } else { None };
                h.log.push(format!("set{i}.link(template={tid:?}, new_id={id:?}, ?principal={bp:?}, ?resource={br:?})"));
                let exp = match tpl {
                    None => Expect::Err(format!("template-id-is-{}", m.kind(&tid))),
                    Some(t) => {
                        let class = binding_class(t, &bp, &br);
                        ctx.count(&format!("link-bindings:{}", class));
                        if class != "exact" {
                            Expect::Err(format!("bindings-{}", class))
                        } else if m.obj(&id).is_some() {
                            Expect::Err(format!("id-in-use-by-{}", m.kind(&id)))
                        } else {
                            Expect::Ok
                        }
                    }
                };
                let res = sides[i].ps.link(PolicyId::new(&tid), PolicyId::new(&id), bindings(&bp, &br)).map_err(|e| e.to_string());
                let ok = res.is_ok();
                record(ctx, &mut h, "link", &exp, ok);
                if !judge(ctx, &h, i, &sides[i], "link", &exp, res) {
                    return None;
                }
                if ok {
                    sides[i].m.links.insert(id, MLink { tid, p: bp, r: br });
                }
                if !after_op(ctx, &h, i, &mut sides, "link", ok, 2) {
                    return None;
                }
            }
            // ---------------------------------------------------------------- unlink
            3 => {
                let id = pick_id(&mut ctx.rng, m.links.keys().cloned().collect());
                h.log.push(format!("set{i}.unlink({id:?})"));
                let exp = if m.links.contains_key(&id) { Expect::Ok } else { Expect::Err(format!("id-is-{}", m.kind(&id))) };
                let res = sides[i].ps.unlink(PolicyId::new(&id));
                let ok = res.is_ok();
                record(ctx, &mut h, "unlink", &exp, ok);
                if let (Ok(p), Some(l)) = (&res, m.links.get(&id)) {
                    if p.id().to_string() != id || p.is_static() || p.template_id().map(|t| t.to_string()) != Some(l.tid.clone()) {
                        let d = h.detail(i, &sides[i], json!({"returned": format!("{:?}", pol_view(p))}));
                        ctx.violation("C08:unlink:returned-policy", format!("unlink({id:?}) returned policy {:?} (static={}, template {:?})", p.id().to_string(), p.is_static(), p.template_id().map(|t| t.to_string())), d);
                        return None;
                    }
                }
                if !judge(ctx, &h, i, &sides[i], "unlink", &exp, res.map(|_| ()).map_err(|e| e.to_string())) {
                    return None;
                }
                if ok {
                    sides[i].m.links.remove(&id);
                }
                if !after_op(ctx, &h, i, &mut sides, "unlink", ok, 2) {
                    return None;
                }
            }
            // ---------------------------------------------------------------- remove_static
            4 => {
                let id = pick_id(&mut ctx.rng, m.statics.keys().cloned().collect());
                h.log.push(format!("set{i}.remove_static({id:?})"));
                let exp = if m.statics.contains_key(&id) { Expect::Ok } else { Expect::Err(format!("id-is-{}", m.kind(&id))) };
                let res = sides[i].ps.remove_static(PolicyId::new(&id));
                let ok = res.is_ok();
                record(ctx, &mut h, "remove_static", &exp, ok);
                if let Ok(p) = &res {
                    if p.id().to_string() != id || !p.is_static() {
                        let d = h.detail(i, &sides[i], json!({"returned": format!("{:?}", pol_view(p))}));
                        ctx.violation("C08:remove_static:returned-policy", format!("remove_static({id:?}) returned policy {:?} (static={})", p.id().to_string(), p.is_static()), d);
                        return None;
                    }
                }
                if !judge(ctx, &h, i, &sides[i], "remove_static", &exp, res.map(|_| ()).map_err(|e| e.to_string())) {
                    return None;
                }
                if ok {
                    sides[i].m.statics.remove(&id);
                }
                if !after_op(ctx, &h, i, &mut sides, "remove_static", ok, 2) {
                    return None;
                }
            }
            // ---------------------------------------------------------------- remove_template
            5 => {
                let id = pick_id(&mut ctx.rng, m.templates.keys().cloned().collect());
                h.log.push(format!("set{i}.remove_template({id:?})"));
                let exp = if !m.templates.contains_key(&id) {
                    Expect::Err(format!("id-is-{}", m.kind(&id)))
                } else if !m.links_of(&id).is_empty() {
                    Expect::Err("template-has-links".into())
                } else {
                    Expect::Ok
                };
                let res = sides[i].ps.remove_template(PolicyId::new(&id));
                let ok = res.is_ok();
                record(ctx, &mut h, "remove_template", &exp, ok);
                if let Ok(t) = &res {
                    if t.id().to_string() != id {
                        let d = h.detail(i, &sides[i], json!({}));
                        ctx.violation("C08:remove_template:returned-template", format!("remove_template({id:?}) returned template {:?}", t.id().to_string()), d);
                        return None;
                    }
                }
                if !judge(ctx, &h, i, &sides[i], "remove_template", &exp, res.map(|_| ()).map_err(|e| e.to_string())) {
                    return None;
                }
                if ok {
                    sides[i].m.templates.remove(&id);
                }
                if !after_op(ctx, &h, i, &mut sides, "remove_template", ok, 1) {
                    return None;
                }
            }
            // ---------------------------------------------------------------- merge
            6 => {
                let rename = ctx.rng.bool();
                let with_self = ctx.rng.chance(1, 10);
                let (other_ps, other_m) = if with_self { (sides[i].ps.clone(), sides[i].m.clone()) } else { (sides[1 - i].ps.clone(), sides[1 - i].m.clone()) };
                h.log.push(format!("set{i}.merge({}, rename_duplicates={rename}) where the other set is {:?}", if with_self { "a clone of itself".to_string() } else { format!("set{}", 1 - i) }, other_m));
                let cl = classify_merge(&m, &other_m);
                let case = if cl.clash > 0 {
                    "different-content-or-kind"
                } else if cl.same > 0 {
                    "same-content-only"
                } else {
                    "disjoint"
                };
                let res = sides[i].ps.merge(&other_ps, rename);
                let ok = res.is_ok();
                ctx.count(&format!("op:merge:{}", if ok { "ok" } else { "err" }));
                ctx.count(&format!("cell:merge:{}:rename={}:{}", case, rename, if ok { "ok" } else { "err" }));
                if ok {
                    h.ok_ops += 1
                } else {
                    h.failed_ops += 1
                }
                // judged cases
                let verdict: Option<String> = match (&res, case, rename) {
                    (Err(e), "disjoint", _) => Some(format!("merge of sets with disjoint ids must succeed, failed: {e}")),
                    (Err(e), "different-content-or-kind", true) => Some(format!("merge with rename_duplicates=true must rename the conflicting ids, failed: {e}")),
                    (Ok(_), "different-content-or-kind", false) => Some("merge without renaming must fail: an id is used for different things in the two sets".to_string()),
                    _ => None,
                };
                if let Some(msg) = verdict {
                    let d = h.detail(i, &sides[i], json!({"other": format!("{:?}", other_m), "classification": format!("{:?}", cl)}));
                    ctx.violation(&format!("C08:merge:{}:rename={}:{}", case, rename, if ok { "unexpected-ok" } else { "unexpected-err" }), format!("`{}`: {}", h.log.last().cloned().unwrap_or_default(), msg), d);
                    return None;
                }
                if let Ok(r) = &res {
                    let rmap: BTreeMap<String, String> = r.iter().map(|(k, v)| (k.to_string(), v.to_string())).collect();
                    if rmap.is_empty() {
                        ctx.count("merge:without-renaming");
                    } else {
                        ctx.count("merge:with-renaming");
                        ctx.add("merge:renamed-ids", rmap.len() as u64);
                    }
                    let ids_m = m.ids();
                    let ids_o = other_m.ids();
                    let mut problem: Option<(&str, String)> = None;
                    let vals: BTreeSet<&String> = rmap.values().collect();
                    if !rename && !rmap.is_empty() {
                        problem = Some(("renaming-without-permission", format!("rename_duplicates=false but ids were renamed: {rmap:?}")));
                    } else if case == "disjoint" && !rmap.is_empty() {
                        problem = Some(("renaming-without-conflict", format!("the sets share no id but ids were renamed: {rmap:?}")));
                    } else if let Some(k) = rmap.keys().find(|k| !ids_o.contains(*k)) {
                        problem = Some(("renaming-foreign-id", format!("renaming {rmap:?} renames {k:?}, which is not an id of the merged-in set")));
                    } else if vals.len() != rmap.len() {
                        problem = Some(("renaming-not-injective", format!("renaming {rmap:?} maps two ids to the same name")));
                    } else if let Some(v) = rmap.values().find(|v| ids_m.contains(*v) || ids_o.contains(*v)) {
                        problem = Some(("renaming-not-fresh", format!("renaming {rmap:?} uses {v:?}, which is an id of one of the inputs")));
                    }
                    if problem.is_none() {
                        if rmap.keys().any(|k| !ids_m.contains(k)) {
                            ctx.count("merge:renamed-nonconflicting-id");
                        }
                        match apply_merge(&m, &other_m, &rmap) {
                            Ok(nm) => sides[i].m = nm,
                            Err(msg) => problem = Some(("conflict-not-renamed", msg)),
                        }
                    }
                    if let Some((aspect, msg)) = problem {
                        let d = h.detail(i, &sides[i], json!({"other": format!("{:?}", other_m), "renaming": rmap}));
                        ctx.violation(&format!("C08:merge:{}", aspect), format!("`{}`: {}", h.log.last().cloned().unwrap_or_default(), msg), d);
                        return None;
                    }
                    if let Some(last) = h.log.last_mut() {
                        last.push_str(&format!(" -> Ok, renaming {rmap:?}"));
                    }
                }
                if !after_op(ctx, &h, i, &mut sides, "merge", ok, 3) {
                    return None;
                }
            }
            // ---------------------------------------------------------------- add(<a template-linked policy>)
            _ => {
                // take a link from either set and try to `add` it: documented to fail and not to modify the set
                let donor = if !sides[i].m.links.is_empty() {
                    Some(i)
                } else if !sides[1 - i].m.links.is_empty() {
                    Some(1 - i)
                } else {
                    None
                };
                let Some(dn) = donor else {
                    ctx.count("op:add_linked:skipped-no-link");
                    continue;
                };
                let lid = ctx.rng.pick_clone(&sides[dn].m.links.keys().cloned().collect::<Vec<_>>());
                let Some(lp) = sides[dn].ps.policy(&PolicyId::new(&lid)).cloned() else {
                    continue;
                };
                h.log.push(format!("set{i}.add(<the template-linked policy {lid:?} of set{dn}>)"));
                let exp = Expect::Err("policy-is-a-link".into());
                let res = sides[i].ps.add(lp).map_err(|e| e.to_string());
                let ok = res.is_ok();
                record(ctx, &mut h, "add_linked", &exp, ok);
                if !judge(ctx, &h, i, &sides[i], "add_linked", &exp, res) {
                    return None;
                }
                if !after_op(ctx, &h, i, &mut sides, "add_linked", ok, 1) {
                    return None;
                }
            }
        }
    }
    // ---- final state: every probe, and one probe aimed at every executable policy
    for i in 0..2 {
        for k in 0..env.probes.len() {
            let (w, req) = &env.probes[k];
            if !probe(ctx, &h, i, &sides[i], "history", w, req) {
                return None;
            }
        }
        for (_, subst, _, _) in sides[i].m.executable(pools) {
            if let Some((w, req)) = targeted_probe(&mut ctx.rng, env, &subst) {
                ctx.count("probes:targeted");
                if !probe(ctx, &h, i, &sides[i], "history", &w, &req) {
                    return None;
                }
            }
        }
        ctx.max("policies_in_final_set", (sides[i].m.statics.len() + sides[i].m.links.len()) as u64);
        ctx.max("templates_in_final_set", sides[i].m.templates.len() as u64);
    }
    Some((h.log.join("\n"), h.ok_ops, h.failed_ops))
}

pub fn case(ctx: &mut CaseCtx) {
    let Some(env) = make_env(ctx) else { return };
    // ---- part (a)
    let Some(focus) = link_focus(ctx, &env) else { return };
    // ---- part (b)
    let Some(tpls) = gen_pool(ctx, &env, 3, true) else { return };
    let Some(stats) = gen_pool(ctx, &env, 3, false) else { return };
    let pools = Pools { tpls, stats };
    let Some((log, ok_ops, failed_ops)) = history(ctx, &env, &pools) else { return };
    ctx.add("ops_succeeded", ok_ops as u64);
    ctx.add("ops_failed", failed_ops as u64);
    if ok_ops >= 3 && failed_ops >= 1 {
        ctx.count("histories_nontrivial");
        ctx.nontrivial(&format!("{}|{:?}|{:?}|{}", log, pools.tpls, pools.stats, focus));
    }
    ctx.sample(|| json!({"history": log, "ops_succeeded": ok_ops, "ops_failed": failed_ops, "entities": env.w0.entities.len(), "probes": env.probes.len()}));
}
