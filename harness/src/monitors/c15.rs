//! C15 — batched (loader-driven) authorization equals ordinary authorization.
//!
//! Per case: generated schema, one request environment, 1–4 strictly valid
//! type-directed policies (attribute chains of length 0–4 through entities,
//! `in`, `has`, tags, record/set literals that carry entity dereferences), a
//! conformant world in which some of the mentioned entities do not exist, and one
//! loader variant.  For EVERY budget k in 0..=n+1 (n = number of distinct entity
//! uids occurring in store ∪ request ∪ policies) `PolicySet::is_authorized_batched`
//! is run with the monitor's own loader, which serves a `cedar_policy::Entities`
//! and logs every call.
//!
//! Oracle: `Authorizer::is_authorized` over the same store, plus offline checks
//! of the loader's call log:
//!   * `Ok(d)`            => d is the ordinary decision;
//!   * `Ok` at budget k   => the same `Ok` at every k' > k;
//!   * any error other than "insufficient iterations" is a violation;
//!   * budget n+1 (> n) yields a decision;
//!   * the loader is called at most k times and is never asked again for a uid it
//!     already answered.
//!
//! The loader is a deterministic function of (case, iteration number, requested
//! set, what it delivered before), never of the budget, so runs with different
//! budgets talk to "the same loader".

use crate::bridge;
use crate::model::*;
use crate::monitors::c03::{entities_with_schema, load_schema};
use crate::render::{self, TextOpts};
use crate::report::CaseCtx;
use crate::rng::{self, Rng};
use crate::schema::*;
use cedar_policy::{Authorizer, Decision, Entities, Entity, EntityLoader, EntityUid, Policy, PolicyId, PolicySet, ValidationMode, Validator};
use cedar_policy_core::batched_evaluator::err::BatchedEvalError;
use cedar_policy_core::tpe::err::EntitiesError;
use serde_json::{json, Value as J};
use std::collections::{BTreeSet, HashMap, HashSet};

pub const KNOWN_REDELIVERY: &str = "C15:loader-redelivery:duplicate-entity";

// ===================================================================== the monitor's own loader

#[derive(Clone, Copy, Debug, PartialEq, Eq)]
enum Variant {
    /// answers exactly the requested uids: `Some(entity)` / `None` when the store has no such entity
    Exact,
    /// additionally volunteers stored entities it has not delivered yet
    SupersetFresh,
    /// additionally volunteers uids it has not answered yet, including absent ones as `None`
    AbsentNone,
    /// additionally volunteers anything, including what it delivered in earlier iterations
    SupersetRepeat,
}

impl Variant {
    fn name(self) -> &'static str {
        match self {
            Variant::Exact => "exact",
            Variant::SupersetFresh => "superset-fresh",
            Variant::AbsentNone => "absent-as-none",
            Variant::SupersetRepeat => "superset-repeat",
        }
    }
}

#[derive(Clone, Debug)]
struct Call {
    iteration: usize,
    requested: BTreeSet<Uid>,
    /// (uid, delivered as Some?)
    returned: Vec<(Uid, bool)>,
    /// extras that had already been delivered in an earlier iteration
    redelivered: Vec<Uid>,
}

struct MonLoader<'a> {
    store: &'a Entities,
    /// every uid of store ∪ request ∪ policies, in a fixed order
    universe: &'a [(Uid, EntityUid)],
    variant: Variant,
    salt: u64,
    delivered: HashSet<EntityUid>,
    log: Vec<Call>,
}

impl<'a> MonLoader<'a> {
    fn new(store: &'a Entities, universe: &'a [(Uid, EntityUid)], variant: Variant, salt: u64) -> Self {
        MonLoader { store, universe, variant, salt, delivered: HashSet::new(), log: vec![] }
    }
    fn coin(&self, iteration: usize, idx: usize, num: u64, den: u64) -> bool {
        rng::mix(rng::mix(self.salt, iteration as u64), idx as u64) % den < num
    }
}

impl EntityLoader for MonLoader<'_> {
    fn load_entities(&mut self, uids: &HashSet<EntityUid>) -> HashMap<EntityUid, Option<Entity>> {
        let iteration = self.log.len() + 1;
        let mut out: HashMap<EntityUid, Option<Entity>> = HashMap::new();
        for u in uids {
            out.insert(u.clone(), self.store.get(u).cloned());
        }
        let mut redelivered = vec![];
        if self.variant != Variant::Exact {
            for (idx, (gu, u)) in self.universe.iter().enumerate() {
                if uids.contains(u) || !self.coin(iteration, idx, 1, 4) {
                    continue;
                }
                let seen = self.delivered.contains(u);
                let stored = self.store.get(u);
                let take = match self.variant {
                    Variant::Exact => false,
                    Variant::SupersetFresh => !seen && stored.is_some(),
                    Variant::AbsentNone => !seen,
                    Variant::SupersetRepeat => true,
                };
                if take {
                    if seen {
                        redelivered.push(gu.clone());
                    }
                    out.insert(u.clone(), stored.cloned());
                }
            }
        }
        let mut returned: Vec<(Uid, bool)> = out.iter().map(|(u, e)| (bridge::uid_back(u), e.is_some())).collect();
        returned.sort();
        self.log.push(Call { iteration, requested: uids.iter().map(bridge::uid_back).collect(), returned, redelivered });
        self.delivered.extend(out.keys().cloned());
        out
    }
}

fn log_json(log: &[Call]) -> J {
    let u = |u: &Uid| format!("{}::{:?}", u.ty, u.id);
    J::Array(
        log.iter()
            .map(|c| {
                json!({
                    "iteration": c.iteration,
                    "requested": c.requested.iter().map(u).collect::<Vec<_>>(),
                    "returned": c.returned.iter().map(|(x, some)| format!("{} => {}", u(x), if *some { "Some" } else { "None" })).collect::<Vec<_>>(),
                    "redelivered": c.redelivered.iter().map(u).collect::<Vec<_>>(),
                })
            })
            .collect(),
    )
}

// ===================================================================== generation

fn chain_len(e: &GExpr) -> usize {
    match e {
        GExpr::Attr(a, _) => 1 + chain_len(a),
        GExpr::Bin(BinOp::GetTag, a, _) => 1 + chain_len(a),
        _ => 0,
    }
}

/// longest access chain that passes through at least one entity dereference, anywhere in `e`
fn max_chain(e: &GExpr) -> usize {
    let mut m = chain_len(e);
    e.for_children(|c| m = m.max(max_chain(c)));
    m
}

/// access paths from principal / resource / context of length <= max_len (schema.rs keeps its own
/// enumeration private and stops at 3)
fn enumerate_paths(schema: &GSchema, env: &Env, max_len: usize) -> Vec<Path> {
    let mut out: Vec<Path> = vec![
        Path { expr: GExpr::Var(Var::Principal), ty: GType::Ent(env.principal_ty.clone()), guards: vec![] },
        Path { expr: GExpr::Var(Var::Resource), ty: GType::Ent(env.resource_ty.clone()), guards: vec![] },
        Path { expr: GExpr::Var(Var::Context), ty: GType::Rec(env.context.clone()), guards: vec![] },
    ];
    let mut frontier = out.clone();
    for _ in 0..max_len {
        let mut next = vec![];
        for p in &frontier {
            let attrs: Vec<GAttr> = match schema.resolve(&p.ty) {
                GType::Ent(n) => {
                    let et = schema.entity_type(n);
                    if let Some(et) = et {
                        if let Some(tt) = &et.tags {
                            for k in TAG_KEYS {
                                let mut guards = p.guards.clone();
                                guards.push(GExpr::bin(BinOp::HasTag, p.expr.clone(), GExpr::Str(k.into())));
                                next.push(Path { expr: GExpr::bin(BinOp::GetTag, p.expr.clone(), GExpr::Str(k.into())), ty: tt.clone(), guards });
                            }
                        }
                    }
                    et.map(|e| e.attrs.clone()).unwrap_or_default()
                }
                GType::Rec(attrs) => attrs.clone(),
                _ => vec![],
            };
            for a in attrs {
                let mut guards = p.guards.clone();
                if !a.required {
                    guards.push(GExpr::Has(p.expr.clone().b(), vec![a.name.clone()]));
                }
                next.push(Path { expr: GExpr::Attr(p.expr.clone().b(), a.name.clone()), ty: a.ty.clone(), guards });
            }
        }
        out.extend(next.iter().cloned());
        frontier = next;
        if out.len() > 600 {
            break;
        }
    }
    out
}

/// Give most ordinary entity types an entity-typed attribute (and sometimes a set of entities), so
/// that chains which need one loader round per hop exist in most schemas.
fn deepen(gs: &mut GSchema, rng: &mut Rng) {
    let ordinary: Vec<String> = gs.entity_types.iter().filter(|e| e.enum_ids.is_none()).map(|e| e.name.clone()).collect();
    if ordinary.is_empty() {
        return;
    }
    for et in gs.entity_types.iter_mut().filter(|e| e.enum_ids.is_none()) {
        if rng.chance(3, 4) {
            let name = rng.pick(&["next", "owner", "parent"]).to_string();
            if !et.attrs.iter().any(|a| a.name == name) {
                et.attrs.push(GAttr { name, ty: GType::Ent(rng.pick_clone(&ordinary)), required: rng.bool() });
            }
        }
        if rng.chance(1, 4) && !et.attrs.iter().any(|a| a.name == "peers") {
            et.attrs.push(GAttr { name: "peers".into(), ty: GType::Set(Box::new(GType::Ent(rng.pick_clone(&ordinary)))), required: rng.bool() });
        }
    }
}

fn wrap(guards: Vec<GExpr>, body: GExpr) -> GExpr {
    let mut e = body;
    for g in guards.into_iter().rev() {
        e = GExpr::and(g, e);
    }
    e
}

fn add_guards(dst: &mut Vec<GExpr>, src: &[GExpr]) {
    for g in src {
        if !dst.contains(g) {
            dst.push(g.clone());
        }
    }
}

/// an entity-typed access path, longer chains preferred
fn entity_path(g: &mut TypedGen) -> Option<Path> {
    let cands: Vec<(usize, usize)> = g
        .paths
        .iter()
        .enumerate()
        .filter(|(_, p)| matches!(g.schema.resolve(&p.ty), GType::Ent(_)))
        .map(|(i, p)| (i, chain_len(&p.expr)))
        .collect();
    if cands.is_empty() {
        return None;
    }
    let ws: Vec<u32> = cands.iter().map(|(_, l)| 1 + 2 * (*l as u32)).collect();
    let k = g.rng.weighted(&ws);
    Some(g.paths[cands[k].0].clone())
}

fn ent_type_of(g: &TypedGen, t: &GType) -> String {
    match g.schema.resolve(t) {
        GType::Ent(n) => n.clone(),
        _ => String::new(),
    }
}

/// conditions whose residuals keep entity uids in the places `all_literal_uids` has to look at
fn chain_cond(g: &mut TypedGen, depth: usize) -> GExpr {
    let p = match entity_path(g) {
        Some(p) => p,
        None => return g.bool_expr(depth),
    };
    let pty = ent_type_of(g, &p.ty);
    let et = g.schema.entity_type(&pty).cloned();
    let mut guards: Vec<GExpr> = vec![];
    add_guards(&mut guards, &p.guards);
    let d = depth.saturating_sub(1);
    let body = match g.rng.below(10) {
        // a record literal with a field that still needs loading, next to a literal field
        0 | 1 => {
            let q = g.of_type(&GType::Ent(pty.clone()), d, &mut guards);
            let other_ty = GType::Ent(g.schema.entity_types[g.rng.below(g.schema.entity_types.len())].name.clone());
            let lit = g.of_type(&other_ty, 0, &mut guards);
            let rec = GExpr::Rec(vec![("f".into(), p.expr.clone()), ("g".into(), lit)]);
            GExpr::eq(GExpr::attr(rec, "f"), q)
        }
        // dereference through a record literal: { f: <path>, g: <entity> }.g has a / .g.a == ..
        2 => {
            let q = g.of_type(&GType::Ent(pty.clone()), d, &mut guards);
            let rec = GExpr::Rec(vec![("f".into(), p.expr.clone()), ("g".into(), q)]);
            match et.as_ref().and_then(|e| if e.attrs.is_empty() { None } else { Some(e.attrs[g.rng.below(e.attrs.len())].clone()) }) {
                Some(a) => GExpr::Has(GExpr::attr(rec, "g").b(), vec![a.name]),
                None => GExpr::bin(BinOp::In, GExpr::attr(rec, "g"), p.expr.clone()),
            }
        }
        // set literals with elements that still need loading
        3 | 4 => {
            let q = g.of_type(&GType::Ent(pty.clone()), d, &mut guards);
            let r = g.of_type(&GType::Ent(pty.clone()), d, &mut guards);
            if g.rng.bool() {
                GExpr::bin(BinOp::Contains, GExpr::Set(vec![p.expr.clone(), q]), r)
            } else {
                GExpr::bin(BinOp::In, r, GExpr::Set(vec![p.expr.clone(), q]))
            }
        }
        // membership of the end of a chain
        5 | 6 => {
            let tys: Vec<String> = g.schema.entity_types.iter().map(|e| e.name.clone()).filter(|t| *t == pty || g.schema.type_can_descend(&pty, t)).collect();
            let t = if tys.is_empty() { pty.clone() } else { g.rng.pick_clone(&tys) };
            let q = g.of_type(&GType::Ent(t), d, &mut guards);
            GExpr::bin(BinOp::In, p.expr.clone(), q)
        }
        // has / hasTag at the end of a chain
        7 => match et.as_ref() {
            Some(e) if e.tags.is_some() && g.rng.bool() => GExpr::bin(BinOp::HasTag, p.expr.clone(), GExpr::Str(g.rng.pick(&TAG_KEYS).to_string())),
            Some(e) if !e.attrs.is_empty() => GExpr::Has(p.expr.clone().b(), vec![e.attrs[g.rng.below(e.attrs.len())].name.clone()]),
            _ => GExpr::eq(p.expr.clone(), g.of_type(&GType::Ent(pty.clone()), 0, &mut guards)),
        },
        // if-then-else choosing between two entities, then dereferenced
        8 => {
            let c = g.bool_expr(d);
            let q = g.of_type(&GType::Ent(pty.clone()), d, &mut guards);
            let ite = GExpr::ite(c, p.expr.clone(), q);
            match et.as_ref().and_then(|e| e.attrs.iter().find(|a| a.required).cloned()) {
                Some(a) => {
                    let rhs = g.of_type(&a.ty, 0, &mut guards);
                    GExpr::eq(GExpr::attr(ite, &a.name), rhs)
                }
                None => GExpr::bin(BinOp::In, ite, p.expr.clone()),
            }
        }
        // equality of two chain ends
        _ => {
            let q = g.of_type(&GType::Ent(pty.clone()), d, &mut guards);
            GExpr::bin(if g.rng.chance(3, 4) { BinOp::Eq } else { BinOp::Neq }, p.expr.clone(), q)
        }
    };
    wrap(guards, body)
}

fn expr_uids(e: &GExpr, out: &mut BTreeSet<Uid>) {
    if let GExpr::Ent(u) = e {
        out.insert(u.clone());
    }
    e.for_children(|c| expr_uids(c, out));
}

fn policy_uids(p: &GPolicy, out: &mut BTreeSet<Uid>) {
    expr_uids(&p.condition(), out);
}

fn world_uids(w: &GWorld, out: &mut BTreeSet<Uid>) {
    out.insert(w.principal.clone());
    out.insert(w.action.clone());
    out.insert(w.resource.clone());
    for v in w.context.values() {
        v.uids(out);
    }
    for (u, e) in &w.entities {
        out.insert(u.clone());
        out.extend(e.parents.iter().cloned());
        for v in e.attrs.values().chain(e.tags.values()) {
            v.uids(out);
        }
    }
}

// ===================================================================== one run

#[derive(Clone, Debug, PartialEq, Eq)]
enum Res {
    Ok(Decision),
    Insufficient,
    Err { kind: String, msg: String, duplicate: bool },
}

impl Res {
    fn show(&self) -> String {
        match self {
            Res::Ok(d) => format!("Ok({:?})", d),
            Res::Insufficient => "Err(insufficient iterations)".into(),
            Res::Err { kind, msg, .. } => format!("Err({}: {})", kind, msg),
        }
    }
}

fn err_kind(e: &BatchedEvalError) -> String {
    let s = format!("{:?}", e);
    let outer: String = s.chars().take_while(|c| c.is_alphanumeric()).collect();
    let inner: String = s.chars().skip(outer.len() + 1).take_while(|c| c.is_alphanumeric()).collect();
    if inner.is_empty() {
        outer
    } else {
        format!("{outer}:{inner}")
    }
}

fn bucket(n: usize, cap: usize) -> String {
    if n >= cap {
        format!("{cap}+")
    } else {
        n.to_string()
    }
}

pub fn case(ctx: &mut CaseCtx) {
    // ---------------------------------------------------------------- schema, environment, policies
    let mut gs = gen_schema(&mut ctx.rng, &SchemaOpts::default());
    deepen(&mut gs, &mut ctx.rng);
    let schema = match load_schema(ctx, &gs) {
        Some(s) => s,
        None => return,
    };
    let envs = gs.envs();
    if envs.is_empty() {
        ctx.count("no_envs");
        return;
    }
    let env = ctx.rng.pick_clone(&envs);
    let wg = WorldGen::new(&mut ctx.rng, &gs);
    let paths = enumerate_paths(&gs, &env, 4);
    let validator = Validator::new(schema.clone());
    let want = 1 + ctx.rng.below(4);
    let mut gpols: Vec<GPolicy> = vec![];
    let mut texts: Vec<String> = vec![];
    let mut pset = PolicySet::new();
    for _attempt in 0..want * 3 {
        if gpols.len() >= want {
            break;
        }
        let depth = 1 + ctx.rng.below(3);
        let pol = {
            let mut g = TypedGen::new(&mut ctx.rng, &gs, &env, &wg.pools);
            g.paths = paths.clone();
            let mut p = typed_policy(&mut g, depth);
            // scopes that pin a single uid rarely match; mostly keep the request in scope so that the
            // conditions decide
            if g.rng.chance(2, 3) {
                if matches!(p.principal, ScopePR::Eq(_)) {
                    p.principal = ScopePR::Is(env.principal_ty.clone());
                }
                if matches!(p.resource, ScopePR::Eq(_)) {
                    p.resource = ScopePR::Is(env.resource_ty.clone());
                }
            }
            // C15-specific conditions: replace or add
            let n_extra = g.rng.below(3);
            if n_extra > 0 && g.rng.chance(1, 2) {
                p.conds.clear();
            }
            for _ in 0..n_extra {
                let c = chain_cond(&mut g, depth);
                p.conds.push((g.rng.chance(3, 5), c));
            }
            p
        };
        let text = render::policy_text(&pol, &mut TextOpts::plain(&mut ctx.rng));
        let id = PolicyId::new(format!("p{}", gpols.len()));
        let policy = match Policy::parse(Some(id), &text) {
            Ok(p) => p,
            Err(e) => {
                ctx.harness_error(format!("generated policy does not parse: {text}: {e}"));
                continue;
            }
        };
        let mut single = PolicySet::new();
        single.add(policy.clone()).expect("add");
        if !validator.validate(&single, ValidationMode::Strict).validation_passed() {
            ctx.count("policy:strict-rejected");
            continue;
        }
        ctx.count("policy:strict-accepted");
        pset.add(policy).expect("add");
        gpols.push(pol);
        texts.push(text);
    }
    if gpols.is_empty() {
        ctx.count("no_valid_policy");
        return;
    }
    if !validator.validate(&pset, ValidationMode::Strict).validation_passed() {
        // every member passed alone, so this would be a surprise worth seeing
        ctx.harness_error(format!("policy set rejected although every member is accepted: {:?}", texts));
        return;
    }
    ctx.count(&format!("policies_per_case:{}", gpols.len()));
    let chain = gpols.iter().map(|p| max_chain(&p.condition())).max().unwrap_or(0);
    ctx.count(&format!("max_chain_len:{}", bucket(chain, 5)));

    // ---------------------------------------------------------------- world
    let mut picked = None;
    for _ in 0..4 {
        let w = wg.world(&mut ctx.rng, &env);
        let req = match bridge::request(&w, Some(&schema)) {
            Ok(r) => r,
            Err(e) => {
                ctx.count("world_rejected:request");
                if ctx.verbose {
                    eprintln!("request rejected: {e}");
                }
                continue;
            }
        };
        let ents = match entities_with_schema(&w, &gs, &schema) {
            Ok(e) => e,
            Err(e) => {
                ctx.count("world_rejected:entities");
                if ctx.verbose {
                    eprintln!("entities rejected: {e}");
                }
                continue;
            }
        };
        picked = Some((w, req, ents));
        break;
    }
    let (w, req, ents) = match picked {
        Some(x) => x,
        None => {
            ctx.count("no_accepted_world");
            return;
        }
    };

    // n = number of distinct uids in store ∪ request ∪ policies
    let mut uset: BTreeSet<Uid> = BTreeSet::new();
    world_uids(&w, &mut uset);
    for p in &gpols {
        policy_uids(p, &mut uset);
    }
    for e in ents.iter() {
        uset.insert(bridge::uid_back(&e.uid()));
    }
    let universe: Vec<(Uid, EntityUid)> = uset.iter().map(|u| (u.clone(), bridge::uid(u))).collect();
    let n = universe.len();
    ctx.max("n", n as u64);
    let absent_in_universe = universe.iter().filter(|(_, u)| ents.get(u).is_none()).count();
    ctx.count(&format!("absent_uids_in_universe:{}", bucket(absent_in_universe, 6)));

    let variant = match ctx.rng.below(20) {
        0..=6 => Variant::Exact,
        7..=11 => Variant::SupersetFresh,
        12..=15 => Variant::AbsentNone,
        _ => Variant::SupersetRepeat,
    };
    ctx.count(&format!("variant:{}", variant.name()));
    let salt = ctx.rng.next_u64();

    // ---------------------------------------------------------------- oracle
    let ordinary = Authorizer::new().is_authorized(&req, &pset, &ents);
    let expected = ordinary.decision();
    ctx.count(&format!("ordinary:{:?}", expected));
    if ordinary.diagnostics().errors().count() > 0 {
        ctx.count("ordinary:with-erroring-policy");
    }

    let st = PrintStyle { unqualified: false, loose_json: false };
    let detail = |budget: Option<usize>, log: &[Call], results: &[Res], extra: J| {
        json!({
            "schema": gs.to_cedar(&st),
            "policies": texts,
            "principal": format!("{}::{:?}", w.principal.ty, w.principal.id),
            "action": format!("{}::{:?}", w.action.ty, w.action.id),
            "resource": format!("{}::{:?}", w.resource.ty, w.resource.id),
            "context": render::context_json(&w),
            "entities": render::entities_json(&w),
            "loader": variant.name(),
            "n_distinct_uids": n,
            "budget": budget,
            "loader_log": log_json(log),
            "results_by_budget": results.iter().map(|r| r.show()).collect::<Vec<_>>(),
            "ordinary_decision": format!("{:?}", expected),
            "extra": extra,
        })
    };
    let summary = format!("policies {:?}, request ({}::{:?}, {}::{:?}, {}::{:?}), loader {}", texts, w.principal.ty, w.principal.id, w.action.ty, w.action.id, w.resource.ty, w.resource.id, variant.name());
    if ctx.verbose {
        eprintln!("schema:\n{}", gs.to_cedar(&st));
        eprintln!("{summary}");
        eprintln!("entities: {}", render::entities_json(&w));
        eprintln!("context: {}", render::context_json(&w));
        eprintln!("n = {n}, ordinary decision = {:?}", expected);
    }

    // ---------------------------------------------------------------- every budget 0..=n+1
    let base_hash = rng::hash_str(&format!("{:?}|{:?}|{:?}|{:?}|{:?}", gs, gpols, env, w, variant));
    let mut results: Vec<Res> = vec![];
    let mut first_ok: Option<(usize, Decision)> = None;
    let mut fired: BTreeSet<&'static str> = BTreeSet::new();
    let mut known_hit = false;
    let mut calls_at_last = 0usize;
    for k in 0..=n + 1 {
        let mut loader = MonLoader::new(&ents, &universe, variant, salt);
        let r = pset.is_authorized_batched(&req, &schema, &mut loader, k as u32);
        let log = std::mem::take(&mut loader.log);
        let res = match &r {
            Ok(d) => Res::Ok(*d),
            Err(BatchedEvalError::InsufficientIterations(_)) => Res::Insufficient,
            Err(e) => Res::Err { kind: err_kind(e), msg: bridge::err_chain(e), duplicate: matches!(e, BatchedEvalError::Entities(EntitiesError::Duplicate(_))) },
        };
        results.push(res.clone());
        let calls = log.len();
        calls_at_last = calls;
        ctx.count("runs");
        ctx.count(&format!("cell:budget={}|calls={}", bucket(k, 12), calls));
        ctx.max("loader_calls", calls as u64);
        // (the loop calls the loader once even when nothing is left to load, with an empty request;
        // only calls that ask for something make a run non-trivial)
        let asking_calls = log.iter().filter(|c| !c.requested.is_empty()).count();
        if calls >= 1 {
            ctx.count("runs_with_loader_call");
        }
        if asking_calls >= 1 {
            ctx.count("runs_with_nonempty_loader_call");
            ctx.nontrivial(&format!("{:016x}|{}", base_hash, k));
        }
        if k == n + 1 {
            ctx.count(&format!("asking_calls_at_budget_n+1:{}", bucket(asking_calls, 8)));
        }
        for c in &log {
            ctx.add("log:uids_requested", c.requested.len() as u64);
            ctx.add("log:answered_none", c.returned.iter().filter(|(u, some)| !some && c.requested.contains(u)).count() as u64);
            ctx.add("log:extras_delivered", c.returned.iter().filter(|(u, _)| !c.requested.contains(u)).count() as u64);
            ctx.add("log:extras_none", c.returned.iter().filter(|(u, some)| !some && !c.requested.contains(u)).count() as u64);
            ctx.add("log:redeliveries", c.redelivered.len() as u64);
            if c.requested.is_empty() {
                ctx.count("log:empty_request");
            }
            if c.requested.iter().any(|u| !uset.contains(u)) {
                ctx.count("log:requested-uid-outside-universe");
            }
        }
        if ctx.verbose {
            // (the run with budget k+1 repeats the first k calls of the run with budget k: print only the last call)
            eprintln!("budget {k}: {} after {calls} loader calls; last call {}", res.show(), log_json(&log[calls.saturating_sub(1)..]));
        }

        // ---- the call log against the budget rules
        if calls > k && fired.insert("calls") {
            ctx.violation("C15:loader-called-more-than-budget", format!("budget {k} but the loader was called {calls} times; {summary}"), detail(Some(k), &log, &results, json!({})));
        }
        let mut answered: BTreeSet<Uid> = BTreeSet::new();
        for c in &log {
            let again: Vec<&Uid> = c.requested.iter().filter(|u| answered.contains(*u)).collect();
            if !again.is_empty() && fired.insert("again") {
                ctx.violation(
                    "C15:loader-asked-again",
                    format!("budget {k}: iteration {} asks again for {:?}, which the loader had already answered; {summary}", c.iteration, again),
                    detail(Some(k), &log, &results, json!({"asked_again": again.iter().map(|u| format!("{}::{:?}", u.ty, u.id)).collect::<Vec<_>>()})),
                );
            }
            answered.extend(c.returned.iter().map(|(u, _)| u.clone()));
        }

        // ---- the answer
        match &res {
            Res::Ok(d) => {
                ctx.count(&format!("outcome:ok:{:?}", d));
                if *d != expected && fired.insert("decision") {
                    ctx.violation(
                        "C15:decision-differs",
                        format!("budget {k}: batched authorization says {:?}, ordinary authorization says {:?}; {summary}", d, expected),
                        detail(Some(k), &log, &results, json!({})),
                    );
                }
                match first_ok {
                    None => {
                        first_ok = Some((k, *d));
                        ctx.count(&format!("first_decision_at_budget:{}", bucket(k, 8)));
                    }
                    Some((k0, d0)) => {
                        if d0 != *d && fired.insert("mono-d") {
                            ctx.violation(
                                "C15:budget-monotonicity:decision-changed",
                                format!("budget {k0} gave {:?} but the larger budget {k} gives {:?}; {summary}", d0, d),
                                detail(Some(k), &log, &results, json!({"earlier_budget": k0})),
                            );
                        }
                    }
                }
            }
            Res::Insufficient => {
                ctx.count("outcome:insufficient-iterations");
                if let Some((k0, d0)) = first_ok {
                    if fired.insert("mono-i") {
                        ctx.violation(
                            "C15:budget-monotonicity:insufficient-after-decision",
                            format!("budget {k0} gave {:?} but the larger budget {k} reports insufficient iterations; {summary}", d0),
                            detail(Some(k), &log, &results, json!({"earlier_budget": k0})),
                        );
                    }
                }
                if k == n + 1 && fired.insert("above-n") {
                    ctx.violation(
                        "C15:no-decision-above-n",
                        format!("budget {k} exceeds the {n} distinct uids of store, request and policies, yet the iterations are reported insufficient; {summary}"),
                        detail(Some(k), &log, &results, json!({})),
                    );
                }
            }
            Res::Err { kind, msg, duplicate } => {
                let redelivered_before = log.iter().any(|c| !c.redelivered.is_empty());
                if *duplicate && variant == Variant::SupersetRepeat && redelivered_before {
                    // known: a loader that re-delivers what it delivered before makes every later budget fail
                    ctx.count("outcome:error:duplicate-after-redelivery");
                    known_hit = true;
                    // (report.rs keeps a few witnesses per signature and counts the rest)
                    ctx.violation(
                        KNOWN_REDELIVERY,
                        format!("budget {k}: the loader re-delivered an entity it had delivered before and is_authorized_batched fails with `{msg}` instead of deciding {:?}; {summary}", expected),
                        detail(Some(k), &log, &results, json!({"error": msg})),
                    );
                    break;
                }
                ctx.count(&format!("outcome:error:{kind}"));
                if fired.insert("error") {
                    ctx.violation(
                        &format!("C15:error:{kind}"),
                        format!("budget {k}: is_authorized_batched fails with `{msg}` on conformant data; {summary}"),
                        detail(Some(k), &log, &results, json!({"error": msg})),
                    );
                }
            }
        }
    }
    if !known_hit {
        ctx.count(&format!("loader_calls_at_budget_n+1:{}", bucket(calls_at_last, 8)));
        if let Some((k0, _)) = first_ok {
            if calls_at_last > k0 {
                // a decision was available before every residual was concrete
                ctx.count("decision_before_full_convergence");
            }
        }
    }
    ctx.sample(|| {
        json!({
            "policies": texts,
            "schema": gs.to_cedar(&st),
            "loader": variant.name(),
            "n_distinct_uids": n,
            "ordinary_decision": format!("{:?}", expected),
            "results_by_budget": results.iter().map(|r| r.show()).collect::<Vec<_>>(),
        })
    });
    let _ = Rng::new(0);
}
