//! C12 — the formatter is total, meaning- and comment-preserving, idempotent.
//!
//! Case = a policy-set text (1–4 random policies/templates rendered token by
//! token, with whitespace, blank lines and UNIQUE `//` comments at arbitrary
//! token boundaries) × a few `(line_width, indent_width)` configurations from
//! the grid {1,20,40,80,120,400} × {0,1,2,4,8}.
//!
//! Only texts accepted by `cedar_policy::PolicySet::from_str` are judged.  For
//! each configuration `policies_str_to_pretty` must
//!   * succeed,
//!   * produce text that parses to the same number of policies, and for every
//!     position k (= generated id `policy<k>`) the same static/template kind,
//!     effect, annotations, scope constraints and (eq_shape) conditions —
//!     judged here on the library's AST views, not by the formatter's own
//!     `soundness_check`,
//!   * keep the ordered list of comments (found by a small scanner that skips
//!     string literals) equal to that of the input,
//!   * be idempotent on comment-free input, and
//!   * when its output is formatted again, keep policies and comments again.
//! The same oracle is applied to `cedar_policy::ffi::format_json`.
//!
//! Texts: `render::policy_tokens` tokens, refined locally (qualified names, `@key`
//! and negative literals split into their lexical tokens, `@k("")` -> `@k`, raw line
//! breaks inside string literals, trailing commas), joined by `render::join_noisy`,
//! `render::join_plain` (one long line per policy) or a local joiner (comment /
//! line-break / blank-line densities, no-space layout, CRLF / CR, exotic white space,
//! hostile comment texts with quotes, `//`, `;`, non-ASCII), plus comments before the
//! first token, right after the last `;` and at the end of the file.  String leaves
//! are seeded with `//`, line breaks, braces and statement look-alikes.
//!
//! Signatures: `C12:[refmt:|ffi:]format-failed:<cause>`, `...output-unparseable`,
//! `...meaning:<count|id|kind|effect|annotations|scope-*|condition>`,
//! `...annotation-order`, `...comment-lost:<tok before>~<tok after>` (or
//! `comment-lost:trailing-comma` when every lost comment hangs on a trailing comma),
//! `...comment-extra`, `...comment-reordered:<..>`, `C12:not-idempotent`.

use crate::gen::{self, ExprGen};
use crate::model::*;
use crate::pools;
use crate::render::{self, TextOpts};
use crate::report::CaseCtx;
use crate::rng::Rng;
use cedar_policy::PolicySet;
use cedar_policy_core::ast;
use cedar_policy_formatter::{policies_str_to_pretty, Config};
use serde_json::json;
use std::collections::{BTreeMap, BTreeSet};
use std::str::FromStr;

const WIDTHS: [usize; 6] = [1, 20, 40, 80, 120, 400];
const INDENTS: [isize; 5] = [0, 1, 2, 4, 8];
/// witnesses recorded per failure class and shard (the report keeps 40 violations in all)
const MAX_WITNESSES_PER_SIGNATURE: usize = 4;

// ------------------------------------------------------------------ generation

const ANNOT_KEYS: [&str; 20] = [
    "id", "advice", "a", "b", "_x", "A1", "if", "in", "is", "has", "like", "then", "else", "true", "permit", "forbid", "when", "unless", "principal",
    "context",
];

/// strings that look like comments, statements, or contain line breaks
const HOSTILE_STRS: [&str; 22] = [
    "http://example.com/a//b",
    "// not a comment",
    "a // b",
    "//",
    "/* x */",
    "\"//\"",
    "line1\nline2",
    "\n",
    "\n\n",
    "a\n\n\nb",
    "\n// zz-1\n",
    "  \n  \n",
    "tab\there",
    "}",
    "; permit(principal, action, resource);",
    "\\",
    "\\\"",
    "  ",
    " lead",
    "trail ",
    "when { true }",
    "a very long string literal that by itself is wider than most of the line widths in the grid, so that it cannot be made to fit",
];

fn hostile_string(rng: &mut Rng) -> String {
    if rng.chance(2, 3) {
        rng.pick(&HOSTILE_STRS).to_string()
    } else {
        pools::string(rng)
    }
}

/// replace some string leaves by hostile strings
fn spice(e: &mut GExpr, rng: &mut Rng, pct: u32) {
    match e {
        GExpr::Str(s) => {
            if rng.chance(pct, 100) {
                *s = hostile_string(rng);
            }
        }
        GExpr::Bool(_) | GExpr::Long(_) | GExpr::Ent(_) | GExpr::Var(_) | GExpr::Slot(_) => {}
        GExpr::Not(a) | GExpr::Neg(a) | GExpr::IsEmpty(a) | GExpr::Has(a, _) | GExpr::Attr(a, _) | GExpr::Like(a, _) => spice(a, rng, pct),
        GExpr::Bin(_, a, b) => {
            spice(a, rng, pct);
            spice(b, rng, pct);
        }
        GExpr::If(a, b, c) => {
            spice(a, rng, pct);
            spice(b, rng, pct);
            spice(c, rng, pct);
        }
        GExpr::Is(a, _, x) => {
            spice(a, rng, pct);
            if let Some(x) = x {
                spice(x, rng, pct);
            }
        }
        GExpr::Set(xs) => xs.iter_mut().for_each(|x| spice(x, rng, pct)),
        // never touch the constructor strings of extension calls (decimal("1.0") ...)
        GExpr::Call(_, xs) => xs.iter_mut().for_each(|x| {
            if !matches!(x, GExpr::Str(_)) {
                spice(x, rng, pct)
            }
        }),
        GExpr::Rec(fs) => fs.iter_mut().for_each(|(_, x)| spice(x, rng, pct)),
    }
}

fn scope_uid(rng: &mut Rng, w: &GWorld) -> Uid {
    match rng.below(4) {
        0 => pools::uid(rng),
        1 => pools::small_uid(rng),
        2 => w.principal.clone(),
        _ => w.resource.clone(),
    }
}

fn scope_pr(rng: &mut Rng, w: &GWorld) -> ScopePR {
    let tgt = |rng: &mut Rng| if rng.chance(1, 6) { EntOrSlot::Slot } else { EntOrSlot::Ent(scope_uid(rng, w)) };
    match rng.below(10) {
        0..=2 => ScopePR::Any,
        3 | 4 => ScopePR::Eq(tgt(rng)),
        5 | 6 => ScopePR::In(tgt(rng)),
        7 => ScopePR::Is(rng.pick(&pools::ENTITY_TYPES).to_string()),
        _ => ScopePR::IsIn(rng.pick(&pools::ENTITY_TYPES).to_string(), tgt(rng)),
    }
}

fn action_uid(rng: &mut Rng, w: &GWorld) -> Uid {
    match rng.below(300) {
        0 => Uid::new("A", "view"), // wrong type: the parser refuses it
        1..=100 => w.action.clone(),
        _ => Uid::new(rng.pick(&["Action", "N::Action", "N::M::Action"]), rng.pick(&["view", "edit", "a", "", "a b", "q\"uote", "line\nbreak", "//"])),
    }
}

fn scope_a(rng: &mut Rng, w: &GWorld) -> ScopeA {
    match rng.below(8) {
        0 | 1 => ScopeA::Any,
        2 | 3 => ScopeA::Eq(action_uid(rng, w)),
        4 => ScopeA::In(action_uid(rng, w)),
        _ => {
            let n = rng.below(5);
            ScopeA::InList((0..n).map(|_| action_uid(rng, w)).collect())
        }
    }
}

/// `a op b op c op ...` — a long flat operator chain
fn chain(rng: &mut Rng, w: &GWorld) -> GExpr {
    let n = 3 + rng.below(10);
    let family = rng.below(4);
    let mut g = ExprGen::new(rng, w);
    g.chaos = 5;
    let (kind, ops): (gen::Kind, &[BinOp]) = match family {
        0 => (gen::Kind::Bool, &[BinOp::And]),
        1 => (gen::Kind::Bool, &[BinOp::Or]),
        2 => (gen::Kind::Bool, &[BinOp::And, BinOp::Or]),
        _ => (gen::Kind::Long, &[BinOp::Add, BinOp::Sub, BinOp::Mul]),
    };
    let d0 = g.rng.below(3);
    let mut acc = g.of_kind(kind, d0);
    for _ in 1..n {
        let d = g.rng.below(3);
        let x = g.of_kind(kind, d);
        let op = *g.rng.pick(ops);
        // mostly left-nested (prints flat), sometimes right-nested (needs parentheses)
        acc = if g.rng.chance(1, 6) { GExpr::bin(op, x, acc) } else { GExpr::bin(op, acc, x) };
    }
    if family == 3 {
        let b = g.of_kind(gen::Kind::Long, 1);
        acc = GExpr::bin(*g.rng.pick(&[BinOp::Lt, BinOp::Eq, BinOp::Ge, BinOp::Neq]), acc, b);
    }
    acc
}

fn gen_policy(rng: &mut Rng, w: &GWorld) -> GPolicy {
    let mut annotations: Vec<(String, String)> = vec![];
    let n_ann = rng.weighted(&[40, 30, 20, 10]);
    for _ in 0..n_ann {
        let k = rng.pick(&ANNOT_KEYS).to_string();
        if annotations.iter().any(|(kk, _)| *kk == k) {
            if rng.chance(9, 10) {
                continue; // a duplicate key is a parse error; keep a few for the rejection path
            }
        }
        let v = match rng.below(4) {
            0 => String::new(),
            1 => rng.pick(&["x", "an id", "p-1"]).to_string(),
            _ => hostile_string(rng),
        };
        annotations.push((k, v));
    }
    let effect = if rng.bool() { Effect::Permit } else { Effect::Forbid };
    let n_conds = rng.weighted(&[15, 45, 25, 15]);
    let mut conds = vec![];
    for _ in 0..n_conds {
        let mut e = match rng.below(8) {
            0 | 1 => chain(rng, w),
            2..=5 => {
                let depth = rng.below(6);
                let mut g = ExprGen::new(rng, w);
                g.chaos = *g.rng.pick(&[3u32, 12, 30]);
                g.of_kind(gen::Kind::Bool, depth)
            }
            _ => {
                let depth = rng.below(5);
                let mut g = ExprGen::new(rng, w);
                g.any(depth)
            }
        };
        if rng.chance(1, 12) {
            // unary operator chains: `!!!x`, `- - -x`, `-(-1)`
            let neg = rng.bool();
            for _ in 0..1 + rng.below(5) {
                e = if neg { GExpr::Neg(e.b()) } else { GExpr::Not(e.b()) };
            }
        }
        let pct = *rng.pick(&[0u32, 10, 40]);
        spice(&mut e, rng, pct);
        conds.push((rng.chance(2, 3), e));
    }
    GPolicy { annotations, effect, principal: scope_pr(rng, w), action: scope_a(rng, w), resource: scope_pr(rng, w), conds }
}

// ------------------------------------------------------------------ token refinement

fn is_ident_char(c: char) -> bool {
    c == '_' || c.is_ascii_alphanumeric()
}

/// `N::M::A::"id"` / `N::M::A` -> pieces, so that noise can land inside names too
fn split_path(tok: &str, out: &mut Vec<String>) {
    let (head, lit) = match tok.find('"') {
        Some(i) => (&tok[..i], Some(&tok[i..])),
        None => (tok, None),
    };
    let mut first = true;
    for part in head.split("::") {
        if !first {
            out.push("::".into());
        }
        first = false;
        if !part.is_empty() {
            out.push(part.to_string());
        }
    }
    if let Some(l) = lit {
        out.push(l.to_string());
    }
}

/// turn some `\n` escapes of a string-literal token into raw line breaks (same value)
fn raw_newlines(lit: &str, rng: &mut Rng) -> String {
    let mut out = String::with_capacity(lit.len());
    let mut cs = lit.chars();
    while let Some(c) = cs.next() {
        if c == '\\' {
            match cs.next() {
                Some('n') if rng.bool() => out.push('\n'),
                Some(d) => {
                    out.push('\\');
                    out.push(d);
                }
                None => out.push('\\'),
            }
        } else {
            out.push(c);
        }
    }
    out
}

struct Refine {
    split_names: bool,
    split_neg: bool,
    elide_empty_annotation: bool,
    raw_nl: bool,
    trailing_commas: bool,
}

const NOT_CALLABLE: [&str; 14] = ["if", "then", "else", "in", "has", "like", "is", "permit", "forbid", "when", "unless", "true", "false", "&&"];

/// Token-level rewrites that keep the meaning: split qualified names / `@key` /
/// negative literals into their lexical tokens, `@k("")` -> `@k`, raw newlines in
/// strings, trailing commas in set / record / argument lists and in the scope.
fn refine(toks: &[String], r: &Refine, rng: &mut Rng) -> Vec<String> {
    let mut out: Vec<String> = Vec::with_capacity(toks.len() + 8);
    // stack of (kind of the open bracket, number of tokens inside so far is tracked through `out` length)
    #[derive(Clone, Copy, PartialEq)]
    enum Open {
        List,  // set literal, record literal, call arguments, scope
        Other, // parenthesised expression, index, when-body, annotation value
    }
    let mut stack: Vec<(Open, usize)> = vec![];
    let mut i = 0;
    while i < toks.len() {
        let t = &toks[i];
        let prev: Option<&str> = if i > 0 { Some(toks[i - 1].as_str()) } else { None };
        let first = t.chars().next().unwrap_or(' ');
        if t.starts_with('@') && t.len() > 1 {
            // `@key ( "..." )`
            if r.split_names && rng.bool() {
                out.push("@".into());
                out.push(t[1..].to_string());
            } else {
                out.push(t.clone());
            }
            if r.elide_empty_annotation && i + 3 < toks.len() && toks[i + 1] == "(" && toks[i + 2] == "\"\"" && toks[i + 3] == ")" && rng.bool() {
                i += 4;
                continue;
            }
            i += 1;
            continue;
        }
        match t.as_str() {
            "(" | "[" | "{" => {
                let p = prev.unwrap_or("");
                let p_last = p.chars().last().unwrap_or(' ');
                let ends_expr = is_ident_char(p_last) || p_last == ')' || p_last == ']' || p_last == '"' || p_last == '}';
                let kind = match t.as_str() {
                    "(" => {
                        if p == "permit" || p == "forbid" {
                            Open::List
                        } else if !p.starts_with('@') && is_ident_char(p_last) && !NOT_CALLABLE.contains(&p) && !p.chars().all(|c| c.is_ascii_digit()) {
                            Open::List // function / method call
                        } else {
                            Open::Other
                        }
                    }
                    "[" => {
                        if ends_expr && !NOT_CALLABLE.contains(&p) {
                            Open::Other // index
                        } else {
                            Open::List
                        }
                    }
                    _ => {
                        if p == "when" || p == "unless" {
                            Open::Other
                        } else {
                            Open::List
                        }
                    }
                };
                out.push(t.clone());
                stack.push((kind, out.len()));
            }
            ")" | "]" | "}" => {
                if let Some((kind, at)) = stack.pop() {
                    if kind == Open::List && r.trailing_commas && out.len() > at && rng.chance(1, 3) {
                        out.push(",".into());
                    }
                }
                out.push(t.clone());
            }
            _ if first == '"' => {
                if r.raw_nl {
                    out.push(raw_newlines(t, rng));
                } else {
                    out.push(t.clone());
                }
            }
            _ if first == '-' && t.len() > 1 && t[1..].chars().all(|c| c.is_ascii_digit()) => {
                if r.split_neg && rng.bool() {
                    out.push("-".into());
                    out.push(t[1..].to_string());
                } else {
                    out.push(t.clone());
                }
            }
            _ if (first == '_' || first.is_ascii_alphabetic()) && t.contains("::") => {
                if r.split_names && rng.chance(2, 3) {
                    let mut parts = vec![];
                    split_path(t, &mut parts);
                    if r.raw_nl {
                        if let Some(l) = parts.last_mut() {
                            if l.starts_with('"') {
                                *l = raw_newlines(l, rng);
                            }
                        }
                    }
                    out.extend(parts);
                } else {
                    out.push(t.clone());
                }
            }
            _ => out.push(t.clone()),
        }
        i += 1;
    }
    out
}

// ------------------------------------------------------------------ joining

struct Style {
    p_cmt: u32,
    p_nl: u32,
    p_blank: u32,
    tight: bool,
    /// 0 = `\n`, 1 = `\r\n`, 2 = `\r` alone
    eol: u8,
    /// form feed, vertical tab, NBSP, U+2028 as inter-token whitespace
    exotic_ws: bool,
    hostile_comments: bool,
}

fn comment_text(tag: &str, n: usize, hostile: bool, rng: &mut Rng) -> String {
    if !hostile {
        return format!("// {}-{}", tag, n);
    }
    match rng.below(12) {
        0 => format!("//{}-{}", tag, n),
        1 => format!("// {}-{} \"quote", tag, n),
        2 => format!("// {}-{} // again", tag, n),
        3 => format!("//// {}-{}", tag, n),
        4 => format!("// {}-{} \t ", tag, n),
        5 => format!("// {}-{} 'x' \\", tag, n),
        6 => format!("// {}-{} */ }}", tag, n),
        7 => format!("// {}-{} ; permit(principal, action, resource);", tag, n),
        8 => format!("//\t{}-{} \"a\" \"b", tag, n),
        10 => format!("// {}-{} \u{3c0} \u{1F600} \u{e9}", tag, n),
        9 => format!("// {}-{} a rather long comment that alone exceeds the narrow line widths of the configuration grid", tag, n),
        _ => format!("// {}-{}", tag, n),
    }
}

fn can_be_tight(prev: &str, next: &str) -> bool {
    let a = prev.chars().last().unwrap_or(' ');
    let b = next.chars().next().unwrap_or(' ');
    if is_ident_char(a) && (is_ident_char(b) || b == '?') {
        return false;
    }
    // never glue operator characters together (`- -1`, `< =`, `: ::`, `! !=`, `/ /`)
    let opch = |c: char| "-<>=!&|:+*/?@".contains(c);
    !(opch(a) && opch(b))
}

fn join_custom(toks: &[String], rng: &mut Rng, st: &Style, tag: &str, counter: &mut usize) -> String {
    let nl = match st.eol {
        1 => "\r\n",
        2 => "\r",
        _ => "\n",
    };
    let mut s = String::new();
    for (i, t) in toks.iter().enumerate() {
        if i > 0 {
            let r = rng.below(100) as u32;
            if r < st.p_cmt {
                match rng.below(5) {
                    0 | 1 => {
                        // trailing comment of the previous token
                        *counter += 1;
                        s.push_str(if rng.bool() { " " } else { "" });
                        s.push_str(&comment_text(tag, *counter, st.hostile_comments, rng));
                        s.push_str(nl);
                    }
                    2 => {
                        // comment on its own line: leading comment of the next token
                        s.push_str(nl);
                        s.push_str(&" ".repeat(rng.below(6)));
                        *counter += 1;
                        s.push_str(&comment_text(tag, *counter, st.hostile_comments, rng));
                        s.push_str(nl);
                    }
                    3 => {
                        // trailing comment, then a block of leading comments with a blank line inside
                        *counter += 1;
                        s.push(' ');
                        s.push_str(&comment_text(tag, *counter, st.hostile_comments, rng));
                        s.push_str(nl);
                        for _ in 0..1 + rng.below(2) {
                            if rng.chance(1, 3) {
                                s.push_str(nl);
                            }
                            *counter += 1;
                            s.push_str(&" ".repeat(rng.below(4)));
                            s.push_str(&comment_text(tag, *counter, st.hostile_comments, rng));
                            s.push_str(nl);
                        }
                    }
                    _ => {
                        s.push_str(nl);
                        for _ in 0..1 + rng.below(3) {
                            *counter += 1;
                            s.push_str(&comment_text(tag, *counter, st.hostile_comments, rng));
                            s.push_str(nl);
                        }
                        s.push_str(&" ".repeat(rng.below(9)));
                    }
                }
            } else if r < st.p_cmt + st.p_nl {
                s.push_str(nl);
                s.push_str(&" ".repeat(rng.below(9)));
            } else if r < st.p_cmt + st.p_nl + st.p_blank {
                s.push_str(nl);
                s.push_str(*rng.pick(&["", "  ", "\t"]));
                s.push_str(nl);
                if rng.chance(1, 3) {
                    s.push_str(nl);
                }
            } else if st.tight && can_be_tight(&toks[i - 1], t) {
                // nothing
            } else {
                s.push_str(match rng.below(12) {
                    0 => "  ",
                    1 => "\t",
                    2 if st.exotic_ws => *rng.pick(&["\u{c}", "\u{b}", "\u{a0}", "\u{2028}", " \u{85}", "\u{3000}"]),
                    _ => " ",
                });
            }
        }
        s.push_str(t);
    }
    s
}

// ------------------------------------------------------------------ the scanner (oracle side)

#[derive(Clone, Debug, PartialEq)]
enum Piece {
    /// token class: keywords and punctuation as themselves, `id`, `num`, `str`, `slot`
    Tok(String),
    Comment(String),
}

const KEYWORDS: [&str; 17] = [
    "true", "false", "if", "then", "else", "in", "is", "like", "has", "permit", "forbid", "when", "unless", "principal", "action", "resource", "context",
];

/// Splits a text into tokens and `//` comments; string literals are skipped as a
/// whole (with `\`-escapes), so `//` inside a string is not a comment.
fn scan(text: &str) -> Result<Vec<Piece>, String> {
    let cs: Vec<char> = text.chars().collect();
    let mut out = vec![];
    let mut i = 0;
    while i < cs.len() {
        let c = cs[i];
        if c.is_whitespace() {
            i += 1;
        } else if c == '/' && i + 1 < cs.len() && cs[i + 1] == '/' {
            let mut j = i;
            while j < cs.len() && cs[j] != '\n' && cs[j] != '\r' {
                j += 1;
            }
            let t: String = cs[i..j].iter().collect();
            out.push(Piece::Comment(t.trim().to_string()));
            i = j;
        } else if c == '"' {
            let mut j = i + 1;
            loop {
                if j >= cs.len() {
                    return Err(format!("unterminated string literal at char {}", i));
                }
                if cs[j] == '\\' {
                    j += 2;
                } else if cs[j] == '"' {
                    break;
                } else {
                    j += 1;
                }
            }
            out.push(Piece::Tok("str".into()));
            i = j + 1;
        } else if c == '_' || c.is_ascii_alphabetic() {
            let mut j = i;
            while j < cs.len() && is_ident_char(cs[j]) {
                j += 1;
            }
            let t: String = cs[i..j].iter().collect();
            out.push(Piece::Tok(if KEYWORDS.contains(&t.as_str()) { t } else { "id".into() }));
            i = j;
        } else if c.is_ascii_digit() {
            let mut j = i;
            while j < cs.len() && cs[j].is_ascii_digit() {
                j += 1;
            }
            out.push(Piece::Tok("num".into()));
            i = j;
        } else if c == '?' {
            let mut j = i + 1;
            while j < cs.len() && is_ident_char(cs[j]) {
                j += 1;
            }
            out.push(Piece::Tok("slot".into()));
            i = j;
        } else {
            let two: String = cs[i..(i + 2).min(cs.len())].iter().collect();
            if ["::", "==", "!=", "<=", ">=", "&&", "||"].contains(&two.as_str()) {
                out.push(Piece::Tok(two));
                i += 2;
            } else {
                out.push(Piece::Tok(c.to_string()));
                i += 1;
            }
        }
    }
    Ok(out)
}

fn comments_of(ps: &[Piece]) -> Vec<&str> {
    ps.iter()
        .filter_map(|p| match p {
            Piece::Comment(c) => Some(c.as_str()),
            _ => None,
        })
        .collect()
}

/// (token class before, token class after) of the k-th comment
fn comment_context(ps: &[Piece], k: usize) -> (String, String) {
    let mut seen = 0;
    for (i, p) in ps.iter().enumerate() {
        if let Piece::Comment(_) = p {
            if seen == k {
                let before = ps[..i].iter().rev().find_map(|q| if let Piece::Tok(t) = q { Some(t.clone()) } else { None }).unwrap_or_else(|| "BOF".into());
                let after = ps[i + 1..].iter().find_map(|q| if let Piece::Tok(t) = q { Some(t.clone()) } else { None }).unwrap_or_else(|| "EOF".into());
                return (before, after);
            }
            seen += 1;
        }
    }
    ("?".into(), "?".into())
}

/// Is the k-th comment attached to a trailing comma (`[a, b,]`, `f(x,)`, `{k: v,}`,
/// `(principal, action, resource,)`)?  i.e. it sits between the last element and the
/// comma, between the comma and the closing bracket, or right after the closing bracket.
fn near_trailing_comma(ps: &[Piece], k: usize) -> bool {
    let closer = |t: &str| t == ")" || t == "]" || t == "}";
    let mut seen = 0;
    for (i, p) in ps.iter().enumerate() {
        if let Piece::Comment(_) = p {
            if seen == k {
                let before: Vec<&str> = ps[..i].iter().rev().filter_map(|q| if let Piece::Tok(t) = q { Some(t.as_str()) } else { None }).take(2).collect();
                let after: Vec<&str> = ps[i + 1..].iter().filter_map(|q| if let Piece::Tok(t) = q { Some(t.as_str()) } else { None }).take(2).collect();
                let b1 = before.first().copied().unwrap_or("");
                let b2 = before.get(1).copied().unwrap_or("");
                let a1 = after.first().copied().unwrap_or("");
                let a2 = after.get(1).copied().unwrap_or("");
                return (b1 == "," && closer(a1)) || (a1 == "," && closer(a2)) || (closer(b1) && b2 == ",");
            }
            seen += 1;
        }
    }
    false
}

/// annotation keys in textual order (`@` followed by an identifier-like token)
fn annotation_keys(text: &str) -> Vec<String> {
    // cheap second pass over the raw text, again skipping strings and comments
    let cs: Vec<char> = text.chars().collect();
    let mut out = vec![];
    let mut i = 0;
    while i < cs.len() {
        let c = cs[i];
        if c == '/' && i + 1 < cs.len() && cs[i + 1] == '/' {
            while i < cs.len() && cs[i] != '\n' && cs[i] != '\r' {
                i += 1;
            }
        } else if c == '"' {
            i += 1;
            while i < cs.len() && cs[i] != '"' {
                if cs[i] == '\\' {
                    i += 1;
                }
                i += 1;
            }
            i += 1;
        } else if c == '@' {
            // skip whitespace and comments up to the key
            let mut j = i + 1;
            loop {
                while j < cs.len() && cs[j].is_whitespace() {
                    j += 1;
                }
                if j + 1 < cs.len() && cs[j] == '/' && cs[j + 1] == '/' {
                    while j < cs.len() && cs[j] != '\n' && cs[j] != '\r' {
                        j += 1;
                    }
                } else {
                    break;
                }
            }
            let s = j;
            while j < cs.len() && is_ident_char(cs[j]) {
                j += 1;
            }
            out.push(cs[s..j].iter().collect());
            i = j.max(i + 1);
        } else {
            i += 1;
        }
    }
    out
}

// ------------------------------------------------------------------ structural comparison

fn annotations_of(t: &ast::Template) -> BTreeMap<String, String> {
    t.annotations().map(|(k, v)| (k.to_string(), v.val.to_string())).collect()
}

/// Compare two parsed policy sets position by position (the parser names the
/// k-th statement `policy<k>`).  Err((field, message)).
fn same_policies(orig: &ast::PolicySet, new: &ast::PolicySet) -> Result<(), (String, String)> {
    let n = orig.all_templates().count();
    let m = new.all_templates().count();
    if n != m {
        return Err(("count".into(), format!("{} policies became {}", n, m)));
    }
    let (ns, ms) = (orig.policies().count(), new.policies().count());
    if ns != ms {
        return Err(("count".into(), format!("{} static policies became {}", ns, ms)));
    }
    for k in 0..n {
        let id = ast::PolicyID::from_string(format!("policy{}", k));
        let a = match orig.get_template(&id) {
            Some(a) => a,
            None => return Err(("harness".into(), format!("input has no {}", id))),
        };
        let b = match new.get_template(&id) {
            Some(b) => b,
            None => return Err(("id".into(), format!("output has no {}", id))),
        };
        if a.is_static() != b.is_static() || orig.get(&id).is_some() != new.get(&id).is_some() {
            return Err(("kind".into(), format!("{}: static/template kind changed", id)));
        }
        if a.effect() != b.effect() {
            return Err(("effect".into(), format!("{}: effect {} became {}", id, a.effect(), b.effect())));
        }
        let (aa, ab) = (annotations_of(a), annotations_of(b));
        if aa != ab {
            return Err(("annotations".into(), format!("{}: annotations {:?} became {:?}", id, aa, ab)));
        }
        if a.principal_constraint() != b.principal_constraint() {
            return Err(("scope-principal".into(), format!("{}: `{}` became `{}`", id, a.principal_constraint(), b.principal_constraint())));
        }
        if a.action_constraint() != b.action_constraint() {
            return Err(("scope-action".into(), format!("{}: `{}` became `{}`", id, a.action_constraint(), b.action_constraint())));
        }
        if a.resource_constraint() != b.resource_constraint() {
            return Err(("scope-resource".into(), format!("{}: `{}` became `{}`", id, a.resource_constraint(), b.resource_constraint())));
        }
        let same = match (a.non_scope_constraints(), b.non_scope_constraints()) {
            (None, None) => true,
            (Some(x), Some(y)) => x.eq_shape(y),
            _ => false,
        };
        if !same {
            let show = |t: &ast::Template| t.non_scope_constraints().map(|e| e.to_string()).unwrap_or_else(|| "<none>".into());
            return Err(("condition".into(), format!("{}: condition `{}` became `{}`", id, show(a), show(b))));
        }
        // the whole policy read as one expression (scope && conditions), once more
        if !a.condition().eq_shape(&b.condition()) {
            return Err(("whole-condition".into(), format!("{}: `{}` became `{}`", id, a.condition(), b.condition())));
        }
    }
    Ok(())
}

// ------------------------------------------------------------------ the oracle for one formatting step

/// one report per signature and case (the same defect shows up under several configurations)
fn report(ctx: &mut CaseCtx, seen: &mut BTreeSet<String>, sig: String, what: String, detail: serde_json::Value) {
    if !seen.insert(sig.clone()) {
        ctx.count("violations_same_signature_same_case");
    } else if ctx.rep.violations.iter().filter(|v| v.signature == sig).count() >= MAX_WITNESSES_PER_SIGNATURE {
        // enough witnesses of this class in this shard; keep room for other classes
        ctx.count(&format!("more_witnesses:{}", sig));
    } else {
        ctx.violation(&sig, what, detail);
    }
}

struct Input<'a> {
    text: &'a str,
    ast: &'a ast::PolicySet,
    pieces: &'a [Piece],
    ann_keys: &'a [String],
}

fn error_class(e: &miette::Report) -> String {
    let mut best = e.to_string();
    for c in e.chain() {
        let m = c.to_string();
        if m.starts_with("formatter ") || m.starts_with("failed to") || m.starts_with("cannot ") {
            best = m;
            break;
        }
    }
    let cut = best.split(|c| c == ':' || c == '\n').next().unwrap_or("").to_string();
    let cut: String = cut.chars().filter(|c| !c.is_ascii_digit()).take(56).collect();
    cut.trim().replace(' ', "-")
}

fn max_line_len(s: &str) -> usize {
    s.split('\n').map(|l| l.trim_end_matches('\r').chars().count()).max().unwrap_or(0)
}

/// Judge `out = fmt(inp.text, cfg)` against the input.  `stage` prefixes the signature
/// (`""` for the first formatting, `"refmt:"` for formatting an output again).
/// Returns the parsed output when everything up to parsing went well.
fn judge(ctx: &mut CaseCtx, seen: &mut BTreeSet<String>, stage: &str, inp: &Input, cfg: &Config, res: Result<String, miette::Report>, root_text: &str) -> Option<String> {
    let cfgj = json!({"line_width": cfg.line_width, "indent_width": cfg.indent_width});
    let out = match res {
        Ok(o) => o,
        Err(e) => {
            let chain: Vec<String> = e.chain().map(|c| c.to_string()).collect();
            report(
                ctx,
                seen,
                format!("C12:{}format-failed:{}", stage, error_class(&e)),
                format!("formatting a parseable text failed at width {} indent {}: {}", cfg.line_width, cfg.indent_width, chain.last().cloned().unwrap_or_default().lines().next().unwrap_or("")),
                json!({"input": inp.text, "config": cfgj, "error_chain": chain, "original_input": root_text}),
            );
            return None;
        }
    };
    ctx.count(&format!("{}formats_ok", stage));
    ctx.max("line_len_out", max_line_len(&out) as u64);

    // -- meaning
    match PolicySet::from_str(&out) {
        Err(e) => {
            report(
                ctx,
                seen,
                format!("C12:{}output-unparseable", stage),
                format!("formatter output does not parse (width {} indent {}): {}", cfg.line_width, cfg.indent_width, e),
                json!({"input": inp.text, "config": cfgj, "output": out, "original_input": root_text}),
            );
            return None;
        }
        Ok(ps) => {
            if let Err((field, msg)) = same_policies(inp.ast, ps.as_ref()) {
                if field == "harness" {
                    ctx.harness_error(msg);
                } else {
                    report(
                        ctx,
                        seen,
                        format!("C12:{}meaning:{}", stage, field),
                        format!("formatting changed the policies (width {} indent {}): {}", cfg.line_width, cfg.indent_width, msg),
                        json!({"input": inp.text, "config": cfgj, "output": out, "difference": msg, "original_input": root_text}),
                    );
                }
            } else {
                ctx.count(&format!("{}policies_preserved", stage));
            }
        }
    }
    let out_keys = annotation_keys(&out);
    if out_keys != inp.ann_keys {
        report(
            ctx,
            seen,
            format!("C12:{}annotation-order", stage),
            format!("annotation keys {:?} appear as {:?} after formatting", inp.ann_keys, out_keys),
            json!({"input": inp.text, "config": cfgj, "output": out, "original_input": root_text}),
        );
    }

    // -- comments
    let out_pieces = match scan(&out) {
        Ok(p) => p,
        Err(m) => {
            ctx.harness_error(format!("scanner on formatter output: {m}"));
            return Some(out);
        }
    };
    let cin = comments_of(inp.pieces);
    let cout = comments_of(&out_pieces);
    ctx.add(&format!("{}comments_in", stage), cin.len() as u64);
    ctx.add(&format!("{}comments_out", stage), cout.len() as u64);
    if cin != cout {
        // classify: lost / extra / reordered
        let lost: Vec<usize> = (0..cin.len()).filter(|&k| !cout.contains(&cin[k])).collect();
        let extra: Vec<&str> = cout.iter().filter(|c| !cin.contains(c)).copied().collect();
        let (sig, what) = if let Some(&k) = lost.first() {
            let (b, a) = comment_context(inp.pieces, k);
            let class = if lost.iter().all(|&k| near_trailing_comma(inp.pieces, k)) { "trailing-comma".to_string() } else { format!("{}~{}", b, a) };
            (
                format!("C12:{}comment-lost:{}", stage, class),
                format!("comment `{}` (between `{}` and `{}`) is missing from the output; {} of {} comments lost", cin[k], b, a, lost.len(), cin.len()),
            )
        } else if !extra.is_empty() || cout.len() != cin.len() {
            (format!("C12:{}comment-extra", stage), format!("output has comments the input does not have / duplicates: {:?}", extra))
        } else {
            let k = (0..cin.len()).find(|&k| cin[k] != cout[k]).unwrap_or(0);
            let (b, a) = comment_context(inp.pieces, k);
            (format!("C12:{}comment-reordered:{}~{}", stage, b, a), format!("comments change their order from `{}` on (output has `{}` there)", cin[k], cout[k]))
        };
        report(
            ctx,
            seen,
            sig,
            format!("{} (width {} indent {})", what, cfg.line_width, cfg.indent_width),
            json!({"input": inp.text, "config": cfgj, "output": out, "comments_in": cin, "comments_out": cout,
                   "lost": lost.iter().map(|&k| { let (b, a) = comment_context(inp.pieces, k); json!({"comment": cin[k], "after_token": b, "before_token": a}) }).collect::<Vec<_>>(),
                   "original_input": root_text}),
        );
    } else {
        ctx.count(&format!("{}comments_preserved", stage));
    }
    Some(out)
}

fn ffi_format(text: &str, cfg: &Config) -> Result<Result<String, Vec<String>>, String> {
    let ans = cedar_policy::ffi::format_json(json!({"policyText": text, "lineWidth": cfg.line_width, "indentWidth": cfg.indent_width})).map_err(|e| format!("format_json: {e}"))?;
    match ans.get("type").and_then(|t| t.as_str()) {
        Some("success") => match ans.get("formatted_policy").or_else(|| ans.get("formattedPolicy")).and_then(|s| s.as_str()) {
            Some(s) => Ok(Ok(s.to_string())),
            None => Err(format!("format_json: success without formattedPolicy: {ans}")),
        },
        Some("failure") => Ok(Err(ans
            .get("errors")
            .and_then(|e| e.as_array())
            .map(|es| es.iter().map(|e| e.get("message").and_then(|m| m.as_str()).unwrap_or("?").to_string()).collect())
            .unwrap_or_default())),
        _ => Err(format!("format_json: unexpected answer {ans}")),
    }
}

// ------------------------------------------------------------------ the case

pub fn case(ctx: &mut CaseCtx) {
    // ---------------- generate the text
    let w = gen::world(&mut ctx.rng);
    // 1..4 policies; rarely none at all (a file of comments only)
    let n_pol = if ctx.rng.chance(1, 100) { 0 } else { 1 + ctx.rng.weighted(&[40, 30, 20, 10]) };
    let pols: Vec<GPolicy> = (0..n_pol).map(|_| gen_policy(&mut ctx.rng, &w)).collect();
    let mut toks: Vec<String> = vec![];
    let mut per_policy: Vec<Vec<String>> = vec![];
    for p in &pols {
        let mut t = vec![];
        let mut o = TextOpts::random(&mut ctx.rng);
        render::policy_tokens(p, &mut o, &mut t);
        per_policy.push(t);
    }
    let rf = Refine {
        split_names: ctx.rng.bool(),
        split_neg: ctx.rng.bool(),
        elide_empty_annotation: ctx.rng.bool(),
        raw_nl: ctx.rng.chance(1, 3),
        trailing_commas: ctx.rng.chance(1, 12),
    };
    for t in &per_policy {
        toks.extend(refine(t, &rf, &mut ctx.rng));
    }
    let tag = format!("c{}", ctx.idx);
    let mut counter = 0usize;
    let style = ctx.rng.weighted(&[30, 10, 10, 50]);
    let style_name = ["noisy+comments", "noisy", "plain", "custom"][style];
    let mut text = match style {
        0 => render::join_noisy(&toks, &mut ctx.rng, Some(&tag), &mut counter),
        1 => render::join_noisy(&toks, &mut ctx.rng, None, &mut counter),
        2 => {
            // one policy per line (long lines), joined plainly
            let sep = *ctx.rng.pick(&["\n", " ", "\n\n\n", ""]);
            per_policy.iter().map(|t| render::join_plain(&refine(t, &rf, &mut ctx.rng))).collect::<Vec<_>>().join(sep)
        }
        _ => {
            let st = Style {
                p_cmt: *ctx.rng.pick(&[0u32, 0, 2, 5, 10, 25, 50]),
                p_nl: *ctx.rng.pick(&[0u32, 0, 5, 20, 50]),
                p_blank: *ctx.rng.pick(&[0u32, 0, 3, 10]),
                tight: ctx.rng.bool(),
                eol: *ctx.rng.pick(&[0u8, 0, 0, 0, 0, 0, 0, 0, 0, 1, 1, 2]),
                exotic_ws: ctx.rng.chance(1, 12),
                hostile_comments: ctx.rng.bool(),
            };
            join_custom(&toks, &mut ctx.rng, &st, &tag, &mut counter)
        }
    };
    ctx.count(&format!("style:{}", style_name));
    // before the first token / after the last one
    let with_comments = style == 0 || (style == 3 && counter > 0) || (style != 1 && ctx.rng.chance(1, 4));
    if ctx.rng.chance(1, 4) {
        let mut pre = String::new();
        for _ in 0..1 + ctx.rng.below(3) {
            match ctx.rng.below(3) {
                0 if with_comments => {
                    counter += 1;
                    pre.push_str(&format!("{}{}\n", " ".repeat(ctx.rng.below(3)), comment_text(&tag, counter, true, &mut ctx.rng)));
                }
                1 => pre.push('\n'),
                _ => pre.push_str("  "),
            }
        }
        text = pre + &text;
    }
    match ctx.rng.below(8) {
        0 => text.push('\n'),
        1 => text.push_str("\n\n  \n"),
        2 | 3 if with_comments => {
            // a comment right after the last `;`, with or without a final line break
            counter += 1;
            text.push_str(&format!(" {}", comment_text(&tag, counter, false, &mut ctx.rng)));
            if ctx.rng.bool() {
                text.push('\n');
            }
        }
        4 | 5 if with_comments => {
            // comments at the end of the file, after the last policy
            text.push('\n');
            for _ in 0..1 + ctx.rng.below(3) {
                if ctx.rng.chance(1, 3) {
                    text.push('\n');
                }
                counter += 1;
                text.push_str(&format!("{}{}", " ".repeat(ctx.rng.below(3)), comment_text(&tag, counter, true, &mut ctx.rng)));
                text.push('\n');
            }
            if ctx.rng.bool() {
                text.pop();
            }
        }
        _ => {}
    }

    // ---------------- only parseable texts are judged
    let parsed = match PolicySet::from_str(&text) {
        Ok(p) => p,
        Err(e) => {
            ctx.count("rejected");
            let first = e.iter().next().map(|x| x.to_string()).unwrap_or_default();
            let class: String = first.chars().filter(|c| !c.is_ascii_digit()).take(40).collect();
            ctx.count(&format!("reject:{}", class));
            return;
        }
    };
    ctx.count("accepted");
    let orig: &ast::PolicySet = parsed.as_ref();
    let n_parsed = orig.all_templates().count();
    if n_parsed != pols.len() {
        return ctx.harness_error(format!("generated {} policies but the text parses to {}", pols.len(), n_parsed));
    }
    ctx.add("policies", n_parsed as u64);
    ctx.add("templates", orig.templates().count() as u64);
    let pieces = match scan(&text) {
        Ok(p) => p,
        Err(m) => return ctx.harness_error(format!("scanner on an accepted input: {m}")),
    };
    let cin: Vec<String> = comments_of(&pieces).iter().map(|s| s.to_string()).collect();
    {
        let mut uniq = cin.clone();
        uniq.sort();
        uniq.dedup();
        if uniq.len() != cin.len() || cin.len() != counter {
            return ctx.harness_error(format!("generator emitted {} comments, scanner sees {} ({} unique)", counter, cin.len(), uniq.len()));
        }
    }
    for k in 0..cin.len() {
        let (b, a) = comment_context(&pieces, k);
        ctx.count(&format!("comment_after:{}", b));
        ctx.count(&format!("comment_before:{}", a));
    }
    ctx.count(&format!("comments_per_text:{}", match cin.len() { 0 => "0", 1 => "1", 2..=5 => "2-5", 6..=20 => "6-20", _ => ">20" }));
    let ann_keys = annotation_keys(&text);
    let in_max = max_line_len(&text);
    ctx.max("line_len_in", in_max as u64);
    ctx.max("text_bytes", text.len() as u64);
    ctx.max("comments_in_one_text", cin.len() as u64);
    let inp = Input { text: &text, ast: orig, pieces: &pieces, ann_keys: &ann_keys };

    // ---------------- configurations: the grid is enumerated by idx, plus random picks
    let n_cfg = if ctx.thorough() { 10 } else { 5 };
    let mut cfgs: Vec<(usize, isize)> = vec![];
    let g0 = (ctx.idx % 30) as usize;
    cfgs.push((WIDTHS[g0 % 6], INDENTS[g0 / 6]));
    while cfgs.len() < n_cfg {
        let c = (*ctx.rng.pick(&WIDTHS), *ctx.rng.pick(&INDENTS));
        if !cfgs.contains(&c) {
            cfgs.push(c);
        }
    }
    let ffi_at = ctx.rng.below(cfgs.len());
    // second configuration for re-formatting each output (drawn up front: what is
    // generated must not depend on what the library answers)
    let cfg2s: Vec<Option<(usize, isize)>> = (0..cfgs.len()).map(|_| if ctx.rng.chance(1, 2) { Some((*ctx.rng.pick(&WIDTHS), *ctx.rng.pick(&INDENTS))) } else { None }).collect();
    let mut seen: BTreeSet<String> = BTreeSet::new();
    let mut over_width = false;
    let mut sample_out: Option<String> = None;
    for (ci, (lw, iw)) in cfgs.iter().enumerate() {
        let cfg = Config { line_width: *lw, indent_width: *iw };
        ctx.count(&format!("cell:w{}|i{}", lw, iw));
        ctx.count("configs_exercised");
        if in_max > *lw {
            over_width = true;
            ctx.count("input_has_line_over_width");
        }
        let res = policies_str_to_pretty(&text, &cfg);
        let out = match judge(ctx, &mut seen, "", &inp, &cfg, res, &text) {
            Some(o) => o,
            None => continue,
        };
        if max_line_len(&out) > *lw {
            ctx.count("output_has_line_over_width");
        }
        if !out.ends_with('\n') {
            ctx.count("output_without_final_newline");
        }

        // ---- the FFI entry point, same oracle
        if ci == ffi_at {
            match ffi_format(&text, &cfg) {
                Err(m) => ctx.harness_error(m),
                Ok(Err(errs)) => report(
                    ctx,
                    &mut seen,
                    "C12:ffi:format-failed".to_string(),
                    format!("ffi::format_json fails on a parseable text (width {} indent {}): {:?}", lw, iw, errs.first()),
                    json!({"input": text, "config": {"line_width": lw, "indent_width": iw}, "errors": errs}),
                ),
                Ok(Ok(f)) => {
                    ctx.count("ffi_calls");
                    if f == out {
                        ctx.count("ffi_same_as_direct");
                    } else {
                        ctx.count("ffi_differs_from_direct");
                        judge(ctx, &mut seen, "ffi:", &inp, &cfg, Ok(f), &text);
                    }
                }
            }
        }

        // ---- format the output again: policies and comments must survive again
        let out_ps = match PolicySet::from_str(&out) {
            Ok(p) => p,
            Err(_) => continue, // already reported by judge
        };
        let out_pieces = match scan(&out) {
            Ok(p) => p,
            Err(_) => continue,
        };
        let out_keys = annotation_keys(&out);
        // against the output itself ...
        let inp2 = Input { text: &out, ast: out_ps.as_ref(), pieces: &out_pieces, ann_keys: &out_keys };
        // same configuration: fixpoint for comment-free input
        let res2 = policies_str_to_pretty(&out, &cfg);
        let out2 = judge(ctx, &mut seen, "refmt:", &inp2, &cfg, res2, &text);
        if let Some(out2) = &out2 {
            if cin.is_empty() {
                ctx.count("idempotence_checks");
                if *out2 != out {
                    report(
                        ctx,
                        &mut seen,
                        "C12:not-idempotent".to_string(),
                        format!("comment-free text: fmt(fmt(t)) != fmt(t) at width {} indent {}", lw, iw),
                        json!({"input": text, "config": {"line_width": lw, "indent_width": iw}, "fmt1": out, "fmt2": out2}),
                    );
                }
            } else if *out2 == out {
                ctx.count("fixpoint_with_comments:yes");
            } else {
                ctx.count("fixpoint_with_comments:no");
            }
            // ... and transitively against the original text
            if let (Ok(ps2), Ok(p2)) = (PolicySet::from_str(out2), scan(out2)) {
                if same_policies(orig, ps2.as_ref()).is_ok() && comments_of(&p2) == comments_of(&pieces) {
                    ctx.count("refmt:agrees_with_original");
                }
            }
        }
        // a different configuration on the output (it is just another parseable text)
        if let Some((lw2, iw2)) = cfg2s[ci] {
            let cfg2 = Config { line_width: lw2, indent_width: iw2 };
            let res3 = policies_str_to_pretty(&out, &cfg2);
            judge(ctx, &mut seen, "refmt:", &inp2, &cfg2, res3, &text);
            ctx.count("refmt_other_config");
        }
        if sample_out.is_none() {
            sample_out = Some(out);
        }
    }

    // ---------------- evidence
    if cin.len() >= 2 || over_width {
        ctx.nontrivial(&format!("{}|{:?}", text, cfgs));
    }
    ctx.sample(|| json!({"input": text, "configs": cfgs, "comments": cin.len(), "policies": n_parsed, "style": style_name, "first_output": sample_out}));
}
