//! C01 — authorization: default-deny, forbid-overrides, skip-on-error, purity.
//! Oracle: per-policy outcomes from the reference interpreter + the authorizer
//! model; every set is re-presented (order, id spelling, entity insertion order,
//! JSON route, fresh objects, reused Authorizer) and all answers must coincide.

use crate::bridge;
use crate::gen::{self, ExprGen, Kind};
use crate::model::*;
use crate::pools;
use crate::refsem::{self, authorize_model, policy_outcome, ModelResponse, Outcome, Slots};
use crate::render::{self, TextOpts};
use crate::report::CaseCtx;
use crate::rng::Rng;
use cedar_policy::{Authorizer, Decision, Entities, Policy, PolicyId, PolicySet, Request, Response, SlotId, Template};
use serde_json::json;
use std::collections::{BTreeMap, BTreeSet, HashMap};

const HOSTILE_IDS: [&str; 12] = ["", " ", "policy0", "policy1", "policy2", "a b", "\u{3c0}", "p\"q", "nul\0", "P", "p", "\u{1F600}"];

#[derive(Clone, Debug)]
struct PolSpec {
    pol: GPolicy,
    slots: Slots,
    outcome: Outcome,
    /// index of the spec whose template this spec is another link of (same body, same slot values)
    shares_template_of: Option<usize>,
}

fn want_name(k: usize) -> &'static str {
    ["sat", "unsat", "err"][k]
}

fn scope_pr(rng: &mut Rng, w: &GWorld, me: &Uid, slot_ok: bool) -> ScopePR {
    let other = |rng: &mut Rng| {
        let us: Vec<&Uid> = w.entities.keys().collect();
        if !us.is_empty() && rng.chance(3, 4) {
            (*rng.pick(&us)).clone()
        } else {
            pools::small_uid(rng)
        }
    };
    let tgt = |rng: &mut Rng| {
        let u = if rng.bool() { me.clone() } else { other(rng) };
        if slot_ok && rng.chance(1, 3) {
            EntOrSlot::Slot
        } else {
            EntOrSlot::Ent(u)
        }
    };
    let ty = |rng: &mut Rng| if rng.chance(2, 3) { me.ty.clone() } else { rng.pick(&pools::ENTITY_TYPES).to_string() };
    match rng.below(9) {
        0..=3 => ScopePR::Any,
        4 => ScopePR::Eq(tgt(rng)),
        5 | 6 => ScopePR::In(tgt(rng)),
        7 => ScopePR::Is(ty(rng)),
        _ => ScopePR::IsIn(ty(rng), tgt(rng)),
    }
}

fn error_cond(rng: &mut Rng, w: &GWorld) -> GExpr {
    let absent = Uid::new("A", "absent-entity");
    match rng.below(9) {
        0 => GExpr::eq(GExpr::bin(BinOp::Add, GExpr::Long(1), GExpr::Str("a".into())), GExpr::Long(2)),
        1 => GExpr::attr(GExpr::Ent(absent), "x"),
        2 => GExpr::attr(GExpr::Var(Var::Context), "no_such_attribute"),
        3 => GExpr::eq(GExpr::bin(BinOp::Mul, GExpr::Long(i64::MAX), GExpr::Long(2)), GExpr::Long(0)),
        4 => GExpr::eq(GExpr::call("decimal", vec![GExpr::Str("1.23456".into())]), GExpr::call("decimal", vec![GExpr::Str("1.0".into())])),
        5 => GExpr::Long(7), // non-boolean condition
        6 => GExpr::or(GExpr::Bool(false), GExpr::Not(GExpr::Str("x".into()).b())),
        7 => GExpr::bin(BinOp::GetTag, GExpr::Ent(w.principal.clone()), GExpr::Str("no-such-tag".into())),
        _ => GExpr::ite(GExpr::Bool(true), GExpr::Neg(GExpr::Long(i64::MIN).b()), GExpr::Long(0)),
    }
}

/// a policy whose reference outcome is `want` (0 sat, 1 unsat, 2 err)
fn make_policy(rng: &mut Rng, w: &GWorld, effect: Effect, want: usize, allow_template: bool) -> PolSpec {
    for attempt in 0..40 {
        let templ = allow_template && rng.chance(1, 4);
        let mut pol = GPolicy {
            annotations: if rng.chance(1, 5) { vec![("id".into(), pools::string(rng)), ("x".into(), "y".into())] } else { vec![] },
            effect,
            principal: scope_pr(rng, w, &w.principal, templ),
            action: match rng.below(6) {
                0 => ScopeA::Eq(if rng.bool() { w.action.clone() } else { Uid::new("Action", "other") }),
                1 => ScopeA::In(if rng.bool() { w.action.clone() } else { Uid::new("Action", "group") }),
                2 => ScopeA::InList(vec![Uid::new("Action", "other"), if rng.bool() { w.action.clone() } else { Uid::new("Action", "edit") }]),
                _ => ScopeA::Any,
            },
            resource: scope_pr(rng, w, &w.resource, templ),
            conds: vec![],
        };
        // hidden-error-behind-short-circuit shapes count as not erroring
        let n_conds = rng.below(3);
        for _ in 0..n_conds {
            let is_when = rng.chance(2, 3);
            let c = if want == 2 && attempt > 10 {
                error_cond(rng, w)
            } else if rng.chance(1, 6) {
                let hidden = error_cond(rng, w);
                if rng.bool() {
                    GExpr::or(GExpr::Bool(true), hidden)
                } else {
                    GExpr::and(GExpr::Bool(false), hidden)
                }
            } else {
                let depth = 1 + rng.below(3);
                let mut g = ExprGen::new(rng, w);
                g.chaos = if want == 2 { 25 } else { 5 };
                g.of_kind(Kind::Bool, depth)
            };
            pol.conds.push((is_when, c));
        }
        if attempt > 25 {
            // canonical fallbacks
            pol.principal = ScopePR::Any;
            pol.resource = ScopePR::Any;
            pol.action = ScopeA::Any;
            pol.conds = vec![(true, match want {
                0 => GExpr::Bool(true),
                1 => GExpr::Bool(false),
                _ => error_cond(rng, w),
            })];
        }
        let slots = Slots {
            principal: if pol.has_slot(Slot::Principal) { Some(if rng.bool() { w.principal.clone() } else { pools::small_uid(rng) }) } else { None },
            resource: if pol.has_slot(Slot::Resource) { Some(if rng.bool() { w.resource.clone() } else { pools::small_uid(rng) }) } else { None },
        };
        let outcome = policy_outcome(&pol, w, &slots);
        let k = match outcome {
            Outcome::Satisfied => 0,
            Outcome::NotSatisfied => 1,
            Outcome::Error(_) => 2,
        };
        if k == want {
            return PolSpec { pol, slots, outcome, shares_template_of: None };
        }
    }
    unreachable!("fallback shapes always realise the wanted outcome")
}

struct Built {
    pset: PolicySet,
}

/// Build the library policy set from specs with the given ids, in the given order.
fn build_pset(specs: &[PolSpec], ids: &[String], order: &[usize], rng: &mut Rng, random_text: bool) -> Result<Built, String> {
    let mut pset = PolicySet::new();
    for &i in order {
        let s = &specs[i];
        let text = {
            let mut o = if random_text { TextOpts::random(rng) } else { TextOpts::plain(rng) };
            render::policy_text(&s.pol, &mut o)
        };
        if s.pol.is_template() {
            let tid = PolicyId::new(format!("template-of-{}", ids[s.shares_template_of.unwrap_or(i)]));
            if pset.template(&tid).is_none() {
                let t = Template::parse(Some(tid.clone()), &text).map_err(|e| format!("template does not parse: {text}: {e}"))?;
                pset.add_template(t).map_err(|e| format!("add_template: {e}"))?;
            }
            let mut vals: HashMap<SlotId, cedar_policy::EntityUid> = HashMap::new();
            if let Some(u) = &s.slots.principal {
                vals.insert(SlotId::principal(), bridge::uid(u));
            }
            if let Some(u) = &s.slots.resource {
                vals.insert(SlotId::resource(), bridge::uid(u));
            }
            pset.link(tid, PolicyId::new(&ids[i]), vals).map_err(|e| format!("link: {e}"))?;
        } else {
            let p = Policy::parse(Some(PolicyId::new(&ids[i])), &text).map_err(|e| format!("policy does not parse: {text}: {e}"))?;
            pset.add(p).map_err(|e| format!("add: {e}"))?;
        }
    }
    Ok(Built { pset })
}

#[derive(Clone, Debug, PartialEq, Eq)]
struct ObsResp {
    allow: bool,
    reasons: Vec<String>,
    errors: Vec<String>,
    error_msgs: Vec<(String, String)>,
}

fn observe(resp: &Response) -> ObsResp {
    let mut reasons: Vec<String> = resp.diagnostics().reason().map(|p| AsRef::<str>::as_ref(p).to_string()).collect();
    let n_reasons = reasons.len();
    reasons.sort();
    reasons.dedup();
    let mut errors = vec![];
    let mut error_msgs = vec![];
    for e in resp.diagnostics().errors() {
        let cedar_policy::AuthorizationError::PolicyEvaluationError(pe) = e;
        let id = AsRef::<str>::as_ref(pe.policy_id()).to_string();
        errors.push(id.clone());
        error_msgs.push((id, pe.inner().to_string()));
    }
    if reasons.len() != n_reasons {
        errors.push("<<duplicate reason reported>>".into());
    }
    errors.sort();
    error_msgs.sort();
    ObsResp { allow: resp.decision() == Decision::Allow, reasons, errors, error_msgs }
}

fn entities_variant(w: &GWorld, variant: usize, rng: &mut Rng) -> Result<Entities, String> {
    let mut list = bridge::entity_list(w)?;
    match variant {
        0 => Entities::from_entities(list, None).map_err(|e| e.to_string()),
        1 => {
            rng.shuffle(&mut list);
            Entities::from_entities(list, None).map_err(|e| e.to_string())
        }
        2 => {
            rng.shuffle(&mut list);
            let mut es = Entities::empty();
            while !list.is_empty() {
                let n = 1 + rng.below(3.min(list.len()));
                let batch: Vec<_> = list.drain(..n).collect();
                es = es.add_entities(batch, None).map_err(|e| e.to_string())?;
            }
            Ok(es)
        }
        _ => Entities::from_json_value(render::entities_json(w), None).map_err(|e| bridge::err_chain(&e)),
    }
}

pub fn case(ctx: &mut CaseCtx) {
    let w = gen::world(&mut ctx.rng);
    // ---- the (effect, outcome) vector: bounded-exhaustive prefix, then random
    let max_exh_n: u32 = if ctx.thorough() { 4 } else { 3 };
    let mut exh_total = 0u64;
    for n in 0..=max_exh_n {
        exh_total += 2 * 6u64.pow(n); // two realisations each
    }
    let mut vector: Vec<(Effect, usize)> = vec![];
    if ctx.idx < exh_total {
        let mut i = ctx.idx;
        let mut n = 0u32;
        loop {
            let block = 2 * 6u64.pow(n);
            if i < block {
                break;
            }
            i -= block;
            n += 1;
        }
        let mut code = i / 2;
        for _ in 0..n {
            let c = (code % 6) as usize;
            code /= 6;
            vector.push((if c < 3 { Effect::Permit } else { Effect::Forbid }, c % 3));
        }
        ctx.count("exhaustive_vectors");
        ctx.max("exhaustive_n", n as u64);
    } else {
        // usually 0..8 policies; now and then a large set (hash-map growth, many reasons / errors at once)
        let n = if ctx.rng.chance(1, 25) { 9 + ctx.rng.below(40) } else { ctx.rng.below(9) };
        for _ in 0..n {
            vector.push((if ctx.rng.chance(3, 5) { Effect::Permit } else { Effect::Forbid }, ctx.rng.weighted(&[3, 4, 2])));
        }
    }
    let specs: Vec<PolSpec> = vector.iter().map(|(eff, want)| make_policy(&mut ctx.rng, &w, *eff, *want, true)).collect();
    // now and then some policy appears several times under different ids: further links of the same template with
    // the same slot values, or separately parsed copies of the same text (equal bodies, equal errors, equal locations)
    let mut specs = specs;
    if !specs.is_empty() && ctx.idx >= exh_total && ctx.rng.chance(1, 4) {
        for _ in 0..1 + ctx.rng.below(3) {
            let j = ctx.rng.below(specs.len());
            let mut dup = specs[j].clone();
            if dup.pol.is_template() && ctx.rng.chance(3, 4) {
                dup.shares_template_of = Some(specs[j].shares_template_of.unwrap_or(j));
                ctx.count("policies:extra-link-of-same-template");
            } else {
                ctx.count("policies:copy-under-another-id");
            }
            specs.push(dup);
        }
    }
    let ids: Vec<String> = (0..specs.len()).map(|i| format!("p{i}")).collect();
    let model: ModelResponse = authorize_model(&specs.iter().zip(&ids).map(|(s, id)| (id.clone(), s.pol.effect, s.outcome)).collect::<Vec<_>>());
    let n_sp = specs.iter().filter(|s| s.pol.effect == Effect::Permit && s.outcome == Outcome::Satisfied).count();
    let n_sf = specs.iter().filter(|s| s.pol.effect == Effect::Forbid && s.outcome == Outcome::Satisfied).count();
    let n_er = specs.iter().filter(|s| matches!(s.outcome, Outcome::Error(_))).count();
    ctx.count(&format!("cell:satP={},satF={},err={}", n_sp.min(3), n_sf.min(3), n_er.min(3)));
    ctx.count(if model.allow { "decision:allow" } else { "decision:deny" });
    ctx.add("policies:template-linked", specs.iter().filter(|s| s.pol.is_template()).count() as u64);
    ctx.add("policies:static", specs.iter().filter(|s| !s.pol.is_template()).count() as u64);

    let req = match bridge::request(&w, None) {
        Ok(r) => r,
        Err(e) => return ctx.harness_error(format!("request: {e}")),
    };
    let identity: Vec<usize> = (0..specs.len()).collect();
    let base = match build_pset(&specs, &ids, &identity, &mut ctx.rng, false) {
        Ok(b) => b,
        Err(e) => return ctx.harness_error(e),
    };
    let ents0 = match entities_variant(&w, 0, &mut ctx.rng) {
        Ok(e) => e,
        Err(e) => return ctx.harness_error(format!("entities: {e}")),
    };
    let detail = |variant: &str, obs: &ObsResp, ids: &[String]| {
        json!({
            "variant": variant,
            "policies": specs.iter().zip(ids).map(|(s, id)| json!({"id": id, "text": render::policy_text(&s.pol, &mut TextOpts::plain(&mut Rng::new(0))), "slots": format!("{:?}", s.slots), "model_outcome": format!("{:?}", s.outcome)})).collect::<Vec<_>>(),
            "principal": format!("{:?}", w.principal), "action": format!("{:?}", w.action), "resource": format!("{:?}", w.resource),
            "context": render::context_json(&w), "entities": render::entities_json(&w),
            "expected": {"allow": model.allow, "reasons": model.reasons, "errors": model.errors},
            "observed": {"allow": obs.allow, "reasons": obs.reasons, "errors": obs.errors},
        })
    };
    let auth = Authorizer::new();
    let obs0 = observe(&auth.is_authorized(&req, &base.pset, &ents0));
    let mut variants_answered = 1;
    if obs0.allow != model.allow {
        ctx.violation("C01:decision", format!("decision {} but the model says {}", obs0.allow, model.allow), detail("base", &obs0, &ids));
    }
    if obs0.reasons != model.reasons {
        ctx.violation("C01:reasons", format!("reasons {:?} but the model says {:?}", obs0.reasons, model.reasons), detail("base", &obs0, &ids));
    }
    if obs0.errors != model.errors {
        ctx.violation("C01:errors", format!("erroring ids {:?} but the model says {:?}", obs0.errors, model.errors), detail("base", &obs0, &ids));
    }
    // error classes agree with the reference
    for (s, id) in specs.iter().zip(&ids) {
        if let Outcome::Error(set) = s.outcome {
            for e in auth.is_authorized(&req, &base.pset, &ents0).diagnostics().errors() {
                let cedar_policy::AuthorizationError::PolicyEvaluationError(pe) = e;
                if AsRef::<str>::as_ref(pe.policy_id()) == id.as_str() && !set.contains(bridge::err_class(pe.inner())) {
                    ctx.violation("C01:error-class", format!("policy {id} errors with class {} but the model allows {}", refsem::class_name(bridge::err_class(pe.inner())), set.names()), detail("base", &obs0, &ids));
                }
            }
        }
    }

    // ---- re-presentations
    let mut check_same = |ctx: &mut CaseCtx, name: &str, obs: &ObsResp, rename: &BTreeMap<String, String>, same_ids: bool| {
        let map = |v: &Vec<String>| {
            let mut m: Vec<String> = v.iter().map(|x| rename.get(x).cloned().unwrap_or_else(|| format!("<<unknown id {x:?}>>"))).collect();
            m.sort();
            m
        };
        let mapped = ObsResp { allow: obs.allow, reasons: map(&obs.reasons), errors: map(&obs.errors), error_msgs: vec![] };
        ctx.count(&format!("variant:{name}"));
        if mapped.allow != obs0.allow || mapped.reasons != obs0.reasons || mapped.errors != obs0.errors {
            ctx.violation(
                &format!("C01:purity:{name}"),
                format!("re-presentation `{name}` answers (allow={}, reasons={:?}, errors={:?}) but the base call answered (allow={}, reasons={:?}, errors={:?})", mapped.allow, mapped.reasons, mapped.errors, obs0.allow, obs0.reasons, obs0.errors),
                detail(name, obs, &ids),
            );
        } else if same_ids && obs.error_msgs != obs0.error_msgs {
            ctx.violation(&format!("C01:purity-messages:{name}"), format!("re-presentation `{name}` reports different error messages: {:?} vs {:?}", obs.error_msgs, obs0.error_msgs), detail(name, obs, &ids));
        }
    };
    let ident_map: BTreeMap<String, String> = ids.iter().map(|i| (i.clone(), i.clone())).collect();

    // same call twice
    let o = observe(&auth.is_authorized(&req, &base.pset, &ents0));
    check_same(ctx, "same-call-twice", &o, &ident_map, true);
    variants_answered += 1;

    // policies added in a different order, different text rendering
    let mut order = identity.clone();
    ctx.rng.shuffle(&mut order);
    match build_pset(&specs, &ids, &order, &mut ctx.rng, true) {
        Ok(b) => {
            let o = observe(&Authorizer::new().is_authorized(&req, &b.pset, &ents0));
            check_same(ctx, "policy-order", &o, &ident_map, false);
            variants_answered += 1;
        }
        Err(e) => ctx.harness_error(e),
    }

    // ids renamed by a bijection into hostile spellings
    let mut pool: Vec<String> = HOSTILE_IDS.iter().map(|s| s.to_string()).collect();
    ctx.rng.shuffle(&mut pool);
    {
        while pool.len() < specs.len() {
            let k = pool.len();
            pool.push(format!("policy{k}\u{1F600}{}", "x".repeat(k % 3)));
        }
        let new_ids: Vec<String> = pool[..specs.len()].to_vec();
        let back: BTreeMap<String, String> = new_ids.iter().cloned().zip(ids.iter().cloned()).collect();
        let mut order2 = identity.clone();
        ctx.rng.shuffle(&mut order2);
        match build_pset(&specs, &new_ids, &order2, &mut ctx.rng, false) {
            Ok(b) => {
                let o = observe(&Authorizer::new().is_authorized(&req, &b.pset, &ents0));
                check_same(ctx, "ids-renamed", &o, &back, false);
                variants_answered += 1;
            }
            Err(e) => ctx.harness_error(e),
        }
    }

    // entity presentation
    for (v, name) in [(1usize, "entities-shuffled"), (2, "entities-incremental"), (3, "entities-from-json")] {
        if v == 3 && !render::world_json_representable(&w) {
            ctx.count("variant-skipped:entities-from-json(reserved key)");
            continue;
        }
        match entities_variant(&w, v, &mut ctx.rng) {
            Ok(es) => {
                let o = observe(&Authorizer::new().is_authorized(&req, &base.pset, &es));
                check_same(ctx, name, &o, &ident_map, true);
                variants_answered += 1;
            }
            Err(e) => ctx.harness_error(format!("{name}: {e}")),
        }
    }

    // fresh request object + the same Authorizer reused after unrelated calls
    {
        let n_other = 1 + ctx.rng.below(4);
        for _ in 0..n_other {
            let w2 = gen::world(&mut ctx.rng);
            if let (Ok(r2), Ok(e2)) = (bridge::request(&w2, None), bridge::entities(&w2, None)) {
                let _ = auth.is_authorized(&r2, &base.pset, &e2);
                let _ = auth.is_authorized(&req, &base.pset, &e2);
            }
        }
        let req2 = bridge::request(&w, None).expect("request");
        let o = observe(&auth.is_authorized(&req2, &base.pset, &ents0));
        check_same(ctx, "after-unrelated-calls", &o, &ident_map, true);
        variants_answered += 1;
    }

    if !specs.is_empty() && variants_answered >= 3 {
        let canon: Vec<String> = specs.iter().map(|s| format!("{:?}|{:?}", s.pol, s.slots)).collect();
        ctx.nontrivial(&format!("{:?}|{:?}", canon, w));
    }
    ctx.sample(|| {
        json!({"policies": specs.iter().map(|s| render::policy_text(&s.pol, &mut TextOpts::plain(&mut Rng::new(0)))).collect::<Vec<_>>(),
               "outcomes": specs.iter().map(|s| s.outcome.short()).collect::<Vec<_>>(),
               "decision": if model.allow {"allow"} else {"deny"}, "reasons": model.reasons, "errors": model.errors, "variants": variants_answered})
    });
    let _ = BTreeSet::<u8>::new();
    let _ = want_name(0);
}
