//! C02 — expression evaluation follows the language semantics.
//! Oracle: refsem::Interp.  Routes: text -> Expression -> Evaluator::interpret and
//! eval_expression; text inside `when {}` -> is_authorized; harness-written JSON policy
//! -> Policy::from_json -> is_authorized.  Intermediate set values seen by the
//! evaluator trace are checked for the fast/authoritative invariant.

use super::common::*;
use crate::bridge::{self, Obs};
use crate::gen::{self, ExprGen};
use crate::model::*;
use crate::refsem::{self, Interp};
use crate::render::{self, TextOpts};
use crate::report::CaseCtx;
use cedar_policy::{Effect as CEffect, Expression, Policy, PolicyId};
use cedar_policy_core::ast::PartialValue;
use serde_json::json;
use std::str::FromStr;

fn result_class(r: &refsem::R) -> String {
    match r {
        Ok(v) => format!("ok:{}", v.kind()),
        Err(e) => format!("err:{}", e.names()),
    }
}

pub fn case(ctx: &mut CaseCtx) {
    let w = gen::world(&mut ctx.rng);
    let depth = 1 + ctx.rng.below(5);
    let chaos = *ctx.rng.pick(&[3u32, 12, 12, 30]);
    let want_bool = ctx.rng.chance(1, 2);
    let e = {
        let mut g = ExprGen::new(&mut ctx.rng, &w);
        g.chaos = chaos;
        if want_bool {
            g.of_kind(gen::Kind::Bool, depth)
        } else {
            g.any(depth)
        }
    };
    let expected = Interp::new(&w).eval(&e);
    let text = {
        let mut o = TextOpts::random(&mut ctx.rng);
        render::expr_text(&e, &mut o)
    };

    let req = match bridge::request(&w, None) {
        Ok(r) => r,
        Err(e) => return ctx.harness_error(format!("request: {e}")),
    };
    let ents = match bridge::entities(&w, None) {
        Ok(r) => r,
        Err(e) => return ctx.harness_error(format!("entities: {e}")),
    };

    let detail = |route: &str, obs: String| {
        json!({"route": route, "expr": text, "expected": bridge::show_expected(&expected), "observed": obs,
               "gexpr": format!("{:?}", e),
               "entities": render::entities_json(&w), "context": render::context_json(&w),
               "principal": format!("{:?}", w.principal), "action": format!("{:?}", w.action), "resource": format!("{:?}", w.resource)})
    };

    // cell = (root operator, operand kinds, outcome class)
    let mut kinds = vec![];
    e.for_children(|c| {
        kinds.push(match Interp::new(&w).eval(c) {
            Ok(v) => v.kind().to_string(),
            Err(_) => "ERR".to_string(),
        })
    });
    let cell = format!("cell:{}({})->{}", e.node_name(), kinds.join(","), result_class(&expected));
    ctx.count(&cell);
    ctx.count(&format!("outcome:{}", result_class(&expected)));

    // ---- route 1: text -> Expression -> interpret (with trace) and eval_expression
    let parsed = match Expression::from_str(&text) {
        Ok(x) => Some(x),
        Err(err) => {
            ctx.count("route1:parse_rejected");
            let msg = err.to_string();
            let key = format!("parse_rejected:{}", msg.chars().take(60).collect::<String>());
            ctx.count(&key);
            None
        }
    };
    let mut routes_ok = 0;
    if let Some(x) = &parsed {
        cedar_policy_core::verif_hooks::start_trace();
        let obs_r = interpret(x.as_ref(), &req, &ents);
        let trace = cedar_policy_core::verif_hooks::take_trace();
        ctx.add("trace_events", trace.len() as u64);
        for ev in &trace {
            if let Ok(PartialValue::Value(v)) = &ev.outcome {
                if matches!(v.value, cedar_policy_core::ast::ValueKind::Set(_)) {
                    ctx.count("intermediate_sets_checked");
                }
                if let Err(m) = bridge::value_back(v) {
                    if m.starts_with("SET-INVARIANT") {
                        ctx.violation("C02:set-representation", m.clone(), detail("interpret-trace", m));
                    }
                }
            }
        }
        let obs = match obs_r {
            Ok(o) => o,
            Err(m) if m.starts_with("SET-INVARIANT") => {
                ctx.violation("C02:set-representation", m.clone(), detail("interpret", m));
                return;
            }
            Err(m) => return ctx.harness_error(m),
        };
        if !bridge::agrees(&expected, &obs) {
            ctx.violation(&format!("C02:interpret:{}", e.node_name()), format!("Evaluator::interpret on `{}`: expected {}, observed {}", text, bridge::show_expected(&expected), obs.show()), detail("interpret", obs.show()));
        } else {
            routes_ok += 1;
        }
        // public eval_expression must tell the same story
        let pub_obs = match cedar_policy::eval_expression(&req, &ents, x) {
            Ok(r) => match bridge::evalresult_back(&r) {
                Ok(g) => Obs::Val(g),
                Err(m) => return ctx.harness_error(m),
            },
            Err(err) => Obs::Err(bridge::err_class(&err)),
        };
        let same = match (&obs, &pub_obs) {
            (Obs::Err(a), Obs::Err(b)) => a == b,
            (Obs::Val(a), Obs::Val(b)) => bridge::strip_ext(a) == *b || (contains_ext(a) && set_with_ext(a)),
            _ => false,
        };
        if !same {
            ctx.violation("C02:eval_expression-vs-interpret", format!("eval_expression {} vs interpret {}", pub_obs.show(), obs.show()), detail("eval_expression", pub_obs.show()));
        } else {
            routes_ok += 1;
        }
    }

    // ---- route 2: inside `when { .. }` of a policy
    let exp_out = outcome_of_result(&expected);
    let ptext = format!("permit(principal, action, resource) when {{ {} }};", text);
    match Policy::parse(Some(PolicyId::new("p")), &ptext) {
        Ok(p) => {
            debug_assert!(p.effect() == CEffect::Permit);
            match authorize_single(p, &req, &ents) {
                Ok((_, o)) => {
                    if !outcome_agrees(&exp_out, &o) {
                        ctx.violation(&format!("C02:when:{}", e.node_name()), format!("policy `when {{ {} }}`: expected {:?}, observed {:?}", text, exp_out, o), detail("when-clause", format!("{:?}", o)));
                    } else {
                        routes_ok += 1;
                    }
                }
                Err(m) => ctx.violation("C02:when:response-shape", m.clone(), detail("when-clause", m)),
            }
        }
        Err(_) => {
            ctx.count("route2:parse_rejected");
            if parsed.is_some() {
                ctx.count("route2:rejected_but_expression_accepted");
            }
        }
    }

    // ---- route 3: harness-written JSON policy
    let est = json!({
        "effect": "permit",
        "principal": {"op": "All"}, "action": {"op": "All"}, "resource": {"op": "All"},
        "conditions": [{"kind": "when", "body": render::est_expr(&e)}]
    });
    match Policy::from_json(Some(PolicyId::new("j")), est.clone()) {
        Ok(p) => match authorize_single(p, &req, &ents) {
            Ok((_, o)) => {
                if !outcome_agrees(&exp_out, &o) {
                    let mut d = detail("json-policy", format!("{:?}", o));
                    d["est"] = est;
                    ctx.violation(&format!("C02:json:{}", e.node_name()), format!("JSON policy for `{}`: expected {:?}, observed {:?}", text, exp_out, o), d);
                } else {
                    routes_ok += 1;
                }
            }
            Err(m) => ctx.violation("C02:json:response-shape", m.clone(), detail("json-policy", m)),
        },
        Err(err) => {
            ctx.count("route3:json_rejected");
            let msg = err.to_string();
            ctx.count(&format!("json_rejected:{}", msg.chars().take(60).collect::<String>()));
        }
    }
    ctx.add("routes_agreeing", routes_ok);

    if e.ops() >= 2 && routes_ok >= 1 {
        ctx.nontrivial(&format!("{:?}|{:?}", e, w));
    }
    ctx.sample(|| json!({"expr": text, "expected": bridge::show_expected(&expected), "entities": w.entities.len(), "routes_agreeing": routes_ok}));
}

/// a set holding several extension values loses cardinality when they are replaced by a placeholder
fn set_with_ext(v: &GValue) -> bool {
    match v {
        GValue::Set(xs) => xs.iter().any(contains_ext),
        GValue::Rec(m) => m.values().any(set_with_ext),
        _ => false,
    }
}

fn contains_ext(v: &GValue) -> bool {
    match v {
        GValue::Ext(_) => true,
        GValue::Set(xs) => xs.iter().any(contains_ext),
        GValue::Rec(m) => m.values().any(contains_ext),
        _ => false,
    }
}
