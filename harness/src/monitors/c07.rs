//! C07 — extension types compute exact results.
//! Oracle: the extension calculators of ext.rs (through refsem).  Workload:
//! pool strings, grammar-generated strings, one-edit near misses, boundary grids of
//! value pairs for every operation, equality by represented value.

use super::common::*;
use crate::bridge::{self, Obs};
use crate::ext;
use crate::model::*;
use crate::pools;
use crate::refsem::Interp;
use crate::render::{self, TextOpts};
use crate::report::CaseCtx;
use crate::rng::Rng;
use cedar_policy::{Context, Expression, RestrictedExpression};
use serde_json::json;
use std::collections::BTreeMap;
use std::str::FromStr;

const CTORS: [&str; 4] = ["decimal", "ip", "datetime", "duration"];

fn pool_for(c: &str) -> &'static [&'static str] {
    match c {
        "decimal" => &pools::DECIMAL_STRS,
        "ip" => &pools::IP_STRS,
        "datetime" => &pools::DATETIME_STRS,
        _ => &pools::DURATION_STRS,
    }
}

const BOUNDARY_MS: [i64; 22] = [
    i64::MIN,
    i64::MIN + 1,
    i64::MIN + 86_399_999,
    i64::MIN + 86_400_000,
    -9_223_372_036_800_000_000, // lowest multiple of a day >= i64::MIN
    -9_223_372_036_800_000_001,
    -86_400_001,
    -86_400_000,
    -86_399_999,
    -1,
    0,
    1,
    999,
    1000,
    86_399_999,
    86_400_000,
    86_400_001,
    -62_167_219_200_000, // 0000-01-01
    253_402_300_799_999, // 9999-12-31T23:59:59.999
    i64::MAX - 86_400_000,
    i64::MAX - 1,
    i64::MAX,
];

fn digits(rng: &mut Rng, n: usize) -> String {
    (0..n).map(|_| (b'0' + rng.below(10) as u8) as char).collect()
}

fn digits_r(rng: &mut Rng, lo: usize, span: usize) -> String {
    let n = lo + rng.below(span);
    digits(rng, n)
}

fn gen_decimal(rng: &mut Rng) -> String {
    let sign = match rng.below(6) {
        0 | 1 => "-",
        2 if rng.chance(1, 4) => "+",
        _ => "",
    };
    let int = match rng.below(6) {
        0 => "922337203685477".to_string(),
        1 => "922337203685478".to_string(),
        2 => "0".to_string(),
        3 => format!("{}{}", "0".repeat(rng.below(3)), digits_r(rng, 1, 4)),
        4 => digits_r(rng, 14, 8),
        _ => digits_r(rng, 1, 6),
    };
    let frac = match rng.below(8) {
        0 => "5807".to_string(),
        1 => "5808".to_string(),
        2 => "5809".to_string(),
        3 => digits_r(rng, 5, 2),
        4 => String::new(),
        _ => digits_r(rng, 1, 4),
    };
    if rng.chance(1, 12) {
        format!("{sign}{int}")
    } else {
        format!("{sign}{int}.{frac}")
    }
}

fn gen_ip(rng: &mut Rng) -> String {
    let v6 = rng.chance(2, 5);
    let mut s = if !v6 {
        let oct = |rng: &mut Rng| match rng.below(12) {
            0 => "0".to_string(),
            1 => "255".to_string(),
            2 => "256".to_string(),
            3 => format!("0{}", rng.below(10)),
            4 => "127".to_string(),
            5 => "224".to_string(),
            6 => "239".to_string(),
            _ => rng.below(256).to_string(),
        };
        let n = if rng.chance(1, 12) { 3 + rng.below(3) } else { 4 };
        (0..n).map(|_| oct(rng)).collect::<Vec<_>>().join(".")
    } else {
        let grp = |rng: &mut Rng| match rng.below(8) {
            0 => "0".to_string(),
            1 => "ffff".to_string(),
            2 => "FF00".to_string(),
            3 => "1".to_string(),
            4 => format!("{:05x}", rng.below(0x100000)),
            _ => format!("{:x}", rng.below(0x10000)),
        };
        match rng.below(6) {
            0 => {
                // full form
                let n = if rng.chance(1, 10) { 7 + rng.below(3) } else { 8 };
                (0..n).map(|_| grp(rng)).collect::<Vec<_>>().join(":")
            }
            1 => "::".to_string(),
            2 => format!("::{}", grp(rng)),
            3 => format!("{}::", grp(rng)),
            4 => {
                let h = rng.below(5);
                let t = rng.below(5);
                format!("{}::{}", (0..h).map(|_| grp(rng)).collect::<Vec<_>>().join(":"), (0..t).map(|_| grp(rng)).collect::<Vec<_>>().join(":"))
            }
            _ => format!("::ffff:{}.{}.{}.{}", rng.below(256), rng.below(256), rng.below(256), rng.below(256)),
        }
    };
    if rng.chance(3, 5) {
        let p = match rng.below(12) {
            0 => "0".to_string(),
            1 => "8".to_string(),
            2 => "31".to_string(),
            3 => "32".to_string(),
            4 => "33".to_string(),
            5 => "128".to_string(),
            6 => "129".to_string(),
            7 => format!("0{}", rng.below(33)),
            8 => String::new(),
            9 => "1000".to_string(),
            _ => rng.below(130).to_string(),
        };
        s = format!("{s}/{p}");
    }
    s
}

fn gen_datetime(rng: &mut Rng) -> String {
    let y = match rng.below(8) {
        0 => 0,
        1 => 9999,
        2 => 1970,
        3 => 1969,
        4 => *rng.pick(&[1900, 2000, 2024, 2100, 400, 4]),
        _ => rng.below(10000) as i64,
    };
    let m = match rng.below(10) {
        0 => 0,
        1 => 13,
        2 => 2,
        _ => 1 + rng.below(12) as i64,
    };
    let d = match rng.below(10) {
        0 => 0,
        1 => 32,
        2 => 31,
        3 => 30,
        4 => 29,
        _ => 1 + rng.below(28) as i64,
    };
    let date = if rng.chance(1, 20) { format!("{y}-{m}-{d}") } else { format!("{y:04}-{m:02}-{d:02}") };
    if rng.chance(1, 4) {
        return date;
    }
    let hh = match rng.below(8) {
        0 => 24,
        1 => 23,
        2 => 0,
        _ => rng.below(24) as i64,
    };
    let mm = match rng.below(8) {
        0 => 60,
        1 => 59,
        _ => rng.below(60) as i64,
    };
    let ss = match rng.below(8) {
        0 => 60,
        1 => 59,
        _ => rng.below(60) as i64,
    };
    let mut s = format!("{date}T{hh:02}:{mm:02}:{ss:02}");
    match rng.below(6) {
        0 => s.push_str(&format!(".{:03}", rng.below(1000))),
        1 => s.push_str(".999"),
        2 if rng.chance(1, 3) => s.push_str(&format!(".{}", digits_r(rng, 1, 5))),
        _ => {}
    }
    match rng.below(8) {
        0..=2 => s.push('Z'),
        3..=5 => {
            let oh = match rng.below(6) {
                0 => 24,
                1 => 23,
                _ => rng.below(24) as i64,
            };
            let om = match rng.below(6) {
                0 => 60,
                1 => 59,
                _ => rng.below(60) as i64,
            };
            s.push_str(&format!("{}{:02}{:02}", if rng.bool() { '+' } else { '-' }, oh, om));
        }
        6 => {}
        _ => s.push_str("+05:30"),
    }
    s
}

fn gen_duration(rng: &mut Rng) -> String {
    let units = ["d", "h", "m", "s", "ms"];
    let mults: [i128; 5] = [86_400_000, 3_600_000, 60_000, 1000, 1];
    let mut parts: Vec<(usize, String)> = vec![];
    for (i, _) in units.iter().enumerate() {
        if rng.chance(2, 5) {
            let q = match rng.below(8) {
                0 => (i64::MAX as i128 / mults[i]).to_string(),
                1 => (i64::MAX as i128 / mults[i] + 1).to_string(),
                2 => "0".to_string(),
                3 => format!("0{}", rng.below(100)),
                4 => "18446744073709551616".to_string(),
                _ => rng.below(100_000).to_string(),
            };
            parts.push((i, q));
        }
    }
    if rng.chance(1, 10) {
        rng.shuffle(&mut parts);
    }
    if rng.chance(1, 15) && !parts.is_empty() {
        let d = parts[0].clone();
        parts.push(d);
    }
    let body: String = parts.iter().map(|(i, q)| format!("{q}{}", units[*i])).collect();
    let sign = if rng.chance(1, 3) { "-" } else { "" };
    format!("{sign}{body}")
}

fn near_miss(rng: &mut Rng, s: &str) -> String {
    let alphabet: Vec<char> = "0123456789.:-+TZ/ dhms\u{661}aF".chars().collect();
    let mut cs: Vec<char> = s.chars().collect();
    match rng.below(5) {
        0 if !cs.is_empty() => {
            let i = rng.below(cs.len());
            cs.remove(i);
        }
        1 => {
            let i = rng.below(cs.len() + 1);
            cs.insert(i, *rng.pick(&alphabet));
        }
        2 if !cs.is_empty() => {
            let i = rng.below(cs.len());
            cs[i] = *rng.pick(&alphabet);
        }
        3 if !cs.is_empty() => {
            let i = rng.below(cs.len());
            let c = cs[i];
            cs.insert(i, c);
        }
        _ if cs.len() >= 2 => {
            let i = rng.below(cs.len() - 1);
            cs.swap(i, i + 1);
        }
        _ => cs.push('0'),
    }
    cs.into_iter().collect()
}

fn ctor_string(rng: &mut Rng, c: &str) -> String {
    let base = match rng.below(5) {
        0 | 1 => rng.pick(pool_for(c)).to_string(),
        _ => match c {
            "decimal" => gen_decimal(rng),
            "ip" => gen_ip(rng),
            "datetime" => gen_datetime(rng),
            _ => gen_duration(rng),
        },
    };
    if rng.chance(1, 4) {
        near_miss(rng, &base)
    } else {
        base
    }
}

fn ctor_expr(c: &str, s: String) -> GExpr {
    GExpr::call(c, vec![GExpr::Str(s)])
}

fn dt_expr(ms: i64) -> GExpr {
    match ext::fmt_datetime(ms) {
        Some(s) => ctor_expr("datetime", s),
        None => GExpr::call("offset", vec![ctor_expr("datetime", "1970-01-01".into()), ctor_expr("duration", format!("{ms}ms"))]),
    }
}

fn dur_expr(ms: i64) -> GExpr {
    ctor_expr("duration", format!("{ms}ms"))
}

fn boundary_ms(rng: &mut Rng) -> i64 {
    match rng.below(6) {
        0 => rng.i64_any(),
        1 => rng.range(-200_000_000, 200_000_000),
        2 => {
            let b = *rng.pick(&BOUNDARY_MS);
            b.saturating_add(rng.range(-2, 2))
        }
        _ => *rng.pick(&BOUNDARY_MS),
    }
}

fn ip_operand(rng: &mut Rng) -> GExpr {
    loop {
        let s = if rng.bool() { rng.pick(&pools::IP_STRS).to_string() } else { gen_ip(rng) };
        if ext::parse_ip(&s).is_some() || rng.chance(1, 10) {
            return ctor_expr("ip", s);
        }
    }
}

fn dec_operand(rng: &mut Rng) -> GExpr {
    let v = match rng.below(5) {
        0 => rng.i64_any(),
        1 => *rng.pick(&[i64::MIN, i64::MIN + 1, -1, 0, 1, i64::MAX - 1, i64::MAX, 9999, 10000, 10001, -9999, -10000]),
        _ => rng.range(-30_000, 30_000),
    };
    ctor_expr("decimal", ext::fmt_decimal(v))
}

/// number of enumerated (bounded-exhaustive) cases before random ones
fn n_pool_cases() -> u64 {
    (pools::DECIMAL_STRS.len() + pools::IP_STRS.len() + pools::DATETIME_STRS.len() + pools::DURATION_STRS.len()) as u64
}
fn n_grid_cases() -> u64 {
    // datetime boundary x duration boundary x {offset, durationSince, <, toDate...}
    (BOUNDARY_MS.len() * BOUNDARY_MS.len() * 3) as u64 + (pools::IP_STRS.len() * pools::IP_STRS.len()) as u64
}

fn build_case(ctx: &mut CaseCtx) -> (GExpr, &'static str) {
    let idx = ctx.idx;
    let np = n_pool_cases();
    if idx < np {
        // every pool string through its constructor
        let mut i = idx as usize;
        for c in CTORS {
            let p = pool_for(c);
            if i < p.len() {
                return (ctor_expr(c, p[i].to_string()), "pool-ctor");
            }
            i -= p.len();
        }
    }
    let ng = n_grid_cases();
    if idx < np + ng {
        let mut i = (idx - np) as usize;
        let nb = BOUNDARY_MS.len();
        if i < nb * nb * 3 {
            let (a, b, op) = (BOUNDARY_MS[i % nb], BOUNDARY_MS[(i / nb) % nb], i / (nb * nb));
            let e = match op {
                0 => GExpr::call("offset", vec![dt_expr(a), dur_expr(b)]),
                1 => GExpr::call("durationSince", vec![dt_expr(a), dt_expr(b)]),
                _ => GExpr::Rec(vec![
                    ("lt".into(), GExpr::bin(BinOp::Lt, dt_expr(a), dt_expr(b))),
                    ("le".into(), GExpr::bin(BinOp::Le, dur_expr(a), dur_expr(b))),
                    ("eq".into(), GExpr::eq(dt_expr(a), dt_expr(b))),
                    ("date".into(), GExpr::eq(GExpr::call("toDate", vec![dt_expr(a)]), GExpr::call("toDate", vec![dt_expr(b)]))),
                ]),
            };
            return (e, "grid-datetime");
        }
        i -= nb * nb * 3;
        let n = pools::IP_STRS.len();
        let (a, b) = (pools::IP_STRS[i % n], pools::IP_STRS[i / n]);
        return (GExpr::call("isInRange", vec![ctor_expr("ip", a.into()), ctor_expr("ip", b.into())]), "grid-ip");
    }
    let rng = &mut ctx.rng;
    match rng.below(10) {
        0..=2 => {
            let c = *rng.pick(&CTORS);
            (ctor_expr(c, ctor_string(rng, c)), "ctor")
        }
        3 => {
            // equality by represented value: two spellings
            let c = *rng.pick(&CTORS);
            let s1 = ctor_string(rng, c);
            let s2 = if rng.bool() { s1.clone() } else { ctor_string(rng, c) };
            let s2 = match (c, rng.below(3)) {
                ("decimal", 0) => format!("{s1}0"),
                ("decimal", 1) => format!("0{s1}"),
                ("ip", 0) => s1.to_uppercase(),
                ("datetime", 0) => format!("{s1}T00:00:00Z"),
                ("datetime", 1) => format!("{s1}T00:00:00.000+0000"),
                ("duration", 0) => format!("0d{s1}"),
                ("duration", 1) => format!("{s1}0ms"),
                _ => s2,
            };
            let op = if rng.bool() { BinOp::Eq } else { BinOp::Neq };
            (GExpr::bin(op, ctor_expr(c, s1), ctor_expr(c, s2)), "equality")
        }
        4 => {
            let f = *rng.pick(&["lessThan", "lessThanOrEqual", "greaterThan", "greaterThanOrEqual"]);
            let a = dec_operand(rng);
            let b = if rng.chance(1, 5) { a.clone() } else { dec_operand(rng) };
            (GExpr::call(f, vec![a, b]), "decimal-cmp")
        }
        5 => {
            let f = *rng.pick(&["isIpv4", "isIpv6", "isLoopback", "isMulticast"]);
            (GExpr::call(f, vec![ip_operand(rng)]), "ip-pred")
        }
        6 => (GExpr::call("isInRange", vec![ip_operand(rng), ip_operand(rng)]), "ip-range"),
        7 => {
            let a = boundary_ms(rng);
            let b = boundary_ms(rng);
            let e = match rng.below(4) {
                0 => GExpr::call("offset", vec![dt_expr(a), dur_expr(b)]),
                1 => GExpr::call("durationSince", vec![dt_expr(a), dt_expr(b)]),
                2 => GExpr::call("toDate", vec![dt_expr(a)]),
                _ => GExpr::call("toTime", vec![dt_expr(a)]),
            };
            (e, "datetime-op")
        }
        8 => {
            let f = *rng.pick(&["toMilliseconds", "toSeconds", "toMinutes", "toHours", "toDays"]);
            (GExpr::call(f, vec![dur_expr(boundary_ms(rng))]), "duration-conv")
        }
        _ => {
            let op = *rng.pick(&[BinOp::Lt, BinOp::Le, BinOp::Gt, BinOp::Ge, BinOp::Eq]);
            let a = boundary_ms(rng);
            let b = if rng.chance(1, 4) { a } else { boundary_ms(rng) };
            let e = match rng.below(3) {
                0 => GExpr::bin(op, dt_expr(a), dt_expr(b)),
                1 => GExpr::bin(op, dur_expr(a), dur_expr(b)),
                // mixed kinds: type error for < etc., false for ==
                _ => GExpr::bin(op, dt_expr(a), dur_expr(b)),
            };
            (e, "ext-relation")
        }
    }
}

pub fn case(ctx: &mut CaseCtx) {
    let (e, family) = build_case(ctx);
    ctx.count(&format!("family:{family}"));
    let w = GWorld {
        principal: Uid::new("A", "a"),
        action: Uid::new("Action", "view"),
        resource: Uid::new("A", "b"),
        context: BTreeMap::new(),
        entities: BTreeMap::new(),
    };
    let expected = Interp::new(&w).eval(&e);
    let text = {
        let mut o = TextOpts::plain(&mut ctx.rng);
        render::expr_text(&e, &mut o)
    };
    let req = bridge::request(&w, None).expect("request");
    let ents = bridge::entities(&w, None).expect("entities");
    let root = e.node_name();
    let class = match &expected {
        Ok(v) => format!("ok:{}", v.kind()),
        Err(s) => format!("err:{}", s.names()),
    };
    ctx.count(&format!("cell:{root}->{class}"));
    if let GExpr::Call(c, _) = &e {
        if CTORS.contains(&c.as_str()) {
            ctx.count(&format!("ctor:{}:{}", c, if expected.is_ok() { "accepted" } else { "rejected" }));
        }
    }

    let detail = |route: &str, obs: String| json!({"route": route, "expr": text, "expected": bridge::show_expected(&expected), "observed": obs});
    let parsed = match Expression::from_str(&text) {
        Ok(x) => x,
        Err(err) => {
            ctx.count("parse_rejected");
            ctx.harness_error(format!("generated extension expression does not parse: {text}: {err}"));
            return;
        }
    };
    let obs = match interpret(parsed.as_ref(), &req, &ents) {
        Ok(o) => o,
        Err(m) => return ctx.harness_error(m),
    };
    if !bridge::agrees(&expected, &obs) {
        ctx.violation(&format!("C07:{family}:{root}"), format!("`{}`: expected {}, observed {}", text, bridge::show_expected(&expected), obs.show()), detail("interpret", obs.show()));
    }

    // second route for bare constructors: RestrictedExpression::new_* placed in a context and read back
    if let GExpr::Call(c, args) = &e {
        if let (true, Some(GExpr::Str(s))) = (CTORS.contains(&c.as_str()), args.first()) {
            let rex = match c.as_str() {
                "decimal" => RestrictedExpression::new_decimal(s),
                "ip" => RestrictedExpression::new_ip(s),
                "datetime" => RestrictedExpression::new_datetime(s),
                _ => RestrictedExpression::new_duration(s),
            };
            let obs2 = match Context::from_pairs([("v".to_string(), rex)]) {
                Err(_) => Obs::Err(crate::refsem::EXTENSION),
                Ok(cx) => {
                    let r = cedar_policy::Request::new(bridge::uid(&w.principal), bridge::uid(&w.action), bridge::uid(&w.resource), cx, None).expect("request");
                    let x = Expression::from_str("context.v").expect("context.v");
                    match interpret(x.as_ref(), &r, &ents) {
                        Ok(o) => o,
                        Err(m) => return ctx.harness_error(m),
                    }
                }
            };
            ctx.count("route:restricted-expression");
            if !bridge::agrees(&expected, &obs2) {
                ctx.violation(&format!("C07:restricted:{c}"), format!("RestrictedExpression::new_{c}({s:?}) in context: expected {}, observed {}", bridge::show_expected(&expected), obs2.show()), detail("restricted-expression", obs2.show()));
            }
        }
    }
    ctx.nontrivial(&format!("{:?}", e));
    ctx.sample(|| json!({"expr": text, "expected": bridge::show_expected(&expected)}));
}
