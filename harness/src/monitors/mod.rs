//! One monitor per property.  Each is `fn(&mut CaseCtx)`: generate case `ctx.idx`
//! from `ctx.rng`, run the real code, apply the oracle, record what was observed.

use crate::report::CaseCtx;

pub mod common;
pub mod c02;

pub type Monitor = fn(&mut CaseCtx);

pub fn lookup(id: &str) -> Option<Monitor> {
    Some(match id {
        "C02" => c02::case,
        _ => return None,
    })
}
