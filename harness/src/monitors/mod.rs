//! One monitor per property.  Each is `fn(&mut CaseCtx)`: generate case `ctx.idx`
//! from `ctx.rng`, run the real code, apply the oracle, record what was observed.

use crate::report::CaseCtx;

pub mod common;
pub mod c20;
pub mod c15;
pub mod c13;
pub mod c17;
pub mod c16;
pub mod c18;
pub mod c08;
pub mod c06;
pub mod c05;
pub mod c04;
pub mod c01;
pub mod c02;
pub mod c03;
pub mod c07;
pub mod c09;
pub mod c10;
pub mod c11;
pub mod c12;
pub mod c14;
pub mod c19;

pub type Monitor = fn(&mut CaseCtx);

pub fn lookup(id: &str) -> Option<Monitor> {
    Some(match id {
        "C01" => c01::case,
        "C02" => c02::case,
        "C03" => c03::case,
        "C07" => c07::case,
        "C09" => c09::case,
        "C10" => c10::case,
        "C11" => c11::case,
        "C12" => c12::case,
        "C14" => c14::case,
        "C19" => c19::case,
        "C04" => c04::case,
        "C05" => c05::case,
        "C06" => c06::case,
        "C08" => c08::case,
        "C18" => c18::case,
        "C16" => c16::case,
        "C17" => c17::case,
        "C13" => c13::case,
        "C15" => c15::case,
        "C20" => c20::case,
        _ => return None,
    })
}
