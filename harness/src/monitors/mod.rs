//! One monitor per property.  Each is `fn(&mut CaseCtx)`: generate case `ctx.idx`
//! from `ctx.rng`, run the real code, apply the oracle, record what was observed.

use crate::report::CaseCtx;

pub mod common;
pub mod c01;
pub mod c02;
pub mod c03;
pub mod c07;
pub mod c09;
pub mod c10;

pub type Monitor = fn(&mut CaseCtx);

pub fn lookup(id: &str) -> Option<Monitor> {
    Some(match id {
        "C01" => c01::case,
        "C02" => c02::case,
        "C03" => c03::case,
        "C07" => c07::case,
        "C09" => c09::case,
        "C10" => c10::case,
        _ => return None,
    })
}
