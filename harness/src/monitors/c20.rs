//! C20 — no panics: every entry point returns Ok or Err on arbitrary input.
//!
//! One case = one input kind x one construction strategy:
//!   (a) byte mutations of a valid document, (b) random token sequences over the
//!   kind's token alphabet, (c) structure-aware documents at nesting depth <= 48,
//!   (d) hostile FFI call JSON (Value-level damage of a valid call), plus a share of
//!   untouched valid documents so that every pipeline is reached by real objects.
//! The input (<= 4 KiB) is fed to every entry point of its kind (and sometimes to the
//! entry points of a foreign kind); every object that parses is pushed through all
//! pipelines (print, to_cedar, to_json, to_pst, formatter, validate strict/permissive,
//! authorize, link, schema translation both ways, entities to_json, protobuf encode and
//! decode); every Err / warning returned anywhere is rendered (Display, Debug, help,
//! labels, source spans, related, full graphical report with the source attached).
//!
//! Oracle: no panic (main.rs turns a library panic into a violation), no abort (the
//! driver turns a worker killed by a signal into a violation naming the journaled case).
//! Wall time per case is recorded as a counter only.
//!
//! All harness code below uses checked conversions / `get` so that a panic with a
//! location in this file can only be a harness bug, never a library finding.

use crate::gen::{self, ExprGen};
use crate::model::*;
use crate::pools;
use crate::render::{self, TextOpts};
use crate::report::CaseCtx;
use crate::rng::Rng;
use cedar_policy::proto::traits::Protobuf;
use cedar_policy::{
    Authorizer, Context, Entities, Entity, EntityId, EntityTypeName, EntityUid, Expression, Policy, PolicyId, PolicySet, Request,
    RestrictedExpression, Schema, SchemaFragment, SlotId, Template, ValidationMode, Validator,
};
use cedar_policy_formatter::{policies_str_to_pretty, Config};
use miette::{Diagnostic, GraphicalReportHandler};
use serde_json::{json, Map, Value as J};
use std::collections::HashMap;
use std::str::FromStr;

const MAX_LEN: usize = 4096;
const MAX_DEPTH: usize = 48;

#[derive(Clone, Copy, Debug, PartialEq, Eq)]
enum Kind {
    Policy,
    Template,
    PolicySet,
    Expr,
    SchemaJson,
    SchemaCedar,
    Entities,
    Context,
    Est,
    EstSet,
    PbPolicySet,
    PbEntities,
    PbSchema,
    PbOther,
    FfiAuthz,
    FfiPartialAuthz,
    FfiValidate,
    FfiFormat,
    FfiCheckPolicySet,
    FfiCheckSchema,
    FfiCheckEntities,
    FfiCheckContext,
    FfiScopeVars,
    FfiPolicyConv,
    FfiSchemaConv,
}

const KINDS: [Kind; 25] = [
    Kind::Policy,
    Kind::Template,
    Kind::PolicySet,
    Kind::Expr,
    Kind::SchemaJson,
    Kind::SchemaCedar,
    Kind::Entities,
    Kind::Context,
    Kind::Est,
    Kind::EstSet,
    Kind::PbPolicySet,
    Kind::PbEntities,
    Kind::PbSchema,
    Kind::PbOther,
    Kind::FfiAuthz,
    Kind::FfiPartialAuthz,
    Kind::FfiValidate,
    Kind::FfiFormat,
    Kind::FfiCheckPolicySet,
    Kind::FfiCheckSchema,
    Kind::FfiCheckEntities,
    Kind::FfiCheckContext,
    Kind::FfiScopeVars,
    Kind::FfiPolicyConv,
    Kind::FfiSchemaConv,
];

impl Kind {
    fn name(self) -> &'static str {
        match self {
            Kind::Policy => "policy",
            Kind::Template => "template",
            Kind::PolicySet => "policyset",
            Kind::Expr => "expr",
            Kind::SchemaJson => "schema_json",
            Kind::SchemaCedar => "schema_cedar",
            Kind::Entities => "entities",
            Kind::Context => "context",
            Kind::Est => "est",
            Kind::EstSet => "est_set",
            Kind::PbPolicySet => "pb_policyset",
            Kind::PbEntities => "pb_entities",
            Kind::PbSchema => "pb_schema",
            Kind::PbOther => "pb_other",
            Kind::FfiAuthz => "ffi_authz",
            Kind::FfiPartialAuthz => "ffi_partial_authz",
            Kind::FfiValidate => "ffi_validate",
            Kind::FfiFormat => "ffi_format",
            Kind::FfiCheckPolicySet => "ffi_check_policyset",
            Kind::FfiCheckSchema => "ffi_check_schema",
            Kind::FfiCheckEntities => "ffi_check_entities",
            Kind::FfiCheckContext => "ffi_check_context",
            Kind::FfiScopeVars => "ffi_scope_vars",
            Kind::FfiPolicyConv => "ffi_policy_conv",
            Kind::FfiSchemaConv => "ffi_schema_conv",
        }
    }
    fn is_ffi(self) -> bool {
        matches!(
            self,
            Kind::FfiAuthz
                | Kind::FfiPartialAuthz
                | Kind::FfiValidate
                | Kind::FfiFormat
                | Kind::FfiCheckPolicySet
                | Kind::FfiCheckSchema
                | Kind::FfiCheckEntities
                | Kind::FfiCheckContext
                | Kind::FfiScopeVars
                | Kind::FfiPolicyConv
                | Kind::FfiSchemaConv
        )
    }
    fn is_pb(self) -> bool {
        matches!(self, Kind::PbPolicySet | Kind::PbEntities | Kind::PbSchema | Kind::PbOther)
    }
    fn is_cedar_text(self) -> bool {
        matches!(self, Kind::Policy | Kind::Template | Kind::PolicySet | Kind::Expr)
    }
}

#[derive(Clone, Copy, Debug, PartialEq, Eq)]
enum Strat {
    Valid,
    Mutate,
    Tokens,
    Deep,
    Hostile,
}

impl Strat {
    fn name(self) -> &'static str {
        match self {
            Strat::Valid => "valid",
            Strat::Mutate => "mutate",
            Strat::Tokens => "tokens",
            Strat::Deep => "deep",
            Strat::Hostile => "hostile",
        }
    }
}

// ------------------------------------------------------------------ fixtures (immutable constants)

const FIX_SCHEMA: &str = r#"
entity A in [A, B] = { x?: Long, y?: String, z?: Bool, name?: String, w?: Set<Long>, principal?: A } tags String;
entity B in [B, C] = { x?: Long, owner?: A, ip?: ipaddr, d?: decimal };
entity C enum ["a", "b", "c"];
action view, edit, a appliesTo { principal: [A, B, N::NA], resource: [A, B, C, N::M::MA], context: { x?: Long, y?: String, z?: Bool, name?: String } };
namespace N {
  entity NA in [A, B];
  action nview appliesTo { principal: [NA, A], resource: [NA, A, B, C] };
  action na;
}
namespace N::M { entity MA; }
"#;

const FIX_ENTITIES: &str = r#"[
 {"uid":{"type":"A","id":"a"},"attrs":{"x":1,"y":"s","z":true,"name":"n","w":[1,2]},"parents":[{"type":"A","id":"b"},{"type":"B","id":"b"}],"tags":{"t":"v"}},
 {"uid":{"type":"A","id":"b"},"attrs":{"x":7},"parents":[{"type":"B","id":"c"}]},
 {"uid":{"type":"B","id":"b"},"attrs":{"owner":{"__entity":{"type":"A","id":"a"}},"ip":{"__extn":{"fn":"ip","arg":"10.0.0.1"}}},"parents":[]},
 {"uid":{"type":"B","id":"c"},"attrs":{},"parents":[{"type":"C","id":"a"}]},
 {"uid":{"type":"N::A","id":"a"},"attrs":{},"parents":[{"type":"A","id":"a"}]}
]"#;

const FIX_POLICIES: &str = r#"
@id("p0") permit(principal, action, resource);
permit(principal == A::"a", action == Action::"view", resource in B::"c") when { principal has x && principal.x > 0 && context has x && context.x == 1 };
forbid(principal is A, action in [Action::"edit", Action::"a"], resource) unless { principal has name && principal.name like "n*" };
permit(principal in ?principal, action, resource == ?resource) when { resource has owner && resource.owner == principal };
"#;

const FIX_CONTEXT: &str = r#"{"x":1,"y":"s"}"#;

struct Fix {
    schema: Schema,
    validator: Validator,
    entities: Entities,
    requests: Vec<Request>,
    uids: Vec<EntityUid>,
    action: EntityUid,
    pset: PolicySet,
    auth: Authorizer,
}

fn fix_uid(t: &str, id: &str) -> EntityUid {
    EntityUid::from_type_name_and_id(EntityTypeName::from_str(t).expect("fixture type name"), EntityId::new(id))
}

impl Fix {
    fn new() -> Fix {
        let (schema, _w) = Schema::from_cedarschema_str(FIX_SCHEMA).expect("fixture schema");
        let validator = Validator::new(schema.clone());
        let entities = Entities::from_json_str(FIX_ENTITIES, None).expect("fixture entities");
        let uids = vec![fix_uid("A", "a"), fix_uid("A", "b"), fix_uid("B", "b"), fix_uid("B", "c"), fix_uid("N::A", "a"), fix_uid("C", "a")];
        let action = fix_uid("Action", "view");
        let mk = |p: EntityUid, a: EntityUid, r: EntityUid, c: &str| {
            let ctx = Context::from_json_str(c, None).expect("fixture context");
            Request::new(p, a, r, ctx, None).expect("fixture request")
        };
        let requests = vec![
            mk(fix_uid("A", "a"), fix_uid("Action", "view"), fix_uid("B", "b"), FIX_CONTEXT),
            mk(fix_uid("N::A", "a"), fix_uid("N::Action", "view"), fix_uid("A", "b"), "{}"),
            mk(fix_uid("B", "c"), fix_uid("Action", "edit"), fix_uid("C", "a"), r#"{"y":"s","z":false}"#),
        ];
        let pset = PolicySet::from_str(FIX_POLICIES).expect("fixture policies");
        Fix { schema, validator, entities, requests, uids, action, pset, auth: Authorizer::new() }
    }
}

thread_local! {
    static FIX: Fix = Fix::new();
}

// ------------------------------------------------------------------ rendering of errors and warnings

fn render_plain(ctx: &mut CaseCtx, e: &dyn std::error::Error) {
    ctx.count("rendered:plain_errors");
    let _ = e.to_string();
    let _ = format!("{:?}", e);
    let mut cur = e.source();
    let mut n = 0;
    while let Some(s) = cur {
        let _ = s.to_string();
        cur = s.source();
        n += 1;
        if n > 64 {
            break;
        }
    }
}

fn render_dyn(ctx: &mut CaseCtx, d: &dyn Diagnostic, level: usize) {
    ctx.count("rendered:diagnostics");
    let _ = d.to_string();
    let _ = format!("{:?}", d);
    if let Some(c) = d.code() {
        let _ = c.to_string();
        ctx.count("rendered:code");
    }
    let _ = d.severity();
    if let Some(h) = d.help() {
        let _ = h.to_string();
        ctx.count("rendered:help");
    }
    if let Some(u) = d.url() {
        let _ = u.to_string();
    }
    let src = d.source_code();
    if src.is_some() {
        ctx.count("rendered:with_source_code");
    }
    if let Some(labels) = d.labels() {
        for l in labels.take(256) {
            ctx.count("rendered:labels");
            let _ = l.label().map(|s| s.len());
            let _ = (l.offset(), l.len(), l.primary());
            if let Some(sc) = src {
                match sc.read_span(l.inner(), 1, 1) {
                    Ok(c) => {
                        let _ = (c.data().len(), c.line(), c.column(), c.line_count(), c.name().map(|s| s.len()));
                        ctx.count("rendered:spans_read");
                    }
                    Err(e) => {
                        let _ = e.to_string();
                        ctx.count("rendered:span_read_refused");
                    }
                }
            }
        }
    }
    let mut cur = d.source();
    let mut n = 0;
    while let Some(s) = cur {
        let _ = s.to_string();
        cur = s.source();
        n += 1;
        if n > 64 {
            break;
        }
    }
    if level < 6 {
        if let Some(ds) = d.diagnostic_source() {
            render_dyn(ctx, ds, level + 1);
        }
        if let Some(rel) = d.related() {
            for r in rel.take(64) {
                ctx.count("rendered:related");
                render_dyn(ctx, r, level + 1);
            }
        }
    }
    if level == 0 {
        let mut out = String::new();
        match GraphicalReportHandler::new().render_report(&mut out, d) {
            Ok(()) => ctx.count("rendered:graphical"),
            Err(_) => ctx.count("rendered:graphical_fmt_error"),
        }
        ctx.max("graphical_report_bytes", out.len() as u64);
    }
}

/// Render an owned error; additionally attach `src` as the source code and render the report again.
fn render_owned<E: Diagnostic + Send + Sync + 'static>(ctx: &mut CaseCtx, e: E, src: Option<&str>) {
    render_dyn(ctx, &e, 0);
    if let Some(s) = src {
        let rep = miette::Report::new(e).with_source_code(s.to_string());
        let mut out = String::new();
        let d: &dyn Diagnostic = rep.as_ref();
        match GraphicalReportHandler::new().with_context_lines(2).render_report(&mut out, d) {
            Ok(()) => ctx.count("rendered:graphical_with_attached_source"),
            Err(_) => ctx.count("rendered:graphical_fmt_error"),
        }
        let _ = format!("{:?}", rep);
        let _ = format!("{:#}", rep);
    }
}

fn render_report(ctx: &mut CaseCtx, rep: &miette::Report) {
    let d: &dyn Diagnostic = rep.as_ref();
    render_dyn(ctx, d, 0);
    let _ = format!("{:?}", rep);
}

/// outcome bookkeeping for one entry point
fn tally(ctx: &mut CaseCtx, ep: &str, ok: bool) {
    ctx.count(&format!("ep:{}:inputs", ep));
    if ok {
        ctx.count("ok_total");
        ctx.count(&format!("ep:{}:ok", ep));
    } else {
        ctx.count(&format!("ep:{}:err", ep));
    }
}

fn reached(ctx: &mut CaseCtx, obj: &str, pipe: &str) {
    ctx.count(&format!("pipe:{}:{}", obj, pipe));
}

/// Result -> Option, tallying and rendering the error
fn take<T, E: Diagnostic + Send + Sync + 'static>(ctx: &mut CaseCtx, ep: &str, r: Result<T, E>, src: Option<&str>) -> Option<T> {
    match r {
        Ok(v) => {
            tally(ctx, ep, true);
            Some(v)
        }
        Err(e) => {
            tally(ctx, ep, false);
            render_owned(ctx, e, src);
            None
        }
    }
}

fn take_plain<T, E: std::error::Error>(ctx: &mut CaseCtx, ep: &str, r: Result<T, E>) -> Option<T> {
    match r {
        Ok(v) => {
            tally(ctx, ep, true);
            Some(v)
        }
        Err(e) => {
            tally(ctx, ep, false);
            render_plain(ctx, &e);
            None
        }
    }
}

// ------------------------------------------------------------------ valid documents

fn some_uid(rng: &mut Rng, w: &GWorld) -> Uid {
    match rng.below(4) {
        0 => w.principal.clone(),
        1 => w.resource.clone(),
        2 => pools::small_uid(rng),
        _ => {
            let ks: Vec<&Uid> = w.entities.keys().collect();
            if ks.is_empty() {
                pools::small_uid(rng)
            } else {
                (*rng.pick(&ks)).clone()
            }
        }
    }
}

fn gen_scope_pr(rng: &mut Rng, w: &GWorld, slot: bool) -> ScopePR {
    let e = |rng: &mut Rng| if slot { EntOrSlot::Slot } else { EntOrSlot::Ent(some_uid(rng, w)) };
    let ty = rng.pick(&["A", "B", "N::A", "C", "N::M::A"]).to_string();
    if slot {
        return match rng.below(3) {
            0 => ScopePR::Eq(EntOrSlot::Slot),
            1 => ScopePR::In(EntOrSlot::Slot),
            _ => ScopePR::IsIn(ty, EntOrSlot::Slot),
        };
    }
    match rng.below(7) {
        0 | 1 | 2 => ScopePR::Any,
        3 => ScopePR::Eq(e(rng)),
        4 => ScopePR::In(e(rng)),
        5 => ScopePR::Is(ty),
        _ => ScopePR::IsIn(ty, e(rng)),
    }
}

/// slots: 0 = static policy, 1 = template with at least one slot
fn gen_gpolicy(rng: &mut Rng, w: &GWorld, template: bool) -> GPolicy {
    let mut annotations: Vec<(String, String)> = vec![];
    for _ in 0..rng.below(3) {
        let k = rng.pick(&["id", "a", "if", "permit", "in", "advice", "A1"]).to_string();
        if !annotations.iter().any(|(x, _)| *x == k) {
            annotations.push((k, pools::string(rng)));
        }
    }
    let (ps, rs) = if template {
        match rng.below(3) {
            0 => (true, false),
            1 => (false, true),
            _ => (true, true),
        }
    } else {
        (false, false)
    };
    let act = |rng: &mut Rng| Uid::new(rng.pick(&["Action", "N::Action"]), rng.pick(&["view", "edit", "a"]));
    let action = match rng.below(6) {
        0 | 1 | 2 => ScopeA::Any,
        3 => ScopeA::Eq(act(rng)),
        4 => ScopeA::In(act(rng)),
        _ => {
            let n = rng.below(4);
            ScopeA::InList((0..n).map(|_| act(rng)).collect())
        }
    };
    let principal = gen_scope_pr(rng, w, ps);
    let resource = gen_scope_pr(rng, w, rs);
    let mut conds = vec![];
    for _ in 0..rng.below(3) {
        let depth = 1 + rng.below(4);
        let want_bool = rng.chance(3, 4);
        let e = {
            let mut g = ExprGen::new(rng, w);
            g.chaos = 8;
            if want_bool {
                g.of_kind(gen::Kind::Bool, depth)
            } else {
                g.any(depth)
            }
        };
        conds.push((rng.chance(3, 4), e));
    }
    GPolicy { annotations, effect: if rng.chance(2, 3) { Effect::Permit } else { Effect::Forbid }, principal, action, resource, conds }
}

fn policy_text(rng: &mut Rng, p: &GPolicy, tag: &str) -> String {
    let mut toks = vec![];
    {
        let mut o = TextOpts::random(rng);
        render::policy_tokens(p, &mut o, &mut toks);
    }
    match rng.below(3) {
        0 => {
            let mut c = 0usize;
            render::join_noisy(&toks, rng, Some(tag), &mut c)
        }
        _ => render::join_plain(&toks),
    }
}

fn doc_policy(rng: &mut Rng, w: &GWorld, template: bool) -> String {
    let p = gen_gpolicy(rng, w, template);
    policy_text(rng, &p, "c")
}

fn doc_policyset(rng: &mut Rng, w: &GWorld) -> String {
    let n = 1 + rng.below(4);
    let mut s = String::new();
    for i in 0..n {
        let t = rng.chance(1, 4);
        let p = gen_gpolicy(rng, w, t);
        s.push_str(&policy_text(rng, &p, &format!("c{}", i)));
        s.push_str(*rng.pick(&["\n", "\n\n", " ", "\n// end\n"]));
    }
    s
}

fn doc_expr(rng: &mut Rng, w: &GWorld) -> String {
    match rng.below(16) {
        0 | 1 => {
            let u = some_uid(rng, w);
            let mut o = TextOpts::random(rng);
            return render::uid_text(&u, &mut o);
        }
        2 => return rng.pick(&["A", "N::A", "N::M::A", "Action", "N"]).to_string(),
        _ => {}
    }
    let depth = 1 + rng.below(5);
    let e = {
        let mut g = ExprGen::new(rng, w);
        g.chaos = 10;
        g.any(depth)
    };
    let mut o = TextOpts::random(rng);
    render::expr_text(&e, &mut o)
}

/// `{"Value": {"__extn": ..}}` / `{"<fn>": [..]}` nodes with every extension function name and 0..2 arguments
/// (wrong arities and kinds included): accepted shapes that printers and evaluators must survive
fn odd_ext_node(rng: &mut Rng) -> J {
    const FNS: [&str; 24] = [
        "decimal", "ip", "datetime", "duration", "lessThan", "lessThanOrEqual", "greaterThan", "greaterThanOrEqual", "isIpv4", "isIpv6", "isLoopback",
        "isMulticast", "isInRange", "offset", "durationSince", "toDate", "toTime", "toMilliseconds", "toSeconds", "toMinutes", "toHours", "toDays", "unknown", "nosuchfn",
    ];
    let f = *rng.pick(&FNS);
    let n = rng.below(3);
    let arg = |rng: &mut Rng| -> J {
        match rng.below(4) {
            0 => json!("1.5"),
            1 => json!(7),
            2 => json!({"__extn": {"fn": "decimal", "arg": "1.0"}}),
            _ => json!("127.0.0.1"),
        }
    };
    let args: Vec<J> = (0..n).map(|_| arg(rng)).collect();
    match rng.below(3) {
        0 => json!({"Value": {"__extn": {"fn": f, "args": args}}}),
        1 => json!({"Value": {"__extn": {"fn": f, "arg": arg(rng)}}}),
        _ => json!({f: args.iter().map(|a| json!({"Value": a})).collect::<Vec<_>>()}),
    }
}

fn doc_est(rng: &mut Rng, w: &GWorld, template: bool) -> J {
    let p = gen_gpolicy(rng, w, template);
    let mut j = render::est_policy(&p);
    if rng.chance(1, 5) {
        // one more condition whose body is (or compares) an extension node of odd arity
        let node = odd_ext_node(rng);
        let body = if rng.bool() { node } else { json!({"==": {"left": node, "right": odd_ext_node(rng)}}) };
        if let Some(cs) = j.get_mut("conditions").and_then(|c| c.as_array_mut()) {
            cs.push(json!({"kind": if rng.bool() { "when" } else { "unless" }, "body": body}));
        }
    }
    j
}

fn link_json(rng: &mut Rng, w: &GWorld, tid: &str, new_id: &str) -> J {
    let mut vals = Map::new();
    if rng.chance(5, 6) {
        vals.insert("?principal".into(), render::uid_json(&some_uid(rng, w)));
    }
    if rng.chance(5, 6) {
        vals.insert("?resource".into(), render::uid_json(&some_uid(rng, w)));
    }
    json!({"templateId": tid, "newId": new_id, "values": J::Object(vals)})
}

fn doc_estset(rng: &mut Rng, w: &GWorld) -> J {
    let mut sp = Map::new();
    for i in 0..rng.below(3) {
        sp.insert(format!("p{}", i), doc_est(rng, w, false));
    }
    let mut ts = Map::new();
    let nt = rng.below(3);
    for i in 0..nt {
        let both = GPolicy { principal: ScopePR::Eq(EntOrSlot::Slot), resource: ScopePR::In(EntOrSlot::Slot), ..gen_gpolicy(rng, w, true) };
        ts.insert(format!("t{}", i), render::est_policy(&both));
    }
    let mut links = vec![];
    if rng.chance(1, 6) {
        // a link whose templateId names a static policy, a link, or nothing at all
        let tid = rng.pick(&["p0", "p1", "l0", "nosuch", ""]).to_string();
        let mut v = Map::new();
        if rng.bool() {
            v.insert("?principal".into(), json!({"__entity": render::uid_json(&some_uid(rng, w))}));
        }
        links.push(json!({"templateId": tid, "newId": rng.pick(&["lx", "p0", "t0"]).to_string(), "values": J::Object(v)}));
    }
    if nt > 0 {
        for i in 0..rng.below(3) {
            let tid = format!("t{}", rng.below(nt));
            let mut v = Map::new();
            v.insert("?principal".into(), json!({"__entity": render::uid_json(&some_uid(rng, w))}));
            v.insert("?resource".into(), json!({"__entity": render::uid_json(&some_uid(rng, w))}));
            links.push(json!({"templateId": tid, "newId": format!("l{}", i), "values": J::Object(v)}));
        }
    }
    json!({"staticPolicies": J::Object(sp), "templates": J::Object(ts), "templateLinks": links})
}

fn json_text(rng: &mut Rng, v: &J) -> String {
    if rng.chance(1, 5) {
        serde_json::to_string_pretty(v).unwrap_or_default()
    } else {
        v.to_string()
    }
}

// ---- a tiny schema model with two independent printers

#[derive(Clone, Debug)]
enum STy {
    Long,
    Str,
    Bool,
    Set(Box<STy>),
    Rec(Vec<(String, STy, bool)>),
    Ent(String),
    Ext(&'static str),
    Common(String),
}

#[derive(Clone, Debug)]
struct SEnt {
    name: String,
    member_of: Vec<String>,
    shape: Vec<(String, STy, bool)>,
    tags: Option<STy>,
    enum_ids: Option<Vec<String>>,
    anno: Option<(String, String)>,
}

#[derive(Clone, Debug)]
struct SAct {
    name: String,
    member_of: Vec<String>,
    applies: Option<(Vec<String>, Vec<String>, Vec<(String, STy, bool)>)>,
}

#[derive(Clone, Debug)]
struct SNs {
    name: String,
    commons: Vec<(String, STy)>,
    ents: Vec<SEnt>,
    acts: Vec<SAct>,
}

const SATTRS: [&str; 8] = ["x", "y", "name", "owner", "a b", "if", "tags", "w"];

fn gen_sty(rng: &mut Rng, depth: usize, ents: &[String], commons: &[String]) -> STy {
    let leaf = depth == 0 || rng.chance(1, 2);
    if leaf {
        return match rng.below(8) {
            0 | 1 => STy::Long,
            2 => STy::Str,
            3 => STy::Bool,
            4 if !ents.is_empty() => STy::Ent(rng.pick(ents).clone()),
            5 => STy::Ext(*rng.pick(&["ipaddr", "decimal", "datetime", "duration"])),
            6 if !commons.is_empty() => STy::Common(rng.pick(commons).clone()),
            _ => STy::Str,
        };
    }
    if rng.bool() {
        STy::Set(Box::new(gen_sty(rng, depth - 1, ents, commons)))
    } else {
        STy::Rec(gen_attrs(rng, depth - 1, ents, commons))
    }
}

fn gen_attrs(rng: &mut Rng, depth: usize, ents: &[String], commons: &[String]) -> Vec<(String, STy, bool)> {
    let mut out: Vec<(String, STy, bool)> = vec![];
    for _ in 0..rng.below(4) {
        let k = rng.pick(&SATTRS).to_string();
        if !out.iter().any(|(x, _, _)| *x == k) {
            out.push((k, gen_sty(rng, depth, ents, commons), rng.bool()));
        }
    }
    out
}

fn gen_schema(rng: &mut Rng) -> Vec<SNs> {
    let ns_names: Vec<&str> = match rng.below(4) {
        0 => vec![""],
        1 => vec!["", "N"],
        2 => vec!["N"],
        _ => vec!["", "N", "N::M"],
    };
    // fully qualified entity type names, unique base names per namespace
    let mut all_ents: Vec<String> = vec![];
    let mut per_ns: Vec<Vec<String>> = vec![];
    for (i, ns) in ns_names.iter().enumerate() {
        let n = 1 + rng.below(3);
        let mut v = vec![];
        for j in 0..n {
            let base = format!("{}{}", ["E", "F", "G"].get(i).copied().unwrap_or("H"), j);
            let fq = if ns.is_empty() { base } else { format!("{}::{}", ns, base) };
            all_ents.push(fq.clone());
            v.push(fq);
        }
        per_ns.push(v);
    }
    let mut out = vec![];
    for (i, ns) in ns_names.iter().enumerate() {
        let mine = per_ns.get(i).cloned().unwrap_or_default();
        let mut commons: Vec<(String, STy)> = vec![];
        let mut common_names: Vec<String> = vec![];
        for j in 0..rng.below(3) {
            let base = format!("T{}{}", i, j);
            let ty = gen_sty(rng, 2, &all_ents, &common_names);
            let fq = if ns.is_empty() { base } else { format!("{}::{}", ns, base) };
            commons.push((fq.clone(), ty));
            common_names.push(fq);
        }
        let mut ents = vec![];
        for (j, fq) in mine.iter().enumerate() {
            let is_enum = rng.chance(1, 6);
            let member_of: Vec<String> = all_ents.iter().filter(|_| rng.chance(1, 4)).cloned().collect();
            ents.push(SEnt {
                name: fq.clone(),
                member_of: if is_enum { vec![] } else { member_of },
                shape: if is_enum { vec![] } else { gen_attrs(rng, 2, &all_ents, &common_names) },
                tags: if !is_enum && rng.chance(1, 4) { Some(gen_sty(rng, 1, &all_ents, &common_names)) } else { None },
                enum_ids: if is_enum { Some((0..1 + rng.below(3)).map(|k| format!("e{}", k)).collect()) } else { None },
                anno: if j == 0 && rng.chance(1, 3) { Some(("doc".into(), pools::string(rng))) } else { None },
            });
        }
        let mut acts: Vec<SAct> = vec![];
        let na = 1 + rng.below(3);
        for j in 0..na {
            let name = format!("{}{}", rng.pick(&["view", "edit", "a", "a b", "act"]), if i == 0 { String::new() } else { i.to_string() });
            if acts.iter().any(|a| a.name == name) {
                continue;
            }
            let member_of: Vec<String> = acts.iter().filter(|_| rng.chance(1, 3)).map(|a| a.name.clone()).collect();
            let applies = if rng.chance(4, 5) {
                let pr: Vec<String> = all_ents.iter().filter(|_| rng.chance(1, 2)).cloned().collect();
                let rs: Vec<String> = all_ents.iter().filter(|_| rng.chance(1, 2)).cloned().collect();
                let pr = if pr.is_empty() { all_ents.iter().take(1).cloned().collect() } else { pr };
                let rs = if rs.is_empty() { all_ents.iter().take(1).cloned().collect() } else { rs };
                Some((pr, rs, gen_attrs(rng, 2, &all_ents, &common_names)))
            } else {
                None
            };
            let _ = j;
            acts.push(SAct { name, member_of, applies });
        }
        out.push(SNs { name: ns.to_string(), commons, ents, acts });
    }
    out
}

fn base_name(fq: &str) -> &str {
    fq.rsplit("::").next().unwrap_or(fq)
}

fn sty_json(t: &STy) -> J {
    match t {
        STy::Long => json!({"type": "Long"}),
        STy::Str => json!({"type": "String"}),
        STy::Bool => json!({"type": "Boolean"}),
        STy::Set(e) => json!({"type": "Set", "element": sty_json(e)}),
        STy::Rec(a) => json!({"type": "Record", "attributes": attrs_json(a)}),
        STy::Ent(n) => json!({"type": "Entity", "name": n}),
        STy::Ext(n) => json!({"type": "Extension", "name": n}),
        STy::Common(n) => json!({"type": "EntityOrCommon", "name": n}),
    }
}

fn attrs_json(a: &[(String, STy, bool)]) -> J {
    let mut m = Map::new();
    for (k, t, req) in a {
        let mut tj = sty_json(t);
        if let J::Object(o) = &mut tj {
            if !*req {
                o.insert("required".into(), json!(false));
            }
        }
        m.insert(k.clone(), tj);
    }
    J::Object(m)
}

fn schema_json(s: &[SNs]) -> J {
    let mut top = Map::new();
    for ns in s {
        let mut ets = Map::new();
        for e in &ns.ents {
            let mut m = Map::new();
            if let Some(ids) = &e.enum_ids {
                m.insert("enum".into(), json!(ids));
            } else {
                m.insert("memberOfTypes".into(), json!(e.member_of));
                m.insert("shape".into(), json!({"type": "Record", "attributes": attrs_json(&e.shape)}));
                if let Some(t) = &e.tags {
                    m.insert("tags".into(), sty_json(t));
                }
            }
            if let Some((k, v)) = &e.anno {
                m.insert("annotations".into(), json!({k.as_str(): v}));
            }
            ets.insert(base_name(&e.name).to_string(), J::Object(m));
        }
        let mut acts = Map::new();
        for a in &ns.acts {
            let mut m = Map::new();
            if !a.member_of.is_empty() {
                m.insert("memberOf".into(), J::Array(a.member_of.iter().map(|n| json!({"id": n})).collect()));
            }
            if let Some((pr, rs, cx)) = &a.applies {
                m.insert("appliesTo".into(), json!({"principalTypes": pr, "resourceTypes": rs, "context": {"type": "Record", "attributes": attrs_json(cx)}}));
            }
            acts.insert(a.name.clone(), J::Object(m));
        }
        let mut commons = Map::new();
        for (n, t) in &ns.commons {
            commons.insert(base_name(n).to_string(), sty_json(t));
        }
        top.insert(ns.name.clone(), json!({"commonTypes": J::Object(commons), "entityTypes": J::Object(ets), "actions": J::Object(acts)}));
    }
    J::Object(top)
}

fn sname(s: &str) -> String {
    if render::is_plain_ident(s) {
        s.to_string()
    } else {
        format!("{:?}", s)
    }
}

fn sty_cedar(t: &STy) -> String {
    match t {
        STy::Long => "Long".into(),
        STy::Str => "String".into(),
        STy::Bool => "Bool".into(),
        STy::Set(e) => format!("Set<{}>", sty_cedar(e)),
        STy::Rec(a) => attrs_cedar(a),
        STy::Ent(n) | STy::Common(n) => n.clone(),
        STy::Ext(n) => n.to_string(),
    }
}

fn attrs_cedar(a: &[(String, STy, bool)]) -> String {
    let parts: Vec<String> = a.iter().map(|(k, t, req)| format!("{}{}: {}", sname(k), if *req { "" } else { "?" }, sty_cedar(t))).collect();
    format!("{{ {} }}", parts.join(", "))
}

fn schema_cedar(s: &[SNs]) -> String {
    let mut out = String::new();
    for ns in s {
        let mut body = String::new();
        for (n, t) in &ns.commons {
            body.push_str(&format!("type {} = {};\n", base_name(n), sty_cedar(t)));
        }
        for e in &ns.ents {
            if let Some((k, v)) = &e.anno {
                body.push_str(&format!("@{}({:?})\n", k, v));
            }
            if let Some(ids) = &e.enum_ids {
                let ids: Vec<String> = ids.iter().map(|i| format!("{:?}", i)).collect();
                body.push_str(&format!("entity {} enum [{}];\n", base_name(&e.name), ids.join(", ")));
                continue;
            }
            body.push_str(&format!("entity {}", base_name(&e.name)));
            if !e.member_of.is_empty() {
                body.push_str(&format!(" in [{}]", e.member_of.join(", ")));
            }
            if !e.shape.is_empty() {
                body.push_str(&format!(" = {}", attrs_cedar(&e.shape)));
            }
            if let Some(t) = &e.tags {
                body.push_str(&format!(" tags {}", sty_cedar(t)));
            }
            body.push_str(";\n");
        }
        for a in &ns.acts {
            body.push_str(&format!("action {}", sname(&a.name)));
            if !a.member_of.is_empty() {
                let ms: Vec<String> = a.member_of.iter().map(|m| sname(m)).collect();
                body.push_str(&format!(" in [{}]", ms.join(", ")));
            }
            if let Some((pr, rs, cx)) = &a.applies {
                body.push_str(&format!(" appliesTo {{ principal: [{}], resource: [{}], context: {} }}", pr.join(", "), rs.join(", "), attrs_cedar(cx)));
            }
            body.push_str(";\n");
        }
        if ns.name.is_empty() {
            out.push_str(&body);
        } else {
            out.push_str(&format!("namespace {} {{\n{}}}\n", ns.name, body));
        }
    }
    out
}

/// (cedar text, json) of the same random schema; sometimes the fixture schema itself
fn doc_schema(rng: &mut Rng) -> (String, J) {
    let s = gen_schema(rng);
    (schema_cedar(&s), schema_json(&s))
}

// ---- FFI call documents

fn ffi_schema_value(rng: &mut Rng) -> J {
    match rng.below(4) {
        0 => json!(FIX_SCHEMA),
        1 => {
            let (c, _) = doc_schema(rng);
            json!(c)
        }
        _ => doc_schema(rng).1,
    }
}

fn ffi_policies_value(rng: &mut Rng, w: &GWorld) -> J {
    let static_policies = match rng.below(3) {
        0 => json!(doc_policyset_static(rng, w)),
        1 => {
            let n = rng.below(3);
            J::Array((0..n).map(|_| if rng.bool() { json!(doc_policy(rng, w, false)) } else { doc_est(rng, w, false) }).collect())
        }
        _ => {
            let mut m = Map::new();
            for i in 0..rng.below(3) {
                m.insert(format!("p{}", i), if rng.bool() { json!(doc_policy(rng, w, false)) } else { doc_est(rng, w, false) });
            }
            J::Object(m)
        }
    };
    let mut templates = Map::new();
    let nt = rng.below(3);
    for i in 0..nt {
        templates.insert(format!("t{}", i), if rng.bool() { json!(doc_policy(rng, w, true)) } else { doc_est(rng, w, true) });
    }
    let mut links = vec![];
    if rng.chance(1, 6) {
        // a link whose templateId names a static policy, a link, or nothing at all
        let tid = rng.pick(&["p0", "p1", "l0", "nosuch", ""]).to_string();
        let mut v = Map::new();
        if rng.bool() {
            v.insert("?principal".into(), json!({"__entity": render::uid_json(&some_uid(rng, w))}));
        }
        links.push(json!({"templateId": tid, "newId": rng.pick(&["lx", "p0", "t0"]).to_string(), "values": J::Object(v)}));
    }
    if nt > 0 {
        for i in 0..rng.below(3) {
            let tid = format!("t{}", rng.below(nt));
            links.push(link_json(rng, w, &tid, &format!("l{}", i)));
        }
    }
    let mut m = Map::new();
    m.insert("staticPolicies".into(), static_policies);
    if nt > 0 || rng.bool() {
        m.insert("templates".into(), J::Object(templates));
        m.insert("templateLinks".into(), J::Array(links));
    }
    J::Object(m)
}

fn doc_policyset_static(rng: &mut Rng, w: &GWorld) -> String {
    let n = rng.below(3);
    let mut s = String::new();
    for _ in 0..n {
        s.push_str(&doc_policy(rng, w, false));
        s.push('\n');
    }
    s
}

fn doc_ffi(rng: &mut Rng, w: &GWorld, kind: Kind) -> J {
    let with_schema = rng.chance(1, 2);
    match kind {
        Kind::FfiAuthz | Kind::FfiPartialAuthz => {
            let mut m = Map::new();
            let partial = kind == Kind::FfiPartialAuthz;
            if !partial || rng.chance(2, 3) {
                m.insert("principal".into(), render::uid_json(&w.principal));
            }
            if !partial || rng.chance(2, 3) {
                m.insert("action".into(), render::uid_json(&w.action));
            }
            if !partial || rng.chance(2, 3) {
                m.insert("resource".into(), render::uid_json(&w.resource));
            }
            m.insert("context".into(), render::context_json(w));
            if with_schema {
                m.insert("schema".into(), ffi_schema_value(rng));
                if rng.bool() {
                    m.insert("validateRequest".into(), json!(rng.bool()));
                }
            }
            m.insert("policies".into(), ffi_policies_value(rng, w));
            m.insert("entities".into(), render::entities_json(w));
            J::Object(m)
        }
        Kind::FfiValidate => {
            let mut m = Map::new();
            if rng.bool() {
                m.insert("validationSettings".into(), json!({"mode": *rng.pick(&["strict", "permissive"])}));
            }
            m.insert("schema".into(), ffi_schema_value(rng));
            m.insert("policies".into(), ffi_policies_value(rng, w));
            J::Object(m)
        }
        Kind::FfiFormat => {
            let mut m = Map::new();
            m.insert("policyText".into(), json!(doc_policyset(rng, w)));
            if rng.bool() {
                m.insert("lineWidth".into(), json!(*rng.pick(&[0u64, 1, 2, 20, 40, 80, 120, 1000])));
            }
            if rng.bool() {
                m.insert("indentWidth".into(), json!(*rng.pick(&[-3i64, -1, 0, 1, 2, 4, 8, 40])));
            }
            J::Object(m)
        }
        Kind::FfiCheckPolicySet => ffi_policies_value(rng, w),
        Kind::FfiCheckSchema => ffi_schema_value(rng),
        Kind::FfiCheckEntities => {
            let mut m = Map::new();
            m.insert("entities".into(), render::entities_json(w));
            if with_schema {
                m.insert("schema".into(), ffi_schema_value(rng));
            }
            J::Object(m)
        }
        Kind::FfiCheckContext => {
            let mut m = Map::new();
            m.insert("context".into(), render::context_json(w));
            if with_schema {
                m.insert("schema".into(), ffi_schema_value(rng));
                m.insert("action".into(), render::uid_json(&w.action));
            }
            J::Object(m)
        }
        Kind::FfiScopeVars => json!({
            "principal": render::uid_json(&w.principal), "action": render::uid_json(&w.action),
            "resource": render::uid_json(&w.resource), "schema": ffi_schema_value(rng)}),
        Kind::FfiPolicyConv => {
            let t = rng.chance(1, 3);
            if rng.bool() {
                json!(doc_policy(rng, w, t))
            } else {
                doc_est(rng, w, t)
            }
        }
        _ => ffi_schema_value(rng),
    }
}

// ------------------------------------------------------------------ (a) byte mutations

const HOT: [&[u8]; 40] = [
    b"\"", b"\\", b"\0", b"\n", b"\r", b"\t", b"{", b"}", b"[", b"]", b"(", b")", b",", b";", b":", b"::", b"*", b"\\*", b"\\u{", b"\\u{110000}",
    b"\\x", b"//", b"/*", b"@", b"?", b"?principal", b"-", b"!", b".", b"__cedar", b"__entity", b"__extn", b"9223372036854775808",
    "\u{e9}".as_bytes(), "\u{2192}".as_bytes(), "\u{1F600}".as_bytes(), "\u{2028}".as_bytes(), "\u{feff}".as_bytes(), "a\u{301}".as_bytes(), "\u{202e}".as_bytes(),
];

/// byte sequences that are not valid UTF-8
const BAD_UTF8: [&[u8]; 8] = [b"\x80", b"\xc3", b"\xff", b"\xc0\xaf", b"\xed\xa0\x80", b"\xf4\x90\x80\x80", b"\xe2\x82", b"\xf0\x9f\x98"];

fn clamp_len(v: &mut Vec<u8>) {
    if v.len() > MAX_LEN {
        v.truncate(MAX_LEN);
    }
}

/// token boundaries of a text/JSON document: maximal runs of [A-Za-z0-9_], string literals, single other bytes
fn token_spans(b: &[u8]) -> Vec<(usize, usize)> {
    let mut out = vec![];
    let mut i = 0usize;
    while i < b.len() {
        let c = b.get(i).copied().unwrap_or(0);
        if c.is_ascii_whitespace() {
            i += 1;
            continue;
        }
        let start = i;
        if c == b'"' {
            i += 1;
            while i < b.len() {
                let d = b.get(i).copied().unwrap_or(0);
                if d == b'\\' {
                    i += 2;
                    continue;
                }
                i += 1;
                if d == b'"' {
                    break;
                }
            }
            i = i.min(b.len());
        } else if c.is_ascii_alphanumeric() || c == b'_' {
            while i < b.len() && b.get(i).map(|d| d.is_ascii_alphanumeric() || *d == b'_').unwrap_or(false) {
                i += 1;
            }
        } else {
            i += 1;
        }
        out.push((start, i));
    }
    out
}

fn slice(b: &[u8], lo: usize, hi: usize) -> &[u8] {
    b.get(lo.min(b.len())..hi.min(b.len()).max(lo.min(b.len()))).unwrap_or(&[])
}

fn splice(v: &mut Vec<u8>, lo: usize, hi: usize, with: &[u8]) {
    let lo = lo.min(v.len());
    let hi = hi.min(v.len()).max(lo);
    let mut out = Vec::with_capacity(v.len() + with.len());
    out.extend_from_slice(slice(v, 0, lo));
    out.extend_from_slice(with);
    out.extend_from_slice(slice(v, hi, v.len()));
    *v = out;
}

const HOSTILE_NUMS: [&str; 14] = [
    "0", "-0", "9223372036854775807", "9223372036854775808", "-9223372036854775808", "-9223372036854775809", "18446744073709551616", "1e999", "1.5", "-1",
    "00", "0x10", "99999999999999999999999999999999", "4294967296",
];

fn mutate_once(rng: &mut Rng, v: &mut Vec<u8>, other: &[u8], alphabet: &[&str], ctx: &mut CaseCtx) {
    let n = v.len();
    let pos = if n == 0 { 0 } else { rng.below(n + 1) };
    let op = rng.below(16);
    let name = match op {
        0 => {
            // bit flip
            if let Some(b) = v.get_mut(pos.min(n.saturating_sub(1))) {
                *b ^= 1u8 << rng.below(8);
            }
            "flip"
        }
        1 => {
            if let Some(b) = v.get_mut(pos.min(n.saturating_sub(1))) {
                *b = *rng.pick(&[0u8, b'"', b'\\', b'{', b'}', b'[', b']', b'(', b')', b' ', b'\n', 0x7f, 0x80, 0xff, b'0', b'9', b'-']);
            }
            "replace-byte"
        }
        2 | 3 => {
            let h = *rng.pick(&HOT);
            splice(v, pos, pos, h);
            "insert-hot"
        }
        4 => {
            let len = 1 + rng.below(8);
            splice(v, pos, pos + len, &[]);
            "delete"
        }
        5 => {
            // duplicate a range
            let len = 1 + rng.below(24);
            let chunk = slice(v, pos, pos + len).to_vec();
            let at = if n == 0 { 0 } else { rng.below(n + 1) };
            splice(v, at, at, &chunk);
            "dup-range"
        }
        6 => {
            // splice a chunk from another valid document
            if !other.is_empty() {
                let a = rng.below(other.len());
                let len = 1 + rng.below(48);
                let chunk = slice(other, a, a + len).to_vec();
                let del = rng.below(16);
                splice(v, pos, pos + del, &chunk);
            }
            "splice-other"
        }
        7 => {
            v.truncate(pos);
            "truncate"
        }
        8 => {
            let h = *rng.pick(&BAD_UTF8);
            splice(v, pos, pos, h);
            "utf8-break-insert"
        }
        9 => {
            // cut inside a multi-byte character if there is one
            let idx = v.iter().position(|b| *b >= 0xc0);
            match idx {
                Some(i) if rng.bool() => v.truncate(i + 1),
                Some(i) => splice(v, i + 1, i + 2, &[]),
                None => splice(v, pos, pos, "\u{1F600}".as_bytes().get(..2).unwrap_or(&[])),
            }
            "utf8-break-cut"
        }
        10 | 11 => {
            // token duplication / deletion / swap
            let spans = token_spans(v);
            if spans.len() >= 2 {
                let (a0, a1) = *rng.pick(&spans);
                let (b0, b1) = *rng.pick(&spans);
                let ta = slice(v, a0, a1).to_vec();
                let tb = slice(v, b0, b1).to_vec();
                match rng.below(4) {
                    0 => {
                        let k = 1 + rng.below(3);
                        let mut rep = vec![];
                        for _ in 0..k {
                            rep.extend_from_slice(&ta);
                            rep.push(b' ');
                        }
                        splice(v, a0, a0, &rep);
                    }
                    1 => splice(v, a0, a1, &[]),
                    2 => splice(v, a0, a1, &tb),
                    _ => {
                        // swap (replace the later one first)
                        if a1 <= b0 {
                            splice(v, b0, b1, &ta);
                            splice(v, a0, a1, &tb);
                        } else if b1 <= a0 {
                            splice(v, a0, a1, &tb);
                            splice(v, b0, b1, &ta);
                        }
                    }
                }
            }
            "token-dup-del-swap"
        }
        12 => {
            // replace a token by one of the grammar's alphabet
            let spans = token_spans(v);
            if !spans.is_empty() && !alphabet.is_empty() {
                let (a0, a1) = *rng.pick(&spans);
                let t = rng.pick(alphabet).as_bytes().to_vec();
                splice(v, a0, a1, &t);
            }
            "token-replace"
        }
        13 => {
            // replace a number by a hostile one
            let spans = token_spans(v);
            let nums: Vec<(usize, usize)> = spans.iter().copied().filter(|(a, _)| v.get(*a).map(|c| c.is_ascii_digit()).unwrap_or(false)).collect();
            if !nums.is_empty() {
                let (a0, a1) = *rng.pick(&nums);
                splice(v, a0, a1, rng.pick(&HOSTILE_NUMS).as_bytes());
            } else {
                splice(v, pos, pos, rng.pick(&HOSTILE_NUMS).as_bytes());
            }
            "number"
        }
        14 => {
            // repeat one byte / bracket many times
            let c = *rng.pick(&[b'(', b'[', b'{', b'!', b'-', b'"', b'.', b' ', b'\n', b')', b']', b'}']);
            let k = 1 + rng.below(MAX_DEPTH);
            splice(v, pos, pos, &vec![c; k]);
            "repeat-byte"
        }
        _ => {
            // change case of a token / string content
            let spans = token_spans(v);
            if !spans.is_empty() {
                let (a0, a1) = *rng.pick(&spans);
                let t: Vec<u8> = slice(v, a0, a1).iter().map(|c| if c.is_ascii_lowercase() { c.to_ascii_uppercase() } else { c.to_ascii_lowercase() }).collect();
                splice(v, a0, a1, &t);
            }
            "case"
        }
    };
    ctx.count(&format!("mutation:{}", name));
    clamp_len(v);
}

// ------------------------------------------------------------------ (b) token alphabets

const CEDAR_TOKENS: [&str; 96] = [
    "permit", "forbid", "when", "unless", "principal", "action", "resource", "context", "(", ")", "{", "}", "[", "]", ",", ";", ":", "::", ".", "==", "!=", "<", "<=",
    ">", ">=", "&&", "||", "!", "-", "+", "*", "/", "%", "in", "has", "like", "is", "if", "then", "else", "true", "false", "?principal", "?resource", "?other", "@", "@id",
    "=", "|", "&", "A", "B", "N", "M", "Action", "ip", "decimal", "datetime", "duration", "contains", "containsAll", "containsAny", "isEmpty", "hasTag", "getTag", "lessThan",
    "isInRange", "isIpv4", "offset", "toDate", "x", "name", "__cedar", "\"a\"", "\"\"", "\"a*\"", "\"\\*\"", "\"\\u{0}\"", "\"\\u{1F600}\"", "\"\\x41\"", "\"abc", "\"\\",
    "\"10.0.0.1\"", "\"1.23\"", "0", "1", "9223372036854775807", "9223372036854775808", "99999999999999999999", "// c\n", "/* c */", "\n", "\"view\"", "'a'", "\"\u{e9}\"", "\u{e9}",
];

const SCHEMA_TOKENS: [&str; 56] = [
    "namespace", "entity", "action", "type", "in", "appliesTo", "principal", "resource", "context", "enum", "tags", "Set", "Long", "String", "Bool", "Boolean", "Record",
    "Entity", "Extension", "ipaddr", "decimal", "datetime", "duration", "{", "}", "[", "]", "<", ">", ",", ";", ":", "::", "=", "?", "@", "@doc", "(", ")", "\"a\"", "\"\"", "\"a b\"",
    "A", "B", "N", "M", "T", "x", "name", "__cedar", "__cedar::Long", "Action", "// c\n", "\"abc", "1", "\n",
];

const JSON_PUNCT: [&str; 12] = ["{", "}", "[", "]", ",", ":", "true", "false", "null", "0", "1", "-1"];

const ENTITY_KEYS: [&str; 24] = [
    "uid", "attrs", "parents", "tags", "type", "id", "__entity", "__extn", "__expr", "fn", "arg", "args", "ip", "decimal", "datetime", "duration", "A", "B", "N::A", "a", "b",
    "x", "10.0.0.1", "1.5",
];

const SCHEMA_KEYS: [&str; 36] = [
    "", "N", "N::M", "entityTypes", "actions", "commonTypes", "shape", "type", "Record", "attributes", "required", "element", "name", "memberOfTypes", "appliesTo",
    "principalTypes", "resourceTypes", "context", "memberOf", "id", "enum", "tags", "annotations", "Set", "Entity", "Extension", "EntityOrCommon", "Long", "String",
    "Boolean", "A", "B", "view", "ipaddr", "additionalAttributes", "__cedar::Long",
];

const EST_KEYS: [&str; 64] = [
    "effect", "permit", "forbid", "principal", "action", "resource", "context", "conditions", "kind", "when", "unless", "body", "op", "All", "==", "in", "is", "entity",
    "entities", "slot", "?principal", "?resource", "entity_type", "Value", "Var", "Slot", "Unknown", "!", "neg", "&&", "||", "!=", "<", "<=", ">", ">=", "+", "-", "*",
    "contains", "containsAll", "containsAny", "hasTag", "getTag", "isEmpty", "left", "right", "arg", "if-then-else", "if", "then", "else", "Set", "Record", "has", "like",
    "attr", "pattern", "Literal", "Wildcard", ".", "annotations", "ip", "__entity",
];

const ESTSET_KEYS: [&str; 8] = ["templates", "staticPolicies", "templateLinks", "templateId", "newId", "values", "p0", "t0"];

const FFI_KEYS: [&str; 28] = [
    "principal", "action", "resource", "context", "schema", "validateRequest", "policies", "entities", "staticPolicies", "templates", "templateLinks", "templateId",
    "newId", "values", "?principal", "?resource", "validationSettings", "mode", "strict", "permissive", "policyText", "lineWidth", "indentWidth", "type", "id", "enabled",
    "validate_request", "static_policies",
];

fn text_alphabet(kind: Kind) -> &'static [&'static str] {
    match kind {
        Kind::SchemaCedar => &SCHEMA_TOKENS,
        Kind::SchemaJson => &SCHEMA_KEYS,
        Kind::Entities | Kind::Context => &ENTITY_KEYS,
        Kind::Est => &EST_KEYS,
        Kind::EstSet => &ESTSET_KEYS,
        k if k.is_ffi() => &FFI_KEYS,
        _ => &CEDAR_TOKENS,
    }
}

fn token_soup(rng: &mut Rng, alphabet: &[&str]) -> String {
    let n = 1 + rng.below(60);
    let mut s = String::new();
    for _ in 0..n {
        s.push_str(*rng.pick(alphabet));
        if rng.chance(4, 5) {
            s.push(' ');
        }
    }
    s
}

fn json_keys_for(kind: Kind) -> Vec<&'static str> {
    let mut v: Vec<&'static str> = vec![];
    match kind {
        Kind::SchemaJson => v.extend_from_slice(&SCHEMA_KEYS),
        Kind::Entities | Kind::Context => v.extend_from_slice(&ENTITY_KEYS),
        Kind::Est => v.extend_from_slice(&EST_KEYS),
        Kind::EstSet => {
            v.extend_from_slice(&ESTSET_KEYS);
            v.extend_from_slice(&EST_KEYS);
        }
        _ => {
            v.extend_from_slice(&FFI_KEYS);
            v.extend_from_slice(&ENTITY_KEYS);
        }
    }
    v
}

/// well-formed random JSON whose keys and strings come from the kind's alphabet
fn random_json(rng: &mut Rng, keys: &[&str], depth: usize) -> J {
    let leaf = depth == 0 || rng.chance(1, 3);
    if leaf {
        return match rng.below(8) {
            0 => J::Null,
            1 => json!(rng.bool()),
            2 => json!(pools::long(rng)),
            3 => json!(1.5),
            4 => json!(pools::string(rng)),
            _ => json!(*rng.pick(keys)),
        };
    }
    if rng.chance(1, 3) {
        let n = rng.below(4);
        J::Array((0..n).map(|_| random_json(rng, keys, depth - 1)).collect())
    } else {
        let n = rng.below(5);
        let mut m = Map::new();
        for _ in 0..n {
            m.insert(rng.pick(keys).to_string(), random_json(rng, keys, depth - 1));
        }
        J::Object(m)
    }
}

/// JSON token soup: not necessarily well formed
fn json_soup(rng: &mut Rng, keys: &[&str]) -> String {
    let n = 1 + rng.below(50);
    let mut s = String::new();
    for _ in 0..n {
        if rng.bool() {
            s.push_str(*rng.pick(&JSON_PUNCT));
        } else {
            s.push_str(&format!("{:?}", rng.pick(keys)));
        }
    }
    s
}

// ------------------------------------------------------------------ (c) structure-aware deep documents

fn pick_depth(rng: &mut Rng) -> usize {
    match rng.below(5) {
        0 => MAX_DEPTH,
        1 => MAX_DEPTH - rng.below(4),
        2 => 1 + rng.below(8),
        _ => 1 + rng.below(MAX_DEPTH),
    }
}

fn deep_expr_text(rng: &mut Rng, d: usize, ctx: &mut CaseCtx) -> String {
    let shape = rng.below(18);
    ctx.count(&format!("deep:expr:{}", shape));
    let rep = |s: &str, n: usize| s.repeat(n);
    match shape {
        0 => {
            let (leaf, op) = *rng.pick(&[("1", "+"), ("1", "-"), ("1", "*"), ("true", "&&"), ("false", "||"), ("1", "=="), ("1", "<"), ("principal", "in"), ("1", "!=")]);
            let mut s = leaf.to_string();
            for _ in 0..d {
                s.push_str(&format!(" {} {}", op, leaf));
            }
            s
        }
        1 => {
            let (leaf, op) = *rng.pick(&[("1", "+"), ("1", "*"), ("true", "&&"), ("false", "||"), ("1", "=="), ("principal", "in"), ("1", "<=")]);
            let mut s = String::new();
            for _ in 0..d {
                s.push_str(&format!("{} {} (", leaf, op));
            }
            s.push_str(leaf);
            s.push_str(&rep(")", d));
            s
        }
        2 => format!("{}{}{}", rep("(", d), rng.pick(&["1", "principal", "true", "\"s\"", ""]), rep(")", d)),
        3 => format!("{}{}{}", rep("[", d), rng.pick(&["1", "principal", "", "[], []"]), rep("]", d)),
        4 => {
            let k = *rng.pick(&["a", "\"a b\"", "if", "\"\""]);
            let mut s = String::new();
            for _ in 0..d {
                s.push_str(&format!("{{{}: ", k));
            }
            s.push('1');
            s.push_str(&rep("}", d));
            s
        }
        5 => {
            let mut s = String::new();
            for _ in 0..d {
                s.push_str("if true then 1 else ");
            }
            s.push('0');
            s
        }
        6 => {
            let mut s = rep("if ", d);
            s.push_str("true");
            s.push_str(&rep(" then true else false", d));
            s
        }
        7 => {
            let mut s = String::new();
            for _ in 0..d {
                s.push_str("if true then (");
            }
            s.push('1');
            for _ in 0..d {
                s.push_str(") else 0");
            }
            s
        }
        8 => {
            let comps: Vec<&str> = (0..d).map(|_| *rng.pick(&["a", "b", "x", "name", "if", "principal"])).collect();
            format!("{} has {}", rng.pick(&["principal", "context", "resource", "{a: {b: 1}}"]), comps.join("."))
        }
        9 => {
            let u = *rng.pick(&["!", "-", "!-", "-!", "! ", "- "]);
            format!("{}{}", rep(u, d), rng.pick(&["true", "1", "principal", "9223372036854775808"]))
        }
        10 => {
            let mut s = rng.pick(&["principal", "context", "{a: 1}"]).to_string();
            for _ in 0..d {
                s.push_str(*rng.pick(&[".a", "[\"a\"]", ".name", "[\"a b\"]", ".if"]));
            }
            s
        }
        11 => {
            let mut s = String::new();
            for _ in 0..d {
                s.push_str("[1].contains(");
            }
            s.push('1');
            s.push_str(&rep(")", d));
            s
        }
        12 => {
            let mut s = "[1]".to_string();
            for _ in 0..d {
                s.push_str(*rng.pick(&[".contains(1)", ".isEmpty()", ".containsAll([1])", ".hasTag(\"a\")", ".getTag(\"a\")", ".isLoopback()", ".toDate()"]));
            }
            s
        }
        13 => {
            let f = *rng.pick(&["ip", "decimal", "datetime", "duration", "foo", "N::f"]);
            let mut s = String::new();
            for _ in 0..d {
                s.push_str(f);
                s.push('(');
            }
            s.push_str("\"10.0.0.1\"");
            s.push_str(&rep(")", d));
            s
        }
        14 => {
            let mut s = String::new();
            for _ in 0..d {
                s.push_str("principal is A in (");
            }
            s.push_str("A::\"a\"");
            s.push_str(&rep(")", d));
            s
        }
        15 => {
            let mut s = "principal".to_string();
            for _ in 0..d {
                s.push_str(*rng.pick(&[" like \"a*\"", " is A", " has a", " in A::\"a\"", " == 1", " < 1"]));
            }
            s
        }
        16 => {
            // wide rather than deep
            let n = d * 4;
            let items: Vec<String> = (0..n).map(|i| format!("{}", i)).collect();
            if rng.bool() {
                format!("[{}]", items.join(", "))
            } else {
                let fs: Vec<String> = (0..n).map(|i| format!("k{}: {}", i % (d + 1), i)).collect();
                format!("{{{}}}", fs.join(", "))
            }
        }
        _ => {
            // mixed constructors, one per level
            let mut pre = String::new();
            let mut post = String::new();
            for _ in 0..d {
                let (a, b) = *rng.pick(&[
                    ("(", ")"),
                    ("[", "]"),
                    ("{a: ", "}"),
                    ("!", ""),
                    ("-", ""),
                    ("1 + ", ""),
                    ("", " + 1"),
                    ("if true then ", " else 0"),
                    ("if ", " then 1 else 0"),
                    ("[1].contains(", ")"),
                    ("ip(", ")"),
                    ("", ".a"),
                    ("", " has a"),
                    ("true && ", ""),
                    ("", " || false"),
                    ("", " like \"*\""),
                ]);
                pre.push_str(a);
                post.insert_str(0, b);
            }
            format!("{}{}{}", pre, rng.pick(&["1", "principal", "true", "context"]), post)
        }
    }
}

fn deep_json_value(rng: &mut Rng, d: usize) -> J {
    let mut v = match rng.below(4) {
        0 => json!(1),
        1 => json!({"__entity": {"type": "A", "id": "a"}}),
        2 => json!({"__extn": {"fn": "ip", "arg": "10.0.0.1"}}),
        _ => json!("s"),
    };
    let shape = rng.below(6);
    for i in 0..d {
        v = match (shape, i % 2) {
            (0, _) => json!([v]),
            (1, _) => json!({"a": v}),
            (2, 0) => json!([v]),
            (2, _) => json!({"a": v}),
            (3, _) => json!({"__extn": {"fn": "ip", "arg": v}}),
            (4, _) => json!({"__entity": v}),
            _ => match rng.below(5) {
                0 => json!([v, 1]),
                1 => json!({"a": v, "b": [1]}),
                2 => json!({"__extn": {"fn": "decimal", "args": [v]}}),
                3 => json!({"__expr": v}),
                _ => json!({"": v}),
            },
        };
    }
    v
}

/// Record *types* are nested at most this deep in generated schemas.  Reason (finding reported with the
/// monitor): with debug assertions on, `CoreSchema::{attr_type,tag_type}` run
/// `debug_assert!(Type::is_consistent_with(..))`, which recurses twice per record level (2^depth steps), so a
/// 48-deep record type makes schema-based entity parsing run for days.  Set nesting is still taken to 48.
const REC_TYPE_CAP: usize = 12;

fn deep_schema_type_json(rng: &mut Rng, d: usize) -> J {
    let mut t = json!({"type": *rng.pick(&["Long", "String", "A", "Boolean"])});
    let shape = rng.below(4);
    let mut recs = 0usize;
    for i in 0..d {
        let want_rec = match (shape, i % 2) {
            (0, _) | (2, 0) => false,
            (1, _) | (2, _) => true,
            _ => rng.bool(),
        };
        if want_rec && recs < REC_TYPE_CAP {
            recs += 1;
            t = if shape == 3 {
                json!({"type": "Record", "attributes": {"a": t, "b": {"type": "Long", "required": false}}, "additionalAttributes": false})
            } else {
                json!({"type": "Record", "attributes": {"a": t}})
            };
        } else {
            t = json!({"type": "Set", "element": t});
        }
    }
    t
}

fn deep_schema_json(rng: &mut Rng, d: usize, ctx: &mut CaseCtx) -> J {
    let shape = rng.below(6);
    ctx.count(&format!("deep:schema_json:{}", shape));
    match shape {
        0 => json!({"": {"entityTypes": {"A": {"shape": {"type": "Record", "attributes": {"x": deep_schema_type_json(rng, d)}}}}, "actions": {}}}),
        1 => json!({"": {"commonTypes": {"T": deep_schema_type_json(rng, d)}, "entityTypes": {"A": {"tags": {"type": "T"}}}, "actions": {"view": {"appliesTo": {"principalTypes": ["A"], "resourceTypes": ["A"], "context": {"type": "Record", "attributes": {"c": {"type": "T"}}}}}}}}),
        2 => {
            // chain of common types T0 = T1, T1 = T2, ...
            let mut cts = Map::new();
            for i in 0..d {
                cts.insert(format!("T{}", i), if rng.chance(1, 8) { json!({"type": "Set", "element": {"type": format!("T{}", i + 1)}}) } else { json!({"type": format!("T{}", i + 1)}) });
            }
            cts.insert(format!("T{}", d), if rng.chance(1, 6) { json!({"type": "T0"}) } else { json!({"type": "Long"}) });
            json!({"": {"commonTypes": J::Object(cts), "entityTypes": {"A": {"shape": {"type": "Record", "attributes": {"x": {"type": "T0"}}}}}, "actions": {}}})
        }
        3 => {
            // memberOf chain of entity types
            let mut ets = Map::new();
            for i in 0..d {
                ets.insert(format!("E{}", i), json!({"memberOfTypes": [format!("E{}", i + 1)]}));
            }
            ets.insert(format!("E{}", d), if rng.chance(1, 6) { json!({"memberOfTypes": ["E0"]}) } else { json!({}) });
            json!({"": {"entityTypes": J::Object(ets), "actions": {"view": {"appliesTo": {"principalTypes": ["E0"], "resourceTypes": [format!("E{}", d)]}}}}})
        }
        4 => {
            // action group chain (transitive closure over actions)
            let mut acts = Map::new();
            for i in 0..d {
                acts.insert(format!("a{}", i), json!({"memberOf": [{"id": format!("a{}", i + 1)}]}));
            }
            acts.insert(format!("a{}", d), if rng.chance(1, 6) { json!({"memberOf": [{"id": "a0"}]}) } else { json!({}) });
            json!({"": {"entityTypes": {"A": {}}, "actions": J::Object(acts)}})
        }
        _ => {
            // many namespaces with deep names
            let comps: Vec<String> = (0..d.min(24)).map(|i| format!("N{}", i)).collect();
            let ns = comps.join("::");
            json!({ns.as_str(): {"entityTypes": {"A": {"memberOfTypes": [format!("{}::A", ns)]}}, "actions": {"view": {"appliesTo": {"principalTypes": ["A"], "resourceTypes": [format!("{}::A", ns)]}}}}})
        }
    }
}

fn deep_schema_cedar(rng: &mut Rng, d: usize, ctx: &mut CaseCtx) -> String {
    let shape = rng.below(6);
    ctx.count(&format!("deep:schema_cedar:{}", shape));
    match shape {
        0 => format!("entity A = {{ x: {}Long{} }};", "Set<".repeat(d), ">".repeat(d)),
        1 => {
            let r = d.min(REC_TYPE_CAP);
            format!("type T = {}{}Long{}{};\nentity A tags T;", "{ a: ".repeat(r), "Set<".repeat(d - r), ">".repeat(d - r), " }".repeat(r))
        }
        2 => {
            let mut s = String::new();
            for i in 0..d {
                s.push_str(&format!("type T{} = T{};\n", i, i + 1));
            }
            s.push_str(&format!("type T{} = {};\nentity A = {{ x: T0 }};", d, if rng.chance(1, 6) { "T0" } else { "Long" }));
            s
        }
        3 => {
            let mut s = String::new();
            for i in 0..d {
                s.push_str(&format!("entity E{} in [E{}];\n", i, i + 1));
            }
            s.push_str(&format!("entity E{};\naction view appliesTo {{ principal: [E0], resource: [E{}] }};", d, d));
            s
        }
        4 => {
            let mut s = String::new();
            for i in 0..d {
                s.push_str(&format!("action a{} in [a{}];\n", i, i + 1));
            }
            s.push_str(&format!("action a{}{};\nentity A;", d, if rng.chance(1, 6) { " in [a0]" } else { "" }));
            s
        }
        _ => {
            let mut pre = String::new();
            let mut post = String::new();
            let mut recs = 0usize;
            for _ in 0..d {
                if rng.bool() || recs >= REC_TYPE_CAP {
                    pre.push_str("Set<");
                    post.insert(0, '>');
                } else {
                    recs += 1;
                    pre.push_str("{ \"a b\"?: ");
                    post.insert_str(0, ", y: Long }");
                }
            }
            format!("namespace N {{ entity A = {{ x: {}String{} }}; action a appliesTo {{ principal: A, resource: A, context: {{ c: {}Long{} }} }}; }}", pre, post, pre, post)
        }
    }
}

fn deep_est_expr(rng: &mut Rng, d: usize) -> J {
    let mut e = match rng.below(4) {
        0 => json!({"Value": 1}),
        1 => json!({"Var": "principal"}),
        2 => json!({"Value": true}),
        _ => json!({"Value": {"__entity": {"type": "A", "id": "a"}}}),
    };
    let shape = rng.below(10);
    for _ in 0..d {
        let s = if shape == 9 { rng.below(9) } else { shape };
        e = match s {
            0 => json!({"&&": {"left": e, "right": {"Value": true}}}),
            1 => json!({"+": {"left": {"Value": 1}, "right": e}}),
            2 => json!({"!": {"arg": e}}),
            3 => json!({"neg": {"arg": e}}),
            4 => json!({"if-then-else": {"if": {"Value": true}, "then": e, "else": {"Value": 0}}}),
            5 => json!({".": {"left": e, "attr": "a"}}),
            6 => json!({"Set": [e]}),
            7 => json!({"Record": {"a": e}}),
            _ => json!({"ip": [e]}),
        };
    }
    if rng.chance(1, 4) {
        // a long `has` path on a shallow operand (the path itself desugars into d nested &&)
        let path: Vec<String> = (0..d).map(|i| format!("a{}", i % 3)).collect();
        let base = if rng.bool() { json!({"Var": "context"}) } else { json!({"Record": {"a0": {"Record": {"a1": {"Value": 1}}}}}) };
        e = json!({"has": {"left": base, "attr": path}});
    }
    e
}

fn est_wrap(body: J) -> J {
    json!({"effect": "permit", "principal": {"op": "All"}, "action": {"op": "All"}, "resource": {"op": "All"}, "conditions": [{"kind": "when", "body": body}]})
}

// ------------------------------------------------------------------ (d) hostile damage at the JSON value level

fn collect_paths(v: &J, cur: &mut Vec<String>, out: &mut Vec<Vec<String>>) {
    out.push(cur.clone());
    if out.len() > 400 {
        return;
    }
    match v {
        J::Object(m) => {
            for (k, x) in m {
                cur.push(k.clone());
                collect_paths(x, cur, out);
                cur.pop();
            }
        }
        J::Array(a) => {
            for (i, x) in a.iter().enumerate() {
                cur.push(i.to_string());
                collect_paths(x, cur, out);
                cur.pop();
            }
        }
        _ => {}
    }
}

fn at_path<'a>(v: &'a mut J, path: &[String]) -> Option<&'a mut J> {
    let mut cur = v;
    for seg in path {
        cur = match cur {
            J::Object(m) => m.get_mut(seg)?,
            J::Array(a) => a.get_mut(seg.parse::<usize>().ok()?)?,
            _ => return None,
        };
    }
    Some(cur)
}

fn hostile_leaf(rng: &mut Rng) -> J {
    match rng.below(26) {
        0 => J::Null,
        1 => json!(true),
        2 => json!(0),
        3 => json!(-1),
        4 => json!(1e308),
        5 => json!(9223372036854775808u64),
        6 => json!(1.5),
        7 => json!(""),
        8 => json!("\u{0}"),
        9 => json!("a".repeat(300)),
        10 => json!([]),
        11 => json!({}),
        12 => json!([[]]),
        13 => json!({"__entity": {}}),
        14 => json!({"__extn": {}}),
        15 => json!({"__expr": "1 + 1"}),
        16 => json!({"type": "A"}),
        17 => json!({"id": "a"}),
        18 => deep_json_value(rng, MAX_DEPTH),
        19 => json!("permit(principal, action, resource);"),
        20 => json!("entity A;"),
        21 => json!({"type": "A", "id": "a", "extra": 1}),
        22 => json!({"type": "", "id": ""}),
        23 => json!({"type": "A::", "id": "a"}),
        24 => json!("\u{1F600}\u{e9}\u{2028}"),
        _ => json!(i64::MIN),
    }
}

const HOSTILE_KEYS: [&str; 12] = ["", "__proto__", "extra", "static_policies", "StaticPolicies", "validate_request", "template_links", "templateLinks", "schema", "?action", "?principal ", "\u{e9}"];

fn hostile_damage(rng: &mut Rng, v: &mut J, ctx: &mut CaseCtx) {
    let mut paths = vec![];
    collect_paths(v, &mut vec![], &mut paths);
    if paths.is_empty() {
        return;
    }
    let path = rng.pick(&paths).clone();
    let op = rng.below(9);
    let name = match op {
        0 | 1 | 2 => {
            if let Some(x) = at_path(v, &path) {
                *x = hostile_leaf(rng);
            }
            "replace"
        }
        3 => {
            // delete the addressed member from its parent
            if let Some((last, parent)) = path.split_last() {
                if let Some(p) = at_path(v, parent) {
                    match p {
                        J::Object(m) => {
                            m.remove(last);
                        }
                        J::Array(a) => {
                            if let Ok(i) = last.parse::<usize>() {
                                if i < a.len() {
                                    a.remove(i);
                                }
                            }
                        }
                        _ => {}
                    }
                }
            }
            "delete"
        }
        4 => {
            if let Some(x) = at_path(v, &path) {
                match x {
                    J::Array(a) => {
                        if let Some(f) = a.first().cloned() {
                            let k = 1 + rng.below(3);
                            for _ in 0..k {
                                a.push(f.clone());
                            }
                        }
                    }
                    J::Object(m) => {
                        m.insert(rng.pick(&HOSTILE_KEYS).to_string(), hostile_leaf(rng));
                    }
                    _ => {}
                }
            }
            "dup-element-or-add-key"
        }
        5 => {
            // rename a key
            if let Some((last, parent)) = path.split_last() {
                if let Some(J::Object(m)) = at_path(v, parent) {
                    if let Some(val) = m.remove(last) {
                        let nk = match rng.below(4) {
                            0 => last.to_uppercase(),
                            1 => format!("{}_", last),
                            2 => rng.pick(&HOSTILE_KEYS).to_string(),
                            _ => last.chars().rev().collect(),
                        };
                        m.insert(nk, val);
                    }
                }
            }
            "rename-key"
        }
        6 => {
            if let Some(x) = at_path(v, &path) {
                let old = x.take();
                *x = if rng.bool() { json!([old]) } else { json!({"a": old}) };
            }
            "wrap"
        }
        7 => {
            // copy another subtree here
            let other = rng.pick(&paths).clone();
            let src = at_path(v, &other).map(|x| x.clone());
            if let (Some(s), Some(x)) = (src, at_path(v, &path)) {
                *x = s;
            }
            "copy-subtree"
        }
        _ => {
            if let Some(J::String(s)) = at_path(v, &path) {
                match rng.below(4) {
                    0 => s.push_str("::"),
                    1 => s.insert(0, '\0'),
                    2 => *s = s.to_uppercase(),
                    _ => s.push_str(" // x"),
                }
            }
            "string-tweak"
        }
    };
    ctx.count(&format!("hostile:{}", name));
}

/// insert a duplicate key textually (serde_json::Value cannot represent one)
fn duplicate_key_textually(rng: &mut Rng, s: &str) -> String {
    let b = s.as_bytes();
    let opens: Vec<usize> = b.iter().enumerate().filter(|(_, c)| **c == b'{').map(|(i, _)| i).collect();
    if opens.is_empty() {
        return s.to_string();
    }
    let at = *rng.pick(&opens);
    // find the first member `"key":value` following this brace: copy up to the next ',' or '}' at any level (good enough)
    let rest = slice(b, at + 1, b.len());
    let end = rest.iter().position(|c| *c == b',' || *c == b'}').unwrap_or(0);
    let member = slice(rest, 0, end).to_vec();
    if member.is_empty() || !member.contains(&b':') {
        return s.to_string();
    }
    let mut v = b.to_vec();
    let mut ins = member;
    ins.push(b',');
    splice(&mut v, at + 1, at + 1, &ins);
    String::from_utf8_lossy(&v).into_owned()
}

// ------------------------------------------------------------------ protobuf wire-format generators

fn put_varint(out: &mut Vec<u8>, mut x: u64) {
    loop {
        let b = (x & 0x7f) as u8;
        x >>= 7;
        if x == 0 {
            out.push(b);
            break;
        }
        out.push(b | 0x80);
    }
}

fn pb_random(rng: &mut Rng, depth: usize, out: &mut Vec<u8>) {
    let n = rng.below(6);
    for _ in 0..n {
        if out.len() > MAX_LEN {
            return;
        }
        let field = if rng.chance(9, 10) { 1 + rng.below(8) as u64 } else { *rng.pick(&[0u64, 15, 16, 2047, 536870911, 536870912]) };
        let wt = *rng.pick(&[0u64, 0, 2, 2, 2, 2, 5, 1, 3, 4, 6, 7]);
        put_varint(out, (field << 3) | wt);
        match wt {
            0 => put_varint(out, *rng.pick(&[0u64, 1, 2, 3, 127, 128, 300, u32::MAX as u64, u64::MAX, 1 << 63, (1 << 63) - 1])),
            1 => out.extend_from_slice(&rng.next_u64().to_le_bytes()),
            5 => out.extend_from_slice(&(rng.next_u64() as u32).to_le_bytes()),
            2 => {
                let mut sub = vec![];
                if depth > 0 && rng.chance(2, 3) {
                    pb_random(rng, depth - 1, &mut sub);
                } else {
                    sub.extend_from_slice(rng.pick(&["A", "a", "", "N::A", "x", "view", "\u{e9}", "a b", "__cedar", "ip", "10.0.0.1", "\"", "1 + 1"]).as_bytes());
                    if rng.chance(1, 10) {
                        sub.extend_from_slice(*rng.pick(&BAD_UTF8));
                    }
                }
                let len = match rng.below(12) {
                    0 => sub.len() as u64 + 1,
                    1 => sub.len().saturating_sub(1) as u64,
                    2 => *rng.pick(&[u32::MAX as u64, u64::MAX, 1 << 31, 1 << 40]),
                    _ => sub.len() as u64,
                };
                put_varint(out, len);
                out.extend_from_slice(&sub);
            }
            _ => {}
        }
    }
}

fn pb_deep(rng: &mut Rng, d: usize) -> Vec<u8> {
    // nest one length-delimited field d times
    let mut inner: Vec<u8> = vec![];
    if rng.bool() {
        pb_random(rng, 1, &mut inner);
    }
    let fields: Vec<u64> = (0..d).map(|_| 1 + rng.below(6) as u64).collect();
    let same = rng.bool();
    for (i, f) in fields.iter().enumerate() {
        let f = if same { fields.first().copied().unwrap_or(1) } else { *f };
        let mut outer = vec![];
        put_varint(&mut outer, (f << 3) | 2);
        put_varint(&mut outer, inner.len() as u64);
        outer.extend_from_slice(&inner);
        inner = outer;
        if inner.len() > MAX_LEN - 16 {
            let _ = i;
            break;
        }
    }
    inner
}

// ------------------------------------------------------------------ pipelines for every object that parsed

fn fmt_configs(rng: &mut Rng) -> [Config; 2] {
    [
        Config { line_width: 80, indent_width: 2 },
        Config { line_width: *rng.pick(&[0usize, 1, 2, 10, 20, 40, 120, 1000]), indent_width: *rng.pick(&[-2isize, -1, 0, 1, 3, 4, 8]) },
    ]
}

fn pipe_format(ctx: &mut CaseCtx, text: &str, obj: &str) {
    let cfgs = fmt_configs(&mut ctx.rng);
    let second = ctx.rng.chance(1, 2);
    let again = ctx.rng.chance(1, 4);
    for (i, c) in cfgs.iter().enumerate() {
        if i == 1 && !second {
            continue;
        }
        reached(ctx, obj, "format");
        match policies_str_to_pretty(text, c) {
            Ok(out) => {
                tally(ctx, "formatter::policies_str_to_pretty", true);
                ctx.max("formatted_bytes", out.len() as u64);
                if i == 0 && again {
                    // formatting the formatter's own output must not panic either
                    match policies_str_to_pretty(&out, c) {
                        Ok(_) => tally(ctx, "formatter::policies_str_to_pretty(again)", true),
                        Err(e) => {
                            tally(ctx, "formatter::policies_str_to_pretty(again)", false);
                            render_report(ctx, &e);
                        }
                    }
                }
            }
            Err(e) => {
                tally(ctx, "formatter::policies_str_to_pretty", false);
                render_report(ctx, &e);
            }
        }
    }
}

fn pipe_validation_result(ctx: &mut CaseCtx, r: &cedar_policy::ValidationResult, ep: &str) {
    tally(ctx, ep, r.validation_passed());
    let _ = r.validation_passed_without_warnings();
    let _ = r.to_string();
    for e in r.validation_errors().take(32) {
        ctx.count("rendered:validation_errors");
        let _ = e.policy_id().to_string();
        render_dyn(ctx, e, 0);
    }
    for w in r.validation_warnings().take(32) {
        ctx.count("rendered:validation_warnings");
        let _ = w.policy_id().to_string();
        render_dyn(ctx, w, 0);
    }
    if !r.validation_passed_without_warnings() {
        render_dyn(ctx, r, 0);
    }
}

fn pipe_response(ctx: &mut CaseCtx, resp: &cedar_policy::Response) {
    let _ = resp.decision();
    let _ = resp.diagnostics().reason().count();
    let mut n = 0;
    for e in resp.diagnostics().errors().take(16) {
        render_dyn(ctx, e, 0);
        n += 1;
    }
    ctx.add("authz_policy_errors_rendered", n);
}

fn slot_values(rng: &mut Rng, fix: &Fix, slots: &[SlotId]) -> HashMap<SlotId, EntityUid> {
    let mut m = HashMap::new();
    for s in slots {
        if rng.chance(7, 8) {
            m.insert(s.clone(), rng.pick(&fix.uids).clone());
        }
    }
    if rng.chance(1, 8) {
        m.insert(if rng.bool() { SlotId::principal() } else { SlotId::resource() }, rng.pick(&fix.uids).clone());
    }
    m
}

fn pipe_policyset(ctx: &mut CaseCtx, fix: &Fix, ps: &PolicySet, obj: &str, allow_link: bool) {
    reached(ctx, obj, "display");
    let shown = ps.to_string();
    ctx.max("policyset_display_bytes", shown.len() as u64);
    let _ = (ps.num_of_policies(), ps.num_of_templates());
    for p in ps.policies().take(8) {
        let _ = (p.id().to_string(), p.effect(), p.is_static(), p.template_id().map(|t| t.to_string()), p.template_links());
        let _ = (p.principal_constraint(), p.action_constraint(), p.resource_constraint());
        let _ = p.annotations().count();
        let _ = ps.annotation(p.id(), "id");
    }
    for t in ps.templates().take(8) {
        let _ = (t.id().to_string(), t.effect(), t.slots().count(), t.principal_constraint(), t.action_constraint(), t.resource_constraint());
        let _ = ps.template_annotation(t.id(), "id");
    }
    let _ = ps.unknown_entities();
    reached(ctx, obj, "to_cedar");
    let cedar = ps.to_cedar();
    reached(ctx, obj, "to_json");
    if let Some(j) = take(ctx, "PolicySet::to_json", ps.clone().to_json(), None) {
        if let Some(back) = take(ctx, "PolicySet::from_json_value(roundtrip)", PolicySet::from_json_value(j), None) {
            let _ = back.to_string();
        }
    }
    reached(ctx, obj, "to_pst");
    if let Some(pst) = take(ctx, "PolicySet::to_pst", ps.to_pst(), None) {
        let _ = format!("{:?}", pst).len();
        if let Some(back) = take(ctx, "PolicySet::from_pst", PolicySet::from_pst(pst), None) {
            let _ = back.to_string();
        }
    }
    reached(ctx, obj, "validate");
    let r = fix.validator.validate(ps, ValidationMode::Strict);
    pipe_validation_result(ctx, &r, "Validator::validate(strict)");
    let r = fix.validator.validate(ps, ValidationMode::Permissive);
    pipe_validation_result(ctx, &r, "Validator::validate(permissive)");
    reached(ctx, obj, "authorize");
    for req in fix.requests.iter() {
        let resp = fix.auth.is_authorized(req, ps, &fix.entities);
        ctx.count("ep:Authorizer::is_authorized:inputs");
        pipe_response(ctx, &resp);
    }
    if let Some(req) = fix.requests.first() {
        let presp = fix.auth.is_authorized_partial(req, ps, &fix.entities);
        ctx.count("ep:Authorizer::is_authorized_partial:inputs");
        let _ = presp.decision();
        let _ = presp.all_residuals().count();
        let resp = presp.concretize();
        pipe_response(ctx, &resp);
    }
    reached(ctx, obj, "protobuf");
    if let Some(bytes) = take_plain(ctx, "PolicySet::encode", ps.encode()) {
        ctx.max("protobuf_bytes", bytes.len() as u64);
        if let Some(back) = take_plain(ctx, "PolicySet::decode(roundtrip)", PolicySet::decode(bytes.as_slice())) {
            let _ = back.num_of_policies();
        }
    }
    if let Some(text) = &cedar {
        pipe_format(ctx, text, obj);
    } else {
        pipe_format(ctx, &shown, obj);
    }
    // merge with the fixture set
    reached(ctx, obj, "merge");
    let mut merged = fix.pset.clone();
    let rename = ctx.rng.bool();
    if take(ctx, "PolicySet::merge", merged.merge(ps, rename), None).is_some() {
        let _ = merged.num_of_policies();
    }
    // (kept late in the pipeline: it carries a debug assertion that protobuf-decoded sets can violate)
    let _ = ps.is_empty();
    // link every template
    if allow_link {
        let tids: Vec<(PolicyId, Vec<SlotId>)> = ps.templates().take(3).map(|t| (t.id().clone(), t.slots().cloned().collect())).collect();
        if !tids.is_empty() {
            let mut linked = ps.clone();
            let mut any = false;
            for (i, (tid, slots)) in tids.iter().enumerate() {
                reached(ctx, obj, "link");
                let vals = slot_values(&mut ctx.rng, fix, slots);
                let new_id = PolicyId::new(format!("link{}", i));
                if take(ctx, "PolicySet::link", linked.link(tid.clone(), new_id.clone(), vals), None).is_some() {
                    any = true;
                    if let Some(it) = take(ctx, "PolicySet::get_linked_policies", linked.get_linked_policies(tid.clone()), None) {
                        let _ = it.count();
                    }
                }
            }
            if any {
                pipe_policyset(ctx, fix, &linked, "linked_policyset", false);
                let id = PolicyId::new("link0");
                if let Some(p) = take(ctx, "PolicySet::unlink", linked.unlink(id), None) {
                    let _ = p.to_string();
                }
            }
        }
    }
}

fn pipe_policy(ctx: &mut CaseCtx, fix: &Fix, p: &Policy) {
    let obj = "policy";
    reached(ctx, obj, "display");
    let _ = p.to_string();
    reached(ctx, obj, "to_cedar");
    let _ = p.to_cedar();
    reached(ctx, obj, "to_json");
    if let Some(j) = take(ctx, "Policy::to_json", p.to_json(), None) {
        if let Some(back) = take(ctx, "Policy::from_json(roundtrip)", Policy::from_json(None, j), None) {
            let _ = back.to_string();
        }
    }
    reached(ctx, obj, "to_pst");
    if let Some(pst) = take(ctx, "Policy::to_pst", p.to_pst(), None) {
        if let Some(back) = take(ctx, "Policy::from_pst", Policy::from_pst(pst), None) {
            let _ = back.to_string();
        }
    }
    let _ = (p.entity_literals().len(), p.unknown_entities().len(), p.has_non_scope_constraint());
    let _ = p.annotation("id");
    let _ = p.get_valid_request_envs(&fix.schema).count();
    let q = p.new_id(PolicyId::new("renamed"));
    let _ = q.id().to_string();
    let mut ps = PolicySet::new();
    if take(ctx, "PolicySet::add", ps.add(p.clone()), None).is_some() {
        pipe_policyset(ctx, fix, &ps, "policy_as_set", false);
    }
}

fn pipe_template(ctx: &mut CaseCtx, fix: &Fix, t: &Template) {
    let obj = "template";
    reached(ctx, obj, "display");
    let _ = t.to_string();
    reached(ctx, obj, "to_cedar");
    let _ = t.to_cedar();
    reached(ctx, obj, "to_json");
    if let Some(j) = take(ctx, "Template::to_json", t.to_json(), None) {
        if let Some(back) = take(ctx, "Template::from_json(roundtrip)", Template::from_json(None, j), None) {
            let _ = back.to_string();
        }
    }
    reached(ctx, obj, "to_pst");
    if let Some(pst) = take(ctx, "Template::to_pst", t.to_pst(), None) {
        if let Some(back) = take(ctx, "Template::from_pst", Template::from_pst(pst), None) {
            let _ = back.to_string();
        }
    }
    let _ = (t.slots().count(), t.has_non_scope_constraint(), t.annotations().count(), t.annotation("id").map(|s| s.len()));
    let _ = t.get_valid_request_envs(&fix.schema).count();
    reached(ctx, obj, "protobuf");
    if let Some(bytes) = take_plain(ctx, "Template::encode", t.encode()) {
        if let Some(back) = take_plain(ctx, "Template::decode(roundtrip)", Template::decode(bytes.as_slice())) {
            let _ = back.to_string();
        }
    }
    let mut ps = PolicySet::new();
    if take(ctx, "PolicySet::add_template", ps.add_template(t.clone()), None).is_some() {
        pipe_policyset(ctx, fix, &ps, "template_as_set", true);
    }
}

fn pipe_expr(ctx: &mut CaseCtx, fix: &Fix, e: &Expression) {
    let obj = "expression";
    reached(ctx, obj, "display");
    let shown = e.to_string();
    if let Some(back) = take(ctx, "Expression::from_str(reparse of Display)", Expression::from_str(&shown), Some(&shown)) {
        let _ = back.to_string();
    }
    reached(ctx, obj, "eval");
    for req in fix.requests.iter().take(2) {
        match cedar_policy::eval_expression(req, &fix.entities, e) {
            Ok(v) => {
                tally(ctx, "eval_expression", true);
                let _ = v.to_string();
            }
            Err(err) => {
                tally(ctx, "eval_expression", false);
                render_owned(ctx, err, None);
            }
        }
    }
    reached(ctx, obj, "protobuf");
    if let Some(bytes) = take_plain(ctx, "Expression::encode", e.encode()) {
        if let Some(back) = take_plain(ctx, "Expression::decode(roundtrip)", Expression::decode(bytes.as_slice())) {
            let _ = back.to_string();
        }
    }
}

fn pipe_entity(ctx: &mut CaseCtx, e: &Entity) {
    let obj = "entity";
    reached(ctx, obj, "display");
    let _ = e.to_string();
    let _ = e.uid().to_string();
    let _ = e.attrs().map(|(k, v)| k.len() + v.map(|x| x.to_string().len()).unwrap_or(0)).sum::<usize>();
    let _ = e.tags().map(|(k, v)| k.len() + v.map(|x| x.to_string().len()).unwrap_or(0)).sum::<usize>();
    reached(ctx, obj, "to_json");
    if let Some(j) = take(ctx, "Entity::to_json_value", e.to_json_value(), None) {
        if let Some(back) = take(ctx, "Entity::from_json_value(roundtrip)", Entity::from_json_value(j, None), None) {
            let _ = back.deep_eq(e);
        }
    }
    reached(ctx, obj, "protobuf");
    if let Some(bytes) = take_plain(ctx, "Entity::encode", e.encode()) {
        let _ = take_plain(ctx, "Entity::decode(roundtrip)", Entity::decode(bytes.as_slice()));
    }
}

fn pipe_entities(ctx: &mut CaseCtx, fix: &Fix, es: &Entities, obj: &str) {
    reached(ctx, obj, "to_json");
    if let Some(j) = take(ctx, "Entities::to_json_value", es.to_json_value(), None) {
        if let Some(back) = take(ctx, "Entities::from_json_value(roundtrip)", Entities::from_json_value(j, None), None) {
            let _ = back.len();
        }
    }
    let mut sink: Vec<u8> = vec![];
    let _ = take(ctx, "Entities::write_to_json", es.write_to_json(&mut sink), None);
    reached(ctx, obj, "to_dot");
    let _ = es.to_dot_str().len();
    let _ = (es.len(), es.is_empty());
    let uids: Vec<EntityUid> = es.iter().take(6).map(|e| e.uid()).collect();
    for e in es.iter().take(4) {
        pipe_entity(ctx, e);
    }
    for a in uids.iter().take(3) {
        let _ = es.get(a).map(|e| e.uid());
        let _ = es.ancestors(a).map(|it| it.count());
        for b in uids.iter().take(3) {
            let _ = es.is_ancestor_of(a, b);
        }
    }
    reached(ctx, obj, "authorize");
    for req in fix.requests.iter().take(2) {
        let resp = fix.auth.is_authorized(req, &fix.pset, es);
        ctx.count("ep:Authorizer::is_authorized:inputs");
        pipe_response(ctx, &resp);
    }
    reached(ctx, obj, "protobuf");
    if let Some(bytes) = take_plain(ctx, "Entities::encode", es.encode()) {
        if let Some(back) = take_plain(ctx, "Entities::decode(roundtrip)", Entities::decode(bytes.as_slice())) {
            let _ = back.len();
        }
        let _ = take_plain(ctx, "Entities::decode_unchecked(roundtrip)", Entities::decode_unchecked(bytes.as_slice()));
    }
    reached(ctx, obj, "conformance");
    if let Some(v) = take(ctx, "Entities::from_entities(with schema)", Entities::from_entities(es.iter().cloned(), Some(&fix.schema)), None) {
        let _ = v.len();
    }
    let mut grown = fix.entities.clone();
    grown = match grown.clone().add_entities(es.iter().cloned(), None) {
        Ok(g) => {
            tally(ctx, "Entities::add_entities", true);
            g
        }
        Err(e) => {
            tally(ctx, "Entities::add_entities", false);
            render_owned(ctx, e, None);
            grown
        }
    };
    if let Some(g) = take(ctx, "Entities::upsert_entities", grown.clone().upsert_entities(es.iter().cloned(), None), None) {
        grown = g;
    }
    if let Some(g) = take(ctx, "Entities::remove_entities", grown.remove_entities(uids.iter().cloned()), None) {
        let _ = g.len();
    }
    let _ = es.clone().partial().len();
}

fn pipe_context(ctx: &mut CaseCtx, fix: &Fix, c: &Context) {
    let obj = "context";
    reached(ctx, obj, "display");
    let _ = c.to_string();
    reached(ctx, obj, "to_json");
    if let Some(j) = take(ctx, "Context::to_json_value", c.to_json_value(), None) {
        if let Some(back) = take(ctx, "Context::from_json_value(roundtrip)", Context::from_json_value(j, None), None) {
            let _ = back.to_string();
        }
    }
    reached(ctx, obj, "validate");
    let _ = take(ctx, "Context::validate", c.validate(&fix.schema, &fix.action), None);
    let _ = c.get("x").map(|v| v.to_string());
    let pairs: Vec<(String, RestrictedExpression)> = c.clone().into_iter().collect();
    let _ = take(ctx, "Context::merge", c.clone().merge(pairs.into_iter().take(1)), None);
    let _ = take(ctx, "Context::merge", c.clone().merge(vec![("fresh_key_c20".to_string(), RestrictedExpression::new_long(1))]), None);
    reached(ctx, obj, "authorize");
    let (p, a, r) = (fix.uids.first().cloned(), fix.action.clone(), fix.uids.get(2).cloned());
    if let (Some(p), Some(r)) = (p, r) {
        if let Some(req) = take(ctx, "Request::new", Request::new(p.clone(), a.clone(), r.clone(), c.clone(), None), None) {
            let _ = req.to_string();
            let resp = fix.auth.is_authorized(&req, &fix.pset, &fix.entities);
            ctx.count("ep:Authorizer::is_authorized:inputs");
            pipe_response(ctx, &resp);
            reached(ctx, obj, "protobuf");
            if let Some(bytes) = take_plain(ctx, "Request::encode", req.encode()) {
                let _ = take_plain(ctx, "Request::decode(roundtrip)", Request::decode(bytes.as_slice()));
            }
        }
        let _ = take(ctx, "Request::new(with schema)", Request::new(p, a, r, c.clone(), Some(&fix.schema)), None);
    }
}

fn pipe_schema(ctx: &mut CaseCtx, fix: &Fix, s: &Schema, obj: &str) {
    reached(ctx, obj, "queries");
    let ets: Vec<EntityTypeName> = s.entity_types().take(6).cloned().collect();
    let acts: Vec<EntityUid> = s.actions().take(6).cloned().collect();
    let _ = (s.principals().count(), s.resources().count(), s.action_groups().count(), s.request_envs().count());
    for t in &ets {
        let _ = s.ancestors(t).map(|it| it.count());
    }
    for a in &acts {
        let _ = s.principals_for_action(a).map(|it| it.count());
        let _ = s.resources_for_action(a).map(|it| it.count());
    }
    if let (Some(a), Some(b)) = (ets.first(), ets.last()) {
        let _ = s.actions_for_principal_and_resource(a, b).count();
    }
    reached(ctx, obj, "action_entities");
    if let Some(es) = take(ctx, "Schema::action_entities", s.action_entities(), None) {
        let _ = take(ctx, "Entities::to_json_value", es.to_json_value(), None);
        let _ = es.to_dot_str().len();
    }
    reached(ctx, obj, "validate");
    let v = Validator::new(s.clone());
    let r = v.validate(&fix.pset, ValidationMode::Strict);
    pipe_validation_result(ctx, &r, "Validator::validate(parsed schema,strict)");
    let r = v.validate(&fix.pset, ValidationMode::Permissive);
    pipe_validation_result(ctx, &r, "Validator::validate(parsed schema,permissive)");
    for p in fix.pset.policies().take(2) {
        let _ = p.get_valid_request_envs(s).count();
    }
    for t in fix.pset.templates().take(1) {
        let _ = t.get_valid_request_envs(s).count();
    }
    reached(ctx, obj, "schema_based_parsing");
    if let Some(es) = take(ctx, "Entities::from_json_str(parsed schema)", Entities::from_json_str(FIX_ENTITIES, Some(s)), Some(FIX_ENTITIES)) {
        let _ = es.len();
    }
    let act = acts.first().cloned().unwrap_or_else(|| fix.action.clone());
    if let Some(c) = take(ctx, "Context::from_json_str(parsed schema)", Context::from_json_str(FIX_CONTEXT, Some((s, &act))), Some(FIX_CONTEXT)) {
        let _ = c.to_string();
    }
    if let (Some(p), Some(r)) = (fix.uids.first(), fix.uids.get(2)) {
        let _ = take(ctx, "Request::new(parsed schema)", Request::new(p.clone(), act.clone(), r.clone(), Context::empty(), Some(s)), None);
        let _ = take(ctx, "validate_scope_variables", cedar_policy::validate_scope_variables(p, &act, r, s), None);
    }
    reached(ctx, obj, "protobuf");
    if let Some(bytes) = take_plain(ctx, "Schema::encode", s.encode()) {
        ctx.max("protobuf_bytes", bytes.len() as u64);
        let _ = take_plain(ctx, "Schema::decode(roundtrip)", Schema::decode(bytes.as_slice()));
    }
}

fn pipe_fragment(ctx: &mut CaseCtx, fix: &Fix, f: SchemaFragment, obj: &str) {
    let _ = f.namespaces().count();
    reached(ctx, obj, "to_cedarschema");
    if let Some(text) = take(ctx, "SchemaFragment::to_cedarschema", f.to_cedarschema(), None) {
        match SchemaFragment::from_cedarschema_str(&text) {
            Ok((back, warnings)) => {
                tally(ctx, "SchemaFragment::from_cedarschema_str(translated)", true);
                for w in warnings.take(16) {
                    render_owned(ctx, w, Some(&text));
                }
                let _ = back.namespaces().count();
            }
            Err(e) => {
                tally(ctx, "SchemaFragment::from_cedarschema_str(translated)", false);
                render_owned(ctx, e, Some(&text));
            }
        }
    }
    reached(ctx, obj, "to_json");
    if let Some(text) = take(ctx, "SchemaFragment::to_json_string", f.to_json_string(), None) {
        if let Some(back) = take(ctx, "SchemaFragment::from_json_str(translated)", SchemaFragment::from_json_str(&text), Some(&text)) {
            let _ = take(ctx, "SchemaFragment::to_cedarschema", back.to_cedarschema(), None);
        }
    }
    let _ = take(ctx, "SchemaFragment::to_json_value", f.clone().to_json_value(), None);
    reached(ctx, obj, "into_schema");
    let r: Result<Schema, _> = f.clone().try_into();
    if let Some(s) = take(ctx, "SchemaFragment::try_into<Schema>", r, None) {
        pipe_schema(ctx, fix, &s, "schema_from_fragment");
    }
    // combine with the fixture fragment
    if let Ok((ff, _)) = SchemaFragment::from_cedarschema_str(FIX_SCHEMA) {
        if let Some(s) = take(ctx, "Schema::from_schema_fragments", Schema::from_schema_fragments([ff, f]), None) {
            let _ = s.entity_types().count();
        }
    }
}

// ------------------------------------------------------------------ feeding entry points

fn feed_policy_text(ctx: &mut CaseCtx, fix: &Fix, s: &str, which: u8) {
    // which: bit0 = single policy, bit1 = template, bit2 = policy set + formatter
    if which & 1 != 0 {
        if let Some(p) = take(ctx, "Policy::parse", Policy::parse(None, s), Some(s)) {
            pipe_policy(ctx, fix, &p);
        }
        let _ = take(ctx, "Policy::parse(with id)", Policy::parse(Some(PolicyId::new("given id")), s), Some(s));
        let _ = take(ctx, "Policy::from_str", Policy::from_str(s), Some(s));
    }
    if which & 2 != 0 {
        if let Some(t) = take(ctx, "Template::parse", Template::parse(None, s), Some(s)) {
            pipe_template(ctx, fix, &t);
        }
        let _ = take(ctx, "Template::from_str", Template::from_str(s), Some(s));
    }
    if which & 4 != 0 {
        if let Some(ps) = take(ctx, "PolicySet::from_str", PolicySet::from_str(s), Some(s)) {
            if which & 3 != 0 && (ps.num_of_policies() + ps.num_of_templates()) <= 1 {
                // the single policy/template already went through every pipeline above
                reached(ctx, "policyset", "display");
                let _ = (ps.to_string().len(), ps.to_cedar().map(|t| t.len()));
            } else {
                pipe_policyset(ctx, fix, &ps, "policyset", true);
            }
        }
        pipe_format(ctx, s, "source_text");
        match cedar_policy::ffi::policy_set_text_to_parts(s) {
            cedar_policy::ffi::PolicySetTextToPartsAnswer::Success { policies, policy_templates } => {
                tally(ctx, "ffi::policy_set_text_to_parts", true);
                let _ = policies.len() + policy_templates.len();
            }
            cedar_policy::ffi::PolicySetTextToPartsAnswer::Failure { errors } => {
                tally(ctx, "ffi::policy_set_text_to_parts", false);
                ctx.add("ffi_detailed_errors", errors.len() as u64);
            }
        }
    }
}

fn feed_expr_text(ctx: &mut CaseCtx, fix: &Fix, s: &str) {
    if let Some(e) = take(ctx, "Expression::from_str", Expression::from_str(s), Some(s)) {
        pipe_expr(ctx, fix, &e);
    }
    if let Some(r) = take(ctx, "RestrictedExpression::from_str", RestrictedExpression::from_str(s), Some(s)) {
        if let Some(c) = take(ctx, "Context::from_pairs", Context::from_pairs(vec![("k".to_string(), r)]), None) {
            pipe_context(ctx, fix, &c);
        }
    }
    if let Some(u) = take(ctx, "EntityUid::from_str", EntityUid::from_str(s), Some(s)) {
        let _ = u.to_string();
        let _ = take(ctx, "EntityUid::to_json_value", u.to_json_value(), None);
    }
    if let Some(t) = take(ctx, "EntityTypeName::from_str", EntityTypeName::from_str(s), Some(s)) {
        let _ = (t.to_string(), t.basename().len(), t.namespace());
        if let Some(b) = take_plain(ctx, "EntityTypeName::encode", t.encode()) {
            let _ = take_plain(ctx, "EntityTypeName::decode(roundtrip)", EntityTypeName::decode(b.as_slice()));
        }
    }
    let _ = take(ctx, "EntityNamespace::from_str", cedar_policy::EntityNamespace::from_str(s), Some(s));
    let eid = EntityId::new(s);
    let _ = (eid.escaped(), eid.unescaped().len());
    let pid = PolicyId::new(s);
    let _ = pid.to_string();
}

fn feed_schema_json(ctx: &mut CaseCtx, fix: &Fix, bytes: &[u8], s: &str) {
    if let Some(sch) = take(ctx, "Schema::from_json_str", Schema::from_json_str(s), Some(s)) {
        pipe_schema(ctx, fix, &sch, "schema");
    }
    if let Some(f) = take(ctx, "SchemaFragment::from_json_str", SchemaFragment::from_json_str(s), Some(s)) {
        pipe_fragment(ctx, fix, f, "schema_fragment");
    }
    let _ = take(ctx, "Schema::from_json_file", Schema::from_json_file(bytes), Some(s));
    if let Ok(v) = serde_json::from_str::<J>(s) {
        let _ = take(ctx, "Schema::from_json_value", Schema::from_json_value(v.clone()), Some(s));
        let _ = take(ctx, "SchemaFragment::from_json_value", SchemaFragment::from_json_value(v), Some(s));
    }
}

fn feed_schema_cedar(ctx: &mut CaseCtx, fix: &Fix, bytes: &[u8], s: &str) {
    match Schema::from_cedarschema_str(s) {
        Ok((sch, warnings)) => {
            tally(ctx, "Schema::from_cedarschema_str", true);
            for w in warnings.take(16) {
                ctx.count("rendered:schema_warnings");
                render_owned(ctx, w, Some(s));
            }
            pipe_schema(ctx, fix, &sch, "schema");
        }
        Err(e) => {
            tally(ctx, "Schema::from_cedarschema_str", false);
            render_owned(ctx, e, Some(s));
        }
    }
    match SchemaFragment::from_cedarschema_str(s) {
        Ok((f, warnings)) => {
            tally(ctx, "SchemaFragment::from_cedarschema_str", true);
            for w in warnings.take(16) {
                ctx.count("rendered:schema_warnings");
                render_owned(ctx, w, Some(s));
            }
            pipe_fragment(ctx, fix, f, "schema_fragment");
        }
        Err(e) => {
            tally(ctx, "SchemaFragment::from_cedarschema_str", false);
            render_owned(ctx, e, Some(s));
        }
    }
    match Schema::from_cedarschema_file(bytes) {
        Ok((sch, warnings)) => {
            tally(ctx, "Schema::from_cedarschema_file", true);
            let _ = warnings.count();
            let _ = sch.entity_types().count();
        }
        Err(e) => {
            tally(ctx, "Schema::from_cedarschema_file", false);
            render_owned(ctx, e, Some(s));
        }
    }
    let _ = take(ctx, "Schema::from_str", Schema::from_str(s), Some(s));
    let _ = take(ctx, "SchemaFragment::from_str", SchemaFragment::from_str(s), Some(s));
    match cedar_policy::schema_str_to_json_with_resolved_types(s) {
        Ok((j, warnings)) => {
            tally(ctx, "schema_str_to_json_with_resolved_types", true);
            let _ = j.to_string().len();
            for w in warnings.into_iter().take(16) {
                render_owned(ctx, w, Some(s));
            }
        }
        Err(e) => {
            tally(ctx, "schema_str_to_json_with_resolved_types", false);
            render_owned(ctx, e, Some(s));
        }
    }
}

fn feed_entities(ctx: &mut CaseCtx, fix: &Fix, bytes: &[u8], s: &str) {
    if let Some(es) = take(ctx, "Entities::from_json_str", Entities::from_json_str(s, None), Some(s)) {
        pipe_entities(ctx, fix, &es, "entities");
    }
    if let Some(es) = take(ctx, "Entities::from_json_str(with schema)", Entities::from_json_str(s, Some(&fix.schema)), Some(s)) {
        pipe_entities(ctx, fix, &es, "entities_with_schema");
    }
    let _ = take(ctx, "Entities::from_json_file", Entities::from_json_file(bytes, None), Some(s));
    if let Some(e) = take(ctx, "Entity::from_json_str", Entity::from_json_str(s, None), Some(s)) {
        pipe_entity(ctx, &e);
    }
    let _ = take(ctx, "Entity::from_json_str(with schema)", Entity::from_json_str(s, Some(&fix.schema)), Some(s));
    if let Some(es) = take(ctx, "Entities::add_entities_from_json_str", fix.entities.clone().add_entities_from_json_str(s, None), Some(s)) {
        let _ = es.len();
    }
    if let Ok(v) = serde_json::from_str::<J>(s) {
        let _ = take(ctx, "Entities::from_json_value", Entities::from_json_value(v.clone(), None), Some(s));
        if let Some(u) = take(ctx, "EntityUid::from_json", EntityUid::from_json(v), Some(s)) {
            let _ = u.to_string();
        }
    }
}

fn feed_context(ctx: &mut CaseCtx, fix: &Fix, bytes: &[u8], s: &str) {
    if let Some(c) = take(ctx, "Context::from_json_str", Context::from_json_str(s, None), Some(s)) {
        pipe_context(ctx, fix, &c);
    }
    if let Some(c) = take(ctx, "Context::from_json_str(with schema)", Context::from_json_str(s, Some((&fix.schema, &fix.action))), Some(s)) {
        pipe_context(ctx, fix, &c);
    }
    let _ = take(ctx, "Context::from_json_file", Context::from_json_file(bytes, None), Some(s));
    if let Ok(v) = serde_json::from_str::<J>(s) {
        let _ = take(ctx, "Context::from_json_value", Context::from_json_value(v, None), Some(s));
    }
}

fn feed_est(ctx: &mut CaseCtx, fix: &Fix, s: &str) {
    match serde_json::from_str::<J>(s) {
        Ok(v) => {
            tally(ctx, "serde_json::from_str", true);
            if let Some(p) = take(ctx, "Policy::from_json", Policy::from_json(None, v.clone()), Some(s)) {
                pipe_policy(ctx, fix, &p);
            }
            let _ = take(ctx, "Policy::from_json(with id)", Policy::from_json(Some(PolicyId::new("j")), v.clone()), Some(s));
            if let Some(t) = take(ctx, "Template::from_json", Template::from_json(None, v), Some(s)) {
                pipe_template(ctx, fix, &t);
            }
        }
        Err(e) => {
            tally(ctx, "serde_json::from_str", false);
            render_plain(ctx, &e);
        }
    }
}

fn feed_estset(ctx: &mut CaseCtx, fix: &Fix, bytes: &[u8], s: &str) {
    if let Some(ps) = take(ctx, "PolicySet::from_json_str", PolicySet::from_json_str(s), Some(s)) {
        pipe_policyset(ctx, fix, &ps, "policyset_from_json", true);
    }
    let _ = take(ctx, "PolicySet::from_json_file", PolicySet::from_json_file(bytes), Some(s));
    if let Ok(v) = serde_json::from_str::<J>(s) {
        let _ = take(ctx, "PolicySet::from_json_value", PolicySet::from_json_value(v), Some(s));
    }
}

fn feed_pb(ctx: &mut CaseCtx, fix: &Fix, bytes: &[u8], kind: Kind) {
    if kind == Kind::PbPolicySet || kind == Kind::PbOther {
        if let Some(ps) = take_plain(ctx, "PolicySet::decode", PolicySet::decode(bytes)) {
            pipe_policyset(ctx, fix, &ps, "policyset_from_protobuf", true);
        }
        let _ = take_plain(ctx, "PolicySet::decode_unchecked", PolicySet::decode_unchecked(bytes));
    }
    if kind == Kind::PbEntities || kind == Kind::PbOther {
        if let Some(es) = take_plain(ctx, "Entities::decode", Entities::decode(bytes)) {
            pipe_entities(ctx, fix, &es, "entities_from_protobuf");
        }
        if let Some(es) = take_plain(ctx, "Entities::decode_unchecked", Entities::decode_unchecked(bytes)) {
            // documented as "for trusted data": only the cheap observers, the hierarchy invariants are not established
            let _ = (es.len(), es.to_dot_str().len());
            let _ = take(ctx, "Entities::to_json_value", es.to_json_value(), None);
        }
    }
    if kind == Kind::PbSchema || kind == Kind::PbOther {
        if let Some(s) = take_plain(ctx, "Schema::decode", Schema::decode(bytes)) {
            pipe_schema(ctx, fix, &s, "schema_from_protobuf");
        }
    }
    if kind == Kind::PbOther {
        if let Some(t) = take_plain(ctx, "Template::decode", Template::decode(bytes)) {
            pipe_template(ctx, fix, &t);
        }
        if let Some(e) = take_plain(ctx, "Expression::decode", Expression::decode(bytes)) {
            pipe_expr(ctx, fix, &e);
        }
        if let Some(e) = take_plain(ctx, "Entity::decode", Entity::decode(bytes)) {
            pipe_entity(ctx, &e);
        }
        if let Some(r) = take_plain(ctx, "Request::decode", Request::decode(bytes)) {
            let _ = r.to_string();
            let resp = fix.auth.is_authorized(&r, &fix.pset, &fix.entities);
            pipe_response(ctx, &resp);
        }
        if let Some(t) = take_plain(ctx, "EntityTypeName::decode", EntityTypeName::decode(bytes)) {
            let _ = t.to_string();
        }
        if let Some(t) = take_plain(ctx, "EntityNamespace::decode", cedar_policy::EntityNamespace::decode(bytes)) {
            let _ = t.to_string();
        }
    }
}

fn ffi_answer(ctx: &mut CaseCtx, ep: &str, r: Result<String, serde_json::Error>) {
    match r {
        Ok(out) => {
            ctx.count(&format!("ep:{}:inputs", ep));
            ctx.max("ffi_answer_bytes", out.len() as u64);
            let ty = serde_json::from_str::<J>(&out).ok().and_then(|v| v.get("type").and_then(|t| t.as_str()).map(|s| s.to_string())).unwrap_or_else(|| "?".into());
            if ty == "success" || ty == "residuals" {
                ctx.count(&format!("ep:{}:ok", ep));
                ctx.count("ok_total");
            } else {
                ctx.count(&format!("ep:{}:err", ep));
                ctx.count(&format!("ffi_answer:{}:{}", ep, ty));
            }
        }
        Err(e) => {
            ctx.count(&format!("ep:{}:inputs", ep));
            ctx.count(&format!("ep:{}:err", ep));
            ctx.count(&format!("ffi_answer:{}:rejected_by_serde", ep));
            render_plain(ctx, &e);
        }
    }
}

fn ffi_value_answer(ctx: &mut CaseCtx, ep: &str, ans: Result<J, serde_json::Error>) {
    match ans {
        Ok(v) => {
            let ty = v.get("type").and_then(|t| t.as_str()).unwrap_or("?").to_string();
            tally(ctx, ep, ty == "success");
        }
        Err(e) => {
            tally(ctx, ep, false);
            render_plain(ctx, &e);
        }
    }
}

fn feed_ffi(ctx: &mut CaseCtx, s: &str, kind: Kind) {
    use cedar_policy::ffi;
    match kind {
        Kind::FfiAuthz => ffi_answer(ctx, "ffi::is_authorized_json_str", ffi::is_authorized_json_str(s)),
        Kind::FfiPartialAuthz => ffi_answer(ctx, "ffi::is_authorized_partial_json_str", ffi::is_authorized_partial_json_str(s)),
        Kind::FfiValidate => ffi_answer(ctx, "ffi::validate_json_str", ffi::validate_json_str(s)),
        Kind::FfiFormat => {
            // applied to exactly the string that is fed (see `clamp_format_widths`)
            let clamped = if std::env::var_os("C20_NO_WIDTH_CLAMP").is_some() { None } else { clamp_format_widths(s, ctx) };
            let fed: &str = clamped.as_deref().unwrap_or(s);
            ffi_answer(ctx, "ffi::format_json_str", ffi::format_json_str(fed))
        }
        Kind::FfiCheckPolicySet => ffi_answer(ctx, "ffi::check_parse_policy_set_json_str", ffi::check_parse_policy_set_json_str(s)),
        Kind::FfiCheckSchema => ffi_answer(ctx, "ffi::check_parse_schema_json_str", ffi::check_parse_schema_json_str(s)),
        Kind::FfiCheckEntities => ffi_answer(ctx, "ffi::check_parse_entities_json_str", ffi::check_parse_entities_json_str(s)),
        Kind::FfiCheckContext => ffi_answer(ctx, "ffi::check_parse_context_json_str", ffi::check_parse_context_json_str(s)),
        Kind::FfiScopeVars => match serde_json::from_str::<J>(s) {
            Ok(v) => {
                let r = ffi::check_parse_scope_variables_json(v).and_then(|a| serde_json::to_string(&a));
                ffi_answer(ctx, "ffi::check_parse_scope_variables_json", r);
            }
            Err(e) => {
                tally(ctx, "serde_json::from_str", false);
                render_plain(ctx, &e);
            }
        },
        Kind::FfiPolicyConv => {
            match serde_json::from_str::<ffi::Policy>(s) {
                Ok(p) => {
                    tally(ctx, "serde_json::from_str::<ffi::Policy>", true);
                    ffi_value_answer(ctx, "ffi::policy_to_text", serde_json::to_value(&ffi::policy_to_text(p.clone())));
                    ffi_value_answer(ctx, "ffi::policy_to_json", serde_json::to_value(&ffi::policy_to_json(p)));
                }
                Err(e) => {
                    tally(ctx, "serde_json::from_str::<ffi::Policy>", false);
                    render_plain(ctx, &e);
                }
            }
            match serde_json::from_str::<ffi::Template>(s) {
                Ok(t) => {
                    tally(ctx, "serde_json::from_str::<ffi::Template>", true);
                    ffi_value_answer(ctx, "ffi::template_to_text", serde_json::to_value(&ffi::template_to_text(t.clone())));
                    ffi_value_answer(ctx, "ffi::template_to_json", serde_json::to_value(&ffi::template_to_json(t)));
                }
                Err(e) => {
                    tally(ctx, "serde_json::from_str::<ffi::Template>", false);
                    render_plain(ctx, &e);
                }
            }
        }
        _ => {
            match serde_json::from_str::<ffi::Schema>(s) {
                Ok(sc) => {
                    tally(ctx, "serde_json::from_str::<ffi::Schema>", true);
                    ffi_value_answer(ctx, "ffi::schema_to_text", serde_json::to_value(&ffi::schema_to_text(sc.clone())));
                    ffi_value_answer(ctx, "ffi::schema_to_json", serde_json::to_value(&ffi::schema_to_json(sc)));
                }
                Err(e) => {
                    tally(ctx, "serde_json::from_str::<ffi::Schema>", false);
                    render_plain(ctx, &e);
                }
            }
            // the string payload (if any) through the text-taking conversion
            if let Ok(J::String(text)) = serde_json::from_str::<J>(s) {
                ffi_value_answer(ctx, "ffi::schema_to_json_with_resolved_types", serde_json::to_value(&ffi::schema_to_json_with_resolved_types(&text)));
            }
        }
    }
}

fn feed(ctx: &mut CaseCtx, fix: &Fix, kind: Kind, bytes: &[u8]) {
    let lossy;
    let s: &str = match std::str::from_utf8(bytes) {
        Ok(s) => s,
        Err(_) => {
            ctx.count("inputs_not_utf8");
            lossy = String::from_utf8_lossy(bytes).into_owned();
            &lossy
        }
    };
    match kind {
        Kind::Policy => feed_policy_text(ctx, fix, s, 1 | 4),
        Kind::Template => feed_policy_text(ctx, fix, s, 2 | 4),
        Kind::PolicySet => {
            let extra = if ctx.rng.chance(1, 4) { 3 } else { 0 };
            feed_policy_text(ctx, fix, s, 4 | extra)
        }
        Kind::Expr => feed_expr_text(ctx, fix, s),
        Kind::SchemaJson => feed_schema_json(ctx, fix, bytes, s),
        Kind::SchemaCedar => feed_schema_cedar(ctx, fix, bytes, s),
        Kind::Entities => feed_entities(ctx, fix, bytes, s),
        Kind::Context => feed_context(ctx, fix, bytes, s),
        Kind::Est => feed_est(ctx, fix, s),
        Kind::EstSet => feed_estset(ctx, fix, bytes, s),
        k if k.is_pb() => feed_pb(ctx, fix, bytes, k),
        k => feed_ffi(ctx, s, k),
    }
}

// ------------------------------------------------------------------ input construction

fn valid_json(rng: &mut Rng, w: &GWorld, kind: Kind) -> Option<J> {
    Some(match kind {
        Kind::SchemaJson => doc_schema(rng).1,
        Kind::Entities => {
            let all = render::entities_json(w);
            // sometimes a single entity object / a bare entity uid (Entity::from_json_str, EntityUid::from_json)
            match (rng.below(8), all.as_array().and_then(|a| a.first().cloned())) {
                (0, Some(one)) => one,
                (1, Some(one)) => one.get("uid").cloned().unwrap_or(one),
                _ => all,
            }
        }
        Kind::Context => render::context_json(w),
        Kind::Est => {
            let t = rng.chance(1, 3);
            doc_est(rng, w, t)
        }
        Kind::EstSet => doc_estset(rng, w),
        k if k.is_ffi() => doc_ffi(rng, w, k),
        _ => return None,
    })
}

fn valid_pb(rng: &mut Rng, w: &GWorld, fix: &Fix, kind: Kind, ctx: &mut CaseCtx) -> Vec<u8> {
    let r = match kind {
        Kind::PbPolicySet => {
            let text = doc_policyset(rng, w);
            let mut ps = PolicySet::from_str(&text).unwrap_or_else(|_| fix.pset.clone());
            let tids: Vec<(PolicyId, Vec<SlotId>)> = ps.templates().take(2).map(|t| (t.id().clone(), t.slots().cloned().collect())).collect();
            for (i, (tid, slots)) in tids.into_iter().enumerate() {
                let vals: HashMap<SlotId, EntityUid> = slots.into_iter().map(|s| (s, rng.pick(&fix.uids).clone())).collect();
                let _ = ps.link(tid, PolicyId::new(format!("l{}", i)), vals);
            }
            ps.encode().ok()
        }
        Kind::PbEntities => Entities::from_json_value(render::entities_json(w), None).unwrap_or_else(|_| fix.entities.clone()).encode().ok(),
        Kind::PbSchema => {
            let (text, _) = doc_schema(rng);
            match Schema::from_cedarschema_str(&text) {
                Ok((s, _)) => s.encode().ok(),
                Err(_) => fix.schema.encode().ok(),
            }
        }
        _ => match rng.below(5) {
            0 => Template::parse(None, doc_policy(rng, w, true)).ok().and_then(|t| t.encode().ok()),
            1 => Expression::from_str(&doc_expr(rng, w)).ok().and_then(|e| e.encode().ok()),
            2 => fix.entities.iter().nth(rng.below(5)).and_then(|e| e.encode().ok()),
            3 => rng.pick(&fix.requests).encode().ok(),
            _ => EntityTypeName::from_str(*rng.pick(&["A", "N::A", "N::M::A"])).ok().and_then(|t| t.encode().ok()),
        },
    };
    match r {
        Some(b) => b,
        None => {
            ctx.count("valid_pb_fallback");
            fix.pset.encode().unwrap_or_default()
        }
    }
}

fn valid_doc(rng: &mut Rng, w: &GWorld, fix: &Fix, kind: Kind, ctx: &mut CaseCtx) -> Vec<u8> {
    match kind {
        Kind::Policy => doc_policy(rng, w, false).into_bytes(),
        Kind::Template => doc_policy(rng, w, true).into_bytes(),
        Kind::PolicySet => doc_policyset(rng, w).into_bytes(),
        Kind::Expr => doc_expr(rng, w).into_bytes(),
        Kind::SchemaCedar => {
            if rng.chance(1, 8) {
                FIX_SCHEMA.as_bytes().to_vec()
            } else {
                doc_schema(rng).0.into_bytes()
            }
        }
        k if k.is_pb() => valid_pb(rng, w, fix, k, ctx),
        k => {
            let v = valid_json(rng, w, k).unwrap_or(J::Null);
            json_text(rng, &v).into_bytes()
        }
    }
}

fn wrap_cond(rng: &mut Rng, kind: Kind, cond: &str) -> String {
    match kind {
        Kind::Expr => cond.to_string(),
        Kind::Template => format!("permit(principal == ?principal, action, resource) {} {{ {} }};", rng.pick(&["when", "unless"]), cond),
        Kind::PolicySet => format!("permit(principal, action, resource) when {{ {} }};\nforbid(principal, action, resource) unless {{ {} }};", cond, cond),
        _ => format!("permit(principal, action, resource) {} {{ {} }};", rng.pick(&["when", "unless"]), cond),
    }
}

fn deep_doc(rng: &mut Rng, w: &GWorld, kind: Kind, d: usize, ctx: &mut CaseCtx) -> Vec<u8> {
    match kind {
        Kind::Policy | Kind::Template | Kind::PolicySet | Kind::Expr => {
            let cond = deep_expr_text(rng, d, ctx);
            if kind != Kind::Expr && rng.chance(1, 10) {
                // wide: many annotations / many clauses / long action list
                let annos: String = (0..d).map(|i| format!("@a{}(\"v\") ", i)).collect();
                let acts: Vec<String> = (0..d).map(|i| format!("Action::\"a{}\"", i)).collect();
                let clauses: String = (0..d).map(|_| " when { true }").collect();
                return format!("{}permit(principal, action in [{}], resource){};", annos, acts.join(", "), clauses).into_bytes();
            }
            wrap_cond(rng, kind, &cond).into_bytes()
        }
        Kind::SchemaJson => deep_schema_json(rng, d, ctx).to_string().into_bytes(),
        Kind::SchemaCedar => deep_schema_cedar(rng, d, ctx).into_bytes(),
        Kind::Entities => {
            if rng.chance(1, 3) {
                // a parent chain of d entities (hierarchy depth), possibly closed into a cycle
                let mut v = vec![];
                for i in 0..d {
                    v.push(json!({"uid": {"type": "A", "id": format!("e{}", i)}, "attrs": {}, "parents": [{"type": "A", "id": format!("e{}", i + 1)}]}));
                }
                let last_parents = if rng.chance(1, 5) { json!([{"type": "A", "id": "e0"}]) } else { json!([]) };
                v.push(json!({"uid": {"type": "A", "id": format!("e{}", d)}, "attrs": {}, "parents": last_parents}));
                J::Array(v).to_string().into_bytes()
            } else {
                let place = rng.below(3);
                let dv = deep_json_value(rng, d);
                let e = match place {
                    0 => json!({"uid": {"type": "A", "id": "a"}, "attrs": {"x": dv}, "parents": []}),
                    1 => json!({"uid": {"type": "A", "id": "a"}, "attrs": {}, "parents": [], "tags": {"t": dv}}),
                    _ => json!({"uid": dv, "attrs": {}, "parents": [dv.clone()]}),
                };
                json!([e]).to_string().into_bytes()
            }
        }
        Kind::Context => json!({"x": deep_json_value(rng, d)}).to_string().into_bytes(),
        Kind::Est => est_wrap(deep_est_expr(rng, d)).to_string().into_bytes(),
        Kind::EstSet => json!({"staticPolicies": {"p0": est_wrap(deep_est_expr(rng, d))}, "templates": {}, "templateLinks": []}).to_string().into_bytes(),
        k if k.is_pb() => {
            if rng.bool() {
                pb_deep(rng, d)
            } else {
                // the library's own encoding of a deep object
                let cond = deep_expr_text(rng, d, ctx);
                let enc = match k {
                    Kind::PbEntities => Entities::from_json_value(json!([{"uid": {"type": "A", "id": "a"}, "attrs": {"x": deep_json_value(rng, d)}, "parents": []}]), None).ok().and_then(|e| e.encode().ok()),
                    Kind::PbSchema => Schema::from_json_value(deep_schema_json(rng, d, ctx)).ok().and_then(|s| s.encode().ok()),
                    Kind::PbOther => Expression::from_str(&cond).ok().and_then(|e| e.encode().ok()),
                    _ => PolicySet::from_str(&wrap_cond(rng, Kind::Policy, &cond)).ok().and_then(|p| p.encode().ok()),
                };
                match enc {
                    Some(b) => {
                        ctx.count("deep:pb:library_encoded");
                        b
                    }
                    None => pb_deep(rng, d),
                }
            }
        }
        k => {
            // FFI call with one deep component
            let mut v = doc_ffi(rng, w, k);
            let cond = deep_expr_text(rng, d, ctx);
            let ptext = wrap_cond(rng, Kind::Policy, &cond);
            match k {
                Kind::FfiFormat => {
                    if let Some(m) = v.as_object_mut() {
                        m.insert("policyText".into(), json!(ptext));
                    }
                }
                Kind::FfiPolicyConv => {
                    v = if rng.bool() { json!(ptext) } else { est_wrap(deep_est_expr(rng, d)) };
                }
                Kind::FfiSchemaConv | Kind::FfiCheckSchema => {
                    v = if rng.bool() { json!(deep_schema_cedar(rng, d, ctx)) } else { deep_schema_json(rng, d, ctx) };
                }
                Kind::FfiCheckPolicySet => {
                    v = json!({"staticPolicies": if rng.bool() { json!(ptext) } else { json!([est_wrap(deep_est_expr(rng, d))]) }});
                }
                _ => {
                    if let Some(m) = v.as_object_mut() {
                        match rng.below(4) {
                            0 if m.contains_key("policies") => {
                                m.insert("policies".into(), json!({"staticPolicies": ptext}));
                            }
                            1 if m.contains_key("context") => {
                                m.insert("context".into(), json!({"x": deep_json_value(rng, d)}));
                            }
                            2 if m.contains_key("entities") => {
                                m.insert("entities".into(), json!([{"uid": {"type": "A", "id": "a"}, "attrs": {"x": deep_json_value(rng, d)}, "parents": []}]));
                            }
                            _ => {
                                m.insert("schema".into(), if rng.bool() { json!(deep_schema_cedar(rng, d, ctx)) } else { deep_schema_json(rng, d, ctx) });
                            }
                        }
                    }
                }
            }
            v.to_string().into_bytes()
        }
    }
}

fn tokens_doc(rng: &mut Rng, w: &GWorld, kind: Kind) -> Vec<u8> {
    if kind.is_cedar_text() || kind == Kind::SchemaCedar {
        return token_soup(rng, text_alphabet(kind)).into_bytes();
    }
    if kind.is_pb() {
        let mut out = vec![];
        pb_random(rng, 4, &mut out);
        return out;
    }
    let keys = json_keys_for(kind);
    match rng.below(4) {
        0 => json_soup(rng, &keys).into_bytes(),
        1 if kind.is_ffi() => {
            // a valid call with one member replaced by random JSON over the alphabet
            let mut v = doc_ffi(rng, w, kind);
            if let Some(m) = v.as_object_mut() {
                let ks: Vec<String> = m.keys().cloned().collect();
                if !ks.is_empty() {
                    let k = rng.pick(&ks).clone();
                    m.insert(k, random_json(rng, &keys, 4));
                }
            }
            v.to_string().into_bytes()
        }
        _ => random_json(rng, &keys, 5).to_string().into_bytes(),
    }
}

fn hostile_doc(rng: &mut Rng, w: &GWorld, kind: Kind, ctx: &mut CaseCtx) -> Option<Vec<u8>> {
    let mut v = valid_json(rng, w, kind)?;
    let n = 1 + rng.below(3);
    for _ in 0..n {
        hostile_damage(rng, &mut v, ctx);
    }
    let mut s = v.to_string();
    if rng.chance(1, 6) {
        s = duplicate_key_textually(rng, &s);
        ctx.count("hostile:duplicate-key");
    }
    if kind == Kind::FfiFormat && rng.chance(1, 4) {
        // hostile but memory-bounded formatter settings
        if let Ok(J::Object(mut m)) = serde_json::from_str::<J>(&s) {
            m.insert("lineWidth".into(), rng.pick(&[json!(0), json!(-1), json!(1.5), json!("80"), json!(4096), json!(null)]).clone());
            m.insert("indentWidth".into(), rng.pick(&[json!(-64), json!(-7), json!(64), json!(1.5), json!("2"), json!(null)]).clone());
            s = J::Object(m).to_string();
        }
    }
    Some(s.into_bytes())
}

/// The formatter's output size (and time) is proportional to `indentWidth` x nesting x lines and to nothing else in
/// the call, so an `indentWidth` of 2^63-1 makes `ffi::format_json_str` write spaces until memory runs out (reported
/// as a finding with the monitor).  The workload therefore keeps |indentWidth| <= 64 and lineWidth <= 4096.
fn clamp_format_widths(s: &str, ctx: &mut CaseCtx) -> Option<String> {
    let Ok(J::Object(mut m)) = serde_json::from_str::<J>(s) else {
        return None;
    };
    let mut changed = false;
    for (key, lim) in [("indentWidth", 64.0f64), ("lineWidth", 4096.0f64)] {
        if let Some(f) = m.get(key).and_then(|v| v.as_f64()) {
            if f.abs() > lim {
                m.insert(key.to_string(), json!(if f < 0.0 { -lim as i64 } else { lim as i64 }));
                changed = true;
            }
        }
    }
    if changed {
        ctx.count("ffi_format_widths_clamped");
        Some(J::Object(m).to_string())
    } else {
        None
    }
}

// ------------------------------------------------------------------ the case

pub fn case(ctx: &mut CaseCtx) {
    let t0 = std::time::Instant::now();
    FIX.with(|fix| run(ctx, fix));
    // wall time is evidence only, never a verdict here
    let us = u64::try_from(t0.elapsed().as_micros()).unwrap_or(u64::MAX);
    ctx.max("case_us", us);
    ctx.count(match us {
        0..=999 => "time:<1ms",
        1000..=9999 => "time:1-10ms",
        10000..=99999 => "time:10-100ms",
        100000..=999999 => "time:100ms-1s",
        _ => "time:>=1s",
    });
}

fn run(ctx: &mut CaseCtx, fix: &Fix) {
    let t_run = std::time::Instant::now();
    let mut rng = Rng::derive(ctx.seed ^ 0xC20, ctx.idx, 20);
    let nk = KINDS.len() as u64;
    // directed probes of the two listed known findings (debug-assertion panics), right after the
    // enumerated kind x strategy prefix, so that every run reproduces them deterministically
    if ctx.idx == nk * 5 {
        ctx.count("directed:pb-policyset-zero-slot-template-without-link");
        let bytes: [u8; 17] = [0x0a, 0x0f, 0x0a, 0x01, 0x70, 0x2a, 0x02, 0x08, 0x00, 0x32, 0x02, 0x08, 0x00, 0x3a, 0x02, 0x08, 0x00];
        feed(ctx, fix, Kind::PbPolicySet, &bytes);
        return;
    }
    if ctx.idx == nk * 5 + 1 {
        ctx.count("directed:ffi-partial-slot-in-residual");
        let call = r#"{"principal":{"type":"B","id":"b"},"resource":{"type":"A","id":"r"},"context":{},"policies":{"staticPolicies":{},"templates":{"t":"permit(principal, action == Action::\"view\", resource == ?resource) when { 1 + true };"},"templateLinks":[{"templateId":"t","newId":"l","values":{"?resource":{"type":"A","id":"r"}}}]},"entities":[]}"#;
        feed(ctx, fix, Kind::FfiPartialAuthz, call.as_bytes());
        return;
    }
    if ctx.idx == nk * 5 + 2 {
        ctx.count("directed:protobuf-encode-of-unknown");
        feed(ctx, fix, Kind::Context, br#"{"a": {"__extn": {"fn": "unknown", "arg": "x"}}}"#);
        return;
    }
    let (kind, strat) = if ctx.idx < nk * 5 {
        // the first indices enumerate kind x strategy
        let k = KINDS.get((ctx.idx % nk) as usize).copied().unwrap_or(Kind::Policy);
        let s = [Strat::Valid, Strat::Mutate, Strat::Tokens, Strat::Deep, Strat::Hostile].get((ctx.idx / nk) as usize).copied().unwrap_or(Strat::Mutate);
        (k, s)
    } else {
        let k = *rng.pick(&KINDS);
        let s = match rng.weighted(&[10, 40, 15, 20, 15]) {
            0 => Strat::Valid,
            1 => Strat::Mutate,
            2 => Strat::Tokens,
            3 => Strat::Deep,
            _ => Strat::Hostile,
        };
        (k, s)
    };
    let w = gen::world(&mut rng);
    let mut depth = 0usize;
    let mut strat = strat;
    let mut bytes: Vec<u8> = match strat {
        Strat::Valid => valid_doc(&mut rng, &w, fix, kind, ctx),
        Strat::Tokens => tokens_doc(&mut rng, &w, kind),
        Strat::Deep => {
            depth = pick_depth(&mut rng);
            deep_doc(&mut rng, &w, kind, depth, ctx)
        }
        Strat::Hostile => match hostile_doc(&mut rng, &w, kind, ctx) {
            Some(b) => b,
            None => {
                strat = Strat::Mutate;
                valid_doc(&mut rng, &w, fix, kind, ctx)
            }
        },
        Strat::Mutate => valid_doc(&mut rng, &w, fix, kind, ctx),
    };
    if strat == Strat::Mutate || (strat != Strat::Valid && rng.chance(1, 5)) {
        let other = valid_doc(&mut rng, &w, fix, kind, ctx);
        let n = 1 + rng.below(3);
        for _ in 0..n {
            mutate_once(&mut rng, &mut bytes, &other, text_alphabet(kind), ctx);
        }
    }
    if bytes.len() > MAX_LEN {
        ctx.count("inputs_clamped_to_4KiB");
        clamp_len(&mut bytes);
    }
    // debugging aid for minimising a witness: C20_INPUT=<kind>:<file> replaces the generated input
    if ctx.verbose {
        if let Ok(spec) = std::env::var("C20_INPUT") {
            if let Some((k, path)) = spec.split_once(':') {
                if let (Some(k), Ok(b)) = (KINDS.iter().copied().find(|x| x.name() == k), std::fs::read(path)) {
                    eprintln!("C20: input replaced from {}", path);
                    bytes = b;
                    clamp_len(&mut bytes);
                    feed(ctx, fix, k, &bytes);
                    return;
                }
            }
        }
    }
    ctx.count(&format!("cell:{}:{}", kind.name(), strat.name()));
    ctx.max("input_bytes", bytes.len() as u64);
    if depth > 0 {
        ctx.max(&format!("depth:{}", kind.name()), depth as u64);
        ctx.max("depth", depth as u64);
    }
    if ctx.verbose {
        eprintln!("C20 case {} kind={} strategy={} depth={} len={}", ctx.idx, kind.name(), strat.name(), depth, bytes.len());
        eprintln!("C20 input (escaped): {}", bytes.escape_ascii());
        if let Ok(s) = std::str::from_utf8(&bytes) {
            eprintln!("C20 input (text):\n{}", s);
        }
    }
    // non-trivial = the input reaches a parser (every input does); distinct by (kind, bytes)
    ctx.nontrivial(&format!("{}|{}", kind.name(), bytes.escape_ascii()));
    ctx.count("inputs");

    let before_ok = ctx.rep.counters.get("ok_total").copied().unwrap_or(0);
    feed(ctx, fix, kind, &bytes);
    // sometimes the same bytes also go to the entry points of a foreign kind
    if rng.chance(1, 8) {
        let other = *rng.pick(&KINDS);
        if other != kind {
            ctx.count("cross_fed");
            feed(ctx, fix, other, &bytes);
        }
    }
    let after_ok = ctx.rep.counters.get("ok_total").copied().unwrap_or(0);
    if after_ok > before_ok {
        ctx.count(&format!("accepted_somewhere:{}", strat.name()));
        if depth > 0 {
            ctx.max(&format!("depth_accepted:{}", kind.name()), depth as u64);
        }
    }
    ctx.add(&format!("us:{}:{}", kind.name(), strat.name()), u64::try_from(t_run.elapsed().as_micros()).unwrap_or(u64::MAX));
    let len = bytes.len();
    ctx.sample(|| json!({"kind": kind.name(), "strategy": strat.name(), "depth": depth, "len": len, "input": String::from_utf8_lossy(&bytes).chars().take(400).collect::<String>()}));
}
