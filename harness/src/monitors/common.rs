//! Helpers shared by monitors.

use crate::bridge::{self, Obs};
use crate::model::*;
use crate::refsem::{self, Outcome};
use cedar_policy::{Authorizer, Decision, Entities, Policy, PolicyId, PolicySet, Request, Response};
use cedar_policy_core::ast;
use cedar_policy_core::evaluator::Evaluator;
use cedar_policy_core::extensions::Extensions;
use std::collections::HashMap;

/// Evaluate a core expression at the `Evaluator::interpret` boundary.
pub fn interpret(expr: &ast::Expr, req: &Request, ents: &Entities) -> Result<Obs, String> {
    let ev = Evaluator::new(AsRef::<ast::Request>::as_ref(req).clone(), ents.as_ref(), Extensions::all_available());
    match ev.interpret(expr, &HashMap::new()) {
        Ok(v) => bridge::value_back(&v).map(Obs::Val),
        Err(e) => Ok(Obs::Err(bridge::err_class(&e))),
    }
}

/// What a single policy did in an authorization response
#[derive(Clone, Debug, PartialEq, Eq)]
pub enum PolObs {
    Satisfied,
    NotSatisfied,
    Error(u8),
}

/// Observe the outcome of the only policy `id` of a single-policy set
pub fn single_policy_outcome(resp: &Response, id: &PolicyId) -> Result<PolObs, String> {
    let reasons: Vec<&PolicyId> = resp.diagnostics().reason().collect();
    let errs: Vec<_> = resp.diagnostics().errors().collect();
    if errs.len() > 1 || reasons.len() > 1 {
        return Err(format!("single policy but {} reasons / {} errors", reasons.len(), errs.len()));
    }
    if let Some(e) = errs.first() {
        let cedar_policy::AuthorizationError::PolicyEvaluationError(pe) = e;
        if pe.policy_id() != id {
            return Err(format!("error reported for unknown policy id {}", pe.policy_id()));
        }
        if !reasons.is_empty() {
            return Err("policy both errored and is a reason".into());
        }
        return Ok(PolObs::Error(bridge::err_class(pe.inner())));
    }
    if let Some(r) = reasons.first() {
        if *r != id {
            return Err(format!("reason names unknown policy id {}", r));
        }
        return Ok(PolObs::Satisfied);
    }
    Ok(PolObs::NotSatisfied)
}

pub fn outcome_agrees(expected: &Outcome, obs: &PolObs) -> bool {
    match (expected, obs) {
        (Outcome::Satisfied, PolObs::Satisfied) => true,
        (Outcome::NotSatisfied, PolObs::NotSatisfied) => true,
        (Outcome::Error(s), PolObs::Error(c)) => s.contains(*c),
        _ => false,
    }
}

pub fn outcome_of_result(r: &refsem::R) -> Outcome {
    match r {
        Ok(GValue::Bool(true)) => Outcome::Satisfied,
        Ok(GValue::Bool(false)) => Outcome::NotSatisfied,
        Ok(_) => Outcome::Error(refsem::ErrSet(refsem::TYPE)),
        Err(e) => Outcome::Error(*e),
    }
}

pub fn authorize_single(p: Policy, req: &Request, ents: &Entities) -> Result<(Decision, PolObs), String> {
    let id = p.id().clone();
    let mut ps = PolicySet::new();
    ps.add(p).map_err(|e| e.to_string())?;
    let resp = Authorizer::new().is_authorized(req, &ps, ents);
    let o = single_policy_outcome(&resp, &id)?;
    Ok((resp.decision(), o))
}

/// Compare a library entity store with the model world: same uids (except `ignore`),
/// same attribute / tag values, same ancestor relation.
pub fn store_matches_model(ents: &Entities, w: &GWorld, ignore: &[Uid]) -> Result<(), String> {
    let core: &cedar_policy_core::entities::Entities = ents.as_ref();
    let mut seen = 0usize;
    for e in core.iter() {
        let u = bridge::core_uid_back(e.uid());
        if ignore.contains(&u) {
            continue;
        }
        seen += 1;
        let m = match w.entities.get(&u) {
            Some(m) => m,
            None => return Err(format!("store holds {:?} which the model does not", u)),
        };
        let pv = |p: &ast::PartialValue| -> Result<GValue, String> {
            match p {
                ast::PartialValue::Value(v) => bridge::value_back(v),
                ast::PartialValue::Residual(r) => Err(format!("harness: residual attribute value {r}")),
            }
        };
        let mut attrs = std::collections::BTreeMap::new();
        for (k, v) in e.attrs() {
            attrs.insert(k.to_string(), pv(v)?);
        }
        if attrs != m.attrs {
            return Err(format!("attributes of {:?}: store {:?} vs model {:?}", u, attrs, m.attrs));
        }
        let mut tags = std::collections::BTreeMap::new();
        for (k, v) in e.tags() {
            tags.insert(k.to_string(), pv(v)?);
        }
        if tags != m.tags {
            return Err(format!("tags of {:?}: store {:?} vs model {:?}", u, tags, m.tags));
        }
        let anc: std::collections::BTreeSet<Uid> = e.ancestors().map(bridge::core_uid_back).collect();
        let manc = w.ancestors(&u);
        if anc != manc {
            return Err(format!("ancestors of {:?}: store {:?} vs model {:?}", u, anc, manc));
        }
    }
    let expected = w.entities.keys().filter(|u| !ignore.contains(u)).count();
    if seen != expected {
        return Err(format!("store holds {} entities, model {}", seen, expected));
    }
    Ok(())
}

/// the record value of a Context, in harness terms
pub fn context_value(cx: &cedar_policy::Context) -> Result<GValue, String> {
    let req = Request::new(
        bridge::uid(&Uid::new("A", "a")),
        bridge::uid(&Uid::new("Action", "a")),
        bridge::uid(&Uid::new("A", "a")),
        cx.clone(),
        None,
    )
    .map_err(|e| e.to_string())?;
    let e = ast::Expr::var(ast::Var::Context);
    match interpret(&e, &req, &Entities::empty())? {
        Obs::Val(v) => Ok(v),
        Obs::Err(c) => Err(format!("harness: evaluating `context` errs with class {c}")),
    }
}
