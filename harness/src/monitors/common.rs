//! Helpers shared by monitors.

use crate::bridge::{self, Obs};
use crate::model::*;
use crate::refsem::{self, Outcome};
use cedar_policy::{Authorizer, Decision, Entities, Policy, PolicyId, PolicySet, Request, Response};
use cedar_policy_core::ast;
use cedar_policy_core::evaluator::Evaluator;
use cedar_policy_core::extensions::Extensions;
use std::collections::HashMap;

/// Evaluate a core expression at the `Evaluator::interpret` boundary.
pub fn interpret(expr: &ast::Expr, req: &Request, ents: &Entities) -> Result<Obs, String> {
    let ev = Evaluator::new(AsRef::<ast::Request>::as_ref(req).clone(), ents.as_ref(), Extensions::all_available());
    match ev.interpret(expr, &HashMap::new()) {
        Ok(v) => bridge::value_back(&v).map(Obs::Val),
        Err(e) => Ok(Obs::Err(bridge::err_class(&e))),
    }
}

/// What a single policy did in an authorization response
#[derive(Clone, Debug, PartialEq, Eq)]
pub enum PolObs {
    Satisfied,
    NotSatisfied,
    Error(u8),
}

/// Observe the outcome of the only policy `id` of a single-policy set
pub fn single_policy_outcome(resp: &Response, id: &PolicyId) -> Result<PolObs, String> {
    let reasons: Vec<&PolicyId> = resp.diagnostics().reason().collect();
    let errs: Vec<_> = resp.diagnostics().errors().collect();
    if errs.len() > 1 || reasons.len() > 1 {
        return Err(format!("single policy but {} reasons / {} errors", reasons.len(), errs.len()));
    }
    if let Some(e) = errs.first() {
        let cedar_policy::AuthorizationError::PolicyEvaluationError(pe) = e;
        if pe.policy_id() != id {
            return Err(format!("error reported for unknown policy id {}", pe.policy_id()));
        }
        if !reasons.is_empty() {
            return Err("policy both errored and is a reason".into());
        }
        return Ok(PolObs::Error(bridge::err_class(pe.inner())));
    }
    if let Some(r) = reasons.first() {
        if *r != id {
            return Err(format!("reason names unknown policy id {}", r));
        }
        return Ok(PolObs::Satisfied);
    }
    Ok(PolObs::NotSatisfied)
}

pub fn outcome_agrees(expected: &Outcome, obs: &PolObs) -> bool {
    match (expected, obs) {
        (Outcome::Satisfied, PolObs::Satisfied) => true,
        (Outcome::NotSatisfied, PolObs::NotSatisfied) => true,
        (Outcome::Error(s), PolObs::Error(c)) => s.contains(*c),
        _ => false,
    }
}

pub fn outcome_of_result(r: &refsem::R) -> Outcome {
    match r {
        Ok(GValue::Bool(true)) => Outcome::Satisfied,
        Ok(GValue::Bool(false)) => Outcome::NotSatisfied,
        Ok(_) => Outcome::Error(refsem::ErrSet(refsem::TYPE)),
        Err(e) => Outcome::Error(*e),
    }
}

pub fn authorize_single(p: Policy, req: &Request, ents: &Entities) -> Result<(Decision, PolObs), String> {
    let id = p.id().clone();
    let mut ps = PolicySet::new();
    ps.add(p).map_err(|e| e.to_string())?;
    let resp = Authorizer::new().is_authorized(req, &ps, ents);
    let o = single_policy_outcome(&resp, &id)?;
    Ok((resp.decision(), o))
}
