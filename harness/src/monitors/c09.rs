//! C09 — the JSON and Cedar schema syntaxes denote the same schema.
//! The same GSchema is printed by two independent printers (JSON, Cedar syntax),
//! both are loaded, then each is translated by the library to the other syntax
//! and re-loaded.  Equality is judged by ValidatorSchema ==, by an independent
//! structural digest and by behaviour (validation of policies / requests / entities).

use super::c03::entities_with_schema;
use crate::bridge;
use crate::model::*;
use crate::render::{self, TextOpts};
use crate::report::CaseCtx;
use crate::rng::Rng;
use crate::schema::*;
use cedar_policy::{Policy, PolicyId, PolicySet, Schema, SchemaFragment, ValidationMode, Validator};
use cedar_policy_core::validator::ValidatorEntityTypeKind;
use cedar_policy_core::validator::ValidatorSchema;
use serde_json::json;

/// structural digest through accessors (sorted, order-independent)
pub fn digest(s: &Schema) -> String {
    let v: &ValidatorSchema = s.as_ref();
    let mut lines: Vec<String> = vec![];
    for et in v.entity_types() {
        let mut desc: Vec<String> = et.descendants.iter().map(|d| d.to_string()).collect();
        desc.sort();
        let mut attrs: Vec<String> = et.attributes().iter().map(|(k, a)| format!("{:?}:{}{}", k, a.attr_type, if a.is_required { "" } else { "?" })).collect();
        attrs.sort();
        let kind = match &et.kind {
            ValidatorEntityTypeKind::Enum(ids) => {
                let mut i: Vec<String> = ids.iter().map(|e| format!("{:?}", AsRef::<str>::as_ref(e))).collect();
                i.sort();
                format!("enum{:?}", i)
            }
            ValidatorEntityTypeKind::Standard(_) => format!("std open={:?} tags={}", et.open_attributes(), et.tag_type().map(|t| t.to_string()).unwrap_or_else(|| "-".into())),
        };
        lines.push(format!("entity {} desc={:?} attrs={:?} {}", et.name(), desc, attrs, kind));
    }
    for a in v.action_ids() {
        let mut ps: Vec<String> = a.applies_to_principals().map(|t| t.to_string()).collect();
        ps.sort();
        let mut rs: Vec<String> = a.applies_to_resources().map(|t| t.to_string()).collect();
        rs.sort();
        let mut ds: Vec<String> = a.descendants().map(|d| d.to_string()).collect();
        ds.sort();
        lines.push(format!("action {} principals={:?} resources={:?} context={} desc={:?}", a.name(), ps, rs, a.context_type(), ds));
    }
    // public accessors as well
    let mut groups: Vec<String> = s.action_groups().map(|g| g.to_string()).collect();
    groups.sort();
    lines.push(format!("groups={:?}", groups));
    let mut pr: Vec<String> = s.principals().map(|g| g.to_string()).collect();
    pr.sort();
    pr.dedup();
    lines.push(format!("principals={:?}", pr));
    lines.sort();
    lines.join("\n")
}

fn same(a: &Schema, b: &Schema) -> Result<(), String> {
    let (va, vb): (&ValidatorSchema, &ValidatorSchema) = (a.as_ref(), b.as_ref());
    let (da, db) = (digest(a), digest(b));
    if da != db {
        // first differing line
        let la: Vec<&str> = da.lines().collect();
        let lb: Vec<&str> = db.lines().collect();
        for i in 0..la.len().max(lb.len()) {
            if la.get(i) != lb.get(i) {
                return Err(format!("digest differs: `{}` vs `{}`", la.get(i).unwrap_or(&"<none>"), lb.get(i).unwrap_or(&"<none>")));
            }
        }
    }
    if va != vb {
        return Err("ValidatorSchema::eq is false although the structural digests agree".into());
    }
    Ok(())
}

fn sig_of(diff: &str) -> &'static str {
    if diff.contains("principals=") || diff.contains("resources=") {
        "applies-to"
    } else if diff.starts_with("digest differs: `entity") {
        "entity-type"
    } else if diff.starts_with("digest differs: `action") {
        "action"
    } else {
        "other"
    }
}

pub fn case(ctx: &mut CaseCtx) {
    // directed probe (first index): the one-sided appliesTo case
    let one_sided = ctx.idx == 0 || ctx.rng.chance(1, 25);
    let mut opts = SchemaOpts::default();
    opts.max_namespaces = 3;
    let gs = gen_schema(&mut ctx.rng, &opts);
    // JSON-only shape: a common type and an entity type with the same name in one namespace (legal in the JSON
    // syntax, where {"type":"Entity"} and a common-type reference are spelled differently; the Cedar syntax cannot
    // tell them apart, so the library's translation must either refuse or stay faithful)
    let mut gs = gs;
    let name_collision = !one_sided && ctx.rng.chance(1, 6);
    if name_collision {
        let cands: Vec<String> = gs.entity_types.iter().filter(|e| e.enum_ids.is_none()).map(|e| e.name.clone()).collect();
        let victim = ctx.rng.pick_clone(&cands);
        gs.common_types.push((victim.clone(), if ctx.rng.bool() { GType::Long } else { GType::Rec(vec![GAttr { name: "k".into(), ty: GType::Str, required: true }]) }));
        // a must-be-entity reference and a must-be-common reference to that name
        let holder = ctx.rng.below(gs.entity_types.len());
        if gs.entity_types[holder].enum_ids.is_none() {
            gs.entity_types[holder].attrs.retain(|a| a.name != "zref" && a.name != "zcommon");
            gs.entity_types[holder].attrs.push(GAttr { name: "zref".into(), ty: GType::Ent(victim.clone()), required: true });
            gs.entity_types[holder].attrs.push(GAttr { name: "zcommon".into(), ty: GType::Common(victim.clone()), required: false });
        }
        ctx.count("name-collision:common-type-named-like-entity-type");
    }
    // an action id that is not an identifier (the Cedar syntax must quote and escape it; JSON keys carry it verbatim)
    if ctx.rng.chance(1, 3) && !gs.actions.is_empty() {
        let k = ctx.rng.below(gs.actions.len());
        let new_id = ctx.rng.pick(&["back\\slash", "q\"uote", "line\nbreak", "\u{3c0}", "it's", "a\\\\b\\"]).to_string();
        let old_uid = gs.actions[k].uid();
        if !gs.actions.iter().any(|a| a.ns == gs.actions[k].ns && a.id == new_id) {
            gs.actions[k].id = new_id;
            let new_uid = gs.actions[k].uid();
            for a in gs.actions.iter_mut() {
                for m in a.member_of.iter_mut() {
                    if *m == old_uid {
                        *m = new_uid.clone();
                    }
                }
            }
            ctx.count("hostile-action-id");
        }
    }
    let json_only = one_sided || name_collision;
    let st_json = PrintStyle { unqualified: ctx.rng.bool(), loose_json: !name_collision && ctx.rng.bool() };
    let st_cedar = PrintStyle { unqualified: ctx.rng.bool(), loose_json: false };
    ctx.count(&format!("style:json-unqualified={},loose={},cedar-unqualified={}", st_json.unqualified, st_json.loose_json, st_cedar.unqualified));
    let mut j = gs.to_json(&st_json);
    let c = gs.to_cedar(&st_cedar);
    if one_sided {
        // make one side of some appliesTo empty in the JSON document (not expressible by the Cedar printer of the harness)
        let mut done = false;
        if let Some(top) = j.as_object_mut() {
            'o: for (_, ns) in top.iter_mut() {
                if let Some(acts) = ns.get_mut("actions").and_then(|a| a.as_object_mut()) {
                    for (_, a) in acts.iter_mut() {
                        if let Some(ap) = a.get_mut("appliesTo") {
                            let which = if ctx.idx == 0 || ctx.rng.bool() { "principalTypes" } else { "resourceTypes" };
                            ap[which] = json!([]);
                            done = true;
                            break 'o;
                        }
                    }
                }
            }
        }
        if done {
            ctx.count("one-sided-appliesTo");
        }
    }
    let detail = |extra: serde_json::Value| json!({"json": j, "cedar": c, "extra": extra});

    // ---- load both renderings
    let frag_j = match SchemaFragment::from_json_value(j.clone()) {
        Ok(f) => f,
        Err(e) => return ctx.harness_error(format!("JSON rendering rejected: {}", bridge::err_chain(&e))),
    };
    let sj = match Schema::from_json_value(j.clone()) {
        Ok(s) => s,
        Err(e) => return ctx.harness_error(format!("JSON rendering rejected as schema: {} :: {}", bridge::err_chain(&e), j)),
    };
    ctx.count("loaded:json");
    let mut schemas: Vec<(&'static str, Schema)> = vec![];
    if !json_only {
        let (frag_c, _w) = match SchemaFragment::from_cedarschema_str(&c) {
            Ok(x) => x,
            Err(e) => return ctx.harness_error(format!("Cedar rendering rejected: {} :: {}", bridge::err_chain(&e), c)),
        };
        let sc = match Schema::from_cedarschema_str(&c) {
            Ok((s, _)) => s,
            Err(e) => return ctx.harness_error(format!("Cedar rendering rejected as schema: {} :: {}", bridge::err_chain(&e), c)),
        };
        ctx.count("loaded:cedar");
        // the two renderings of one model denote the same schema
        if let Err(d) = same(&sj, &sc) {
            ctx.violation(&format!("C09:two-renderings:{}", sig_of(&d)), format!("the JSON and Cedar renderings of one schema load to different schemas: {d}"), detail(json!({"diff": d})));
        }
        // library translation Cedar -> JSON
        match frag_c.to_json_value() {
            Ok(jv) => {
                ctx.count("translate:cedar->json:ok");
                match Schema::from_json_value(jv.clone()) {
                    Ok(s2) => {
                        if let Err(d) = same(&sc, &s2) {
                            ctx.violation(&format!("C09:cedar->json:{}", sig_of(&d)), format!("Cedar schema translated to JSON loads to a different schema: {d}"), detail(json!({"diff": d, "translated": jv})));
                        }
                        schemas.push(("cedar->json", s2));
                    }
                    Err(e) => ctx.violation("C09:cedar->json:does-not-load", format!("translation to JSON succeeded but the result does not load: {}", bridge::err_chain(&e)), detail(json!({"translated": jv}))),
                }
            }
            Err(e) => {
                ctx.count("translate:cedar->json:failed");
                if ctx.verbose {
                    eprintln!("cedar->json failed: {e}");
                }
            }
        }
        schemas.push(("cedar", sc));
    }
    // library translation JSON -> Cedar
    match frag_j.to_cedarschema() {
        Ok(text) => {
            ctx.count("translate:json->cedar:ok");
            match Schema::from_cedarschema_str(&text) {
                Ok((s2, _)) => {
                    if let Err(d) = same(&sj, &s2) {
                        let sig = if one_sided && sig_of(&d) == "applies-to" { "C09:json->cedar:one-sided-appliesTo".to_string() } else { format!("C09:json->cedar:{}", sig_of(&d)) };
                        ctx.violation(&sig, format!("JSON schema translated to Cedar syntax loads to a different schema: {d}"), detail(json!({"diff": d, "translated": text})));
                    }
                    schemas.push(("json->cedar", s2));
                }
                Err(e) => ctx.violation("C09:json->cedar:does-not-load", format!("translation to Cedar syntax succeeded but the result does not load: {}", bridge::err_chain(&e)), detail(json!({"translated": text}))),
            }
        }
        Err(e) => {
            ctx.count("translate:json->cedar:failed");
            ctx.count(&format!("json->cedar-failed:{}", e.to_string().chars().take(50).collect::<String>()));
        }
    }

    // ---- behavioural agreement: policies, requests and entities validated under every loaded schema
    let envs = gs.envs();
    if !envs.is_empty() && !one_sided {
        let wg = WorldGen::new(&mut ctx.rng, &gs);
        for _ in 0..3 {
            let env = ctx.rng.pick_clone(&envs);
            let pol = {
                let mut g = TypedGen::new(&mut ctx.rng, &gs, &env, &wg.pools);
                if g.rng.chance(1, 3) {
                    g.omit_guard = 40;
                    g.mistype = 5;
                }
                typed_policy(&mut g, 2)
            };
            let text = render::policy_text(&pol, &mut TextOpts::plain(&mut ctx.rng));
            let policy = match Policy::parse(Some(PolicyId::new("p")), &text) {
                Ok(p) => p,
                Err(_) => continue,
            };
            let mut pset = PolicySet::new();
            pset.add(policy).expect("add");
            let base_v = Validator::new(sj.clone()).validate(&pset, ValidationMode::Strict).validation_passed();
            let w = wg.world(&mut ctx.rng, &env);
            // sometimes a non-conformant world
            let w = if ctx.rng.chance(1, 3) {
                let mut w = w;
                w.context.insert("zz_undeclared".into(), GValue::Long(1));
                w
            } else {
                w
            };
            let base_r = bridge::request(&w, Some(&sj)).is_ok();
            let base_e = entities_with_schema(&w, &gs, &sj).is_ok();
            for (name, s) in &schemas {
                ctx.count("behaviour_probes");
                let v = Validator::new(s.clone()).validate(&pset, ValidationMode::Strict).validation_passed();
                let r = bridge::request(&w, Some(s)).is_ok();
                let e = entities_with_schema(&w, &gs, s).is_ok();
                if v != base_v || r != base_r || e != base_e {
                    ctx.violation(
                        &format!("C09:behaviour:{}", name),
                        format!("validation verdicts differ between the JSON-loaded schema and `{}`: policy {}/{} request {}/{} entities {}/{}", name, base_v, v, base_r, r, base_e, e),
                        detail(json!({"policy": text})),
                    );
                }
            }
        }
    }
    if gs.namespaces.len() >= 2 || !gs.common_types.is_empty() {
        ctx.nontrivial(&format!("{:?}|{}|{}", gs, st_json.unqualified, st_cedar.unqualified));
    }
    ctx.sample(|| json!({"cedar": c, "namespaces": gs.namespaces, "schemas_compared": schemas.len() + 1}));
    let _ = Rng::new(0);
}
