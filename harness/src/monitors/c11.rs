//! C11 — schema conformance checks accept exactly conformant data.
//! Oracle by construction: worlds generated from the schema model must be accepted
//! by every schema-taking entry point; a single injected fault of a named class
//! must be rejected by every entry point the class applies to (DESIGN.md Appendix B).

use super::c03::load_schema;
use crate::bridge;
use crate::model::*;
use crate::render;
use crate::report::CaseCtx;
use crate::rng::Rng;
use crate::schema::*;
use cedar_policy::{Context, Entities, Entity, Request, Schema};
use serde_json::json;

#[derive(Clone, Copy, Debug, PartialEq, Eq)]
pub enum Side {
    /// request: principal / action / resource
    Request,
    /// context (request entry points and the context entry points)
    Context,
    /// entity data
    Entities,
}

pub struct Fault {
    pub class: &'static str,
    pub side: Side,
    pub world: GWorld,
    /// the uid of the entity that was made non-conformant (entity faults)
    pub victim: Option<Uid>,
}

fn kind_name(t: &GType) -> &'static str {
    match t {
        GType::Bool => "bool",
        GType::Long => "long",
        GType::Str => "string",
        GType::Ent(_) => "entity",
        GType::Set(_) => "set",
        GType::Rec(_) => "record",
        GType::Ext(_) => "ext",
        GType::Common(_) => "common",
    }
}

/// a value that does not conform to `t`
fn value_not_of_type(rng: &mut Rng, gs: &GSchema, t: &GType) -> GValue {
    let t = gs.resolve(t).clone();
    let cands: Vec<GValue> = vec![
        GValue::Long(7),
        GValue::Str("wrong".into()),
        GValue::Bool(true),
        GValue::Ent(Uid::new(&gs.entity_types[0].name, "a")),
        GValue::Set(vec![GValue::Rec(Default::default())]),
        GValue::Rec([("zz".to_string(), GValue::Long(1))].into_iter().collect()),
        GValue::Ext(ExtVal::Duration(5)),
        GValue::Ext(ExtVal::Decimal(5)),
    ];
    for _ in 0..50 {
        let v = rng.pick_clone(&cands);
        // for enum entity types the first id may not be a choice: use a declared one so the only fault is the type
        let v = match v {
            GValue::Ent(u) => match gs.entity_type(&u.ty).and_then(|e| e.enum_ids.clone()) {
                Some(ids) => GValue::Ent(Uid::new(&u.ty, &ids[0])),
                None => GValue::Ent(u),
            },
            x => x,
        };
        if !conforms(gs, &v, &t) {
            return v;
        }
    }
    GValue::Set(vec![GValue::Set(vec![GValue::Rec(Default::default())])])
}

/// replace some position inside `v` (of type `t`) by a value of the wrong type; returns depth reached
fn wrong_inside(rng: &mut Rng, gs: &GSchema, v: &GValue, t: &GType, depth: usize) -> (GValue, usize) {
    match (gs.resolve(t), v) {
        (GType::Rec(attrs), GValue::Rec(m)) if !m.is_empty() && rng.chance(2, 3) => {
            let keys: Vec<&String> = m.keys().collect();
            let k = (*rng.pick(&keys)).clone();
            if let Some(a) = attrs.iter().find(|a| a.name == k) {
                let (nv, d) = wrong_inside(rng, gs, &m[&k], &a.ty, depth + 1);
                let mut m2 = m.clone();
                m2.insert(k, nv);
                return (GValue::Rec(m2), d);
            }
            (value_not_of_type(rng, gs, t), depth)
        }
        (GType::Set(et), GValue::Set(xs)) if !xs.is_empty() && rng.chance(2, 3) => {
            let i = rng.below(xs.len());
            let (nv, d) = wrong_inside(rng, gs, &xs[i], et, depth + 1);
            let mut ys = xs.clone();
            ys[i] = nv;
            (GValue::set(ys), d)
        }
        _ => (value_not_of_type(rng, gs, t), depth),
    }
}

/// find an enum-typed position inside (v : t) and put an undeclared id there
fn bad_enum_inside(gs: &GSchema, v: &GValue, t: &GType) -> Option<GValue> {
    match (gs.resolve(t), v) {
        (GType::Ent(n), GValue::Ent(_)) => {
            if gs.entity_type(n).map(|e| e.enum_ids.is_some()).unwrap_or(false) {
                Some(GValue::Ent(Uid::new(n, "zz-not-a-choice")))
            } else {
                None
            }
        }
        (GType::Rec(attrs), GValue::Rec(m)) => {
            for a in attrs {
                if let Some(x) = m.get(&a.name) {
                    if let Some(nv) = bad_enum_inside(gs, x, &a.ty) {
                        let mut m2 = m.clone();
                        m2.insert(a.name.clone(), nv);
                        return Some(GValue::Rec(m2));
                    }
                }
            }
            None
        }
        (GType::Set(et), GValue::Set(xs)) => {
            for (i, x) in xs.iter().enumerate() {
                if let Some(nv) = bad_enum_inside(gs, x, et) {
                    let mut ys = xs.clone();
                    ys[i] = nv;
                    return Some(GValue::set(ys));
                }
            }
            None
        }
        _ => None,
    }
}

pub const FAULT_CLASSES: [&str; 24] = [
    "ctx-wrong-type",
    "ctx-missing-required",
    "ctx-undeclared-attr",
    "ctx-enum-bad-id",
    "principal-enum-bad-id",
    "resource-enum-bad-id",
    "principal-type-not-applicable",
    "resource-type-not-applicable",
    "undeclared-action",
    "principal-undeclared-type",
    "attr-wrong-type",
    "attr-missing-required",
    "attr-undeclared",
    "tag-on-tagless-type",
    "tag-wrong-type",
    "parent-of-non-permitted-type",
    "enum-bad-id:uid",
    "enum-bad-id:parent",
    "enum-bad-id:attr",
    "enum-bad-id:tag",
    "undeclared-entity-type",
    "action-entity:extra-attr",
    "action-entity:extra-parent",
    "action-entity:undeclared",
];

pub fn inject(rng: &mut Rng, gs: &GSchema, env: &Env, w: &GWorld, class: &'static str) -> Option<Fault> {
    let mut nw = w.clone();
    let acts: Vec<Uid> = gs.actions.iter().map(|a| a.uid()).collect();
    let ordinary: Vec<Uid> = w.entities.keys().filter(|u| !acts.contains(u)).cloned().collect();
    let non_enum: Vec<Uid> = ordinary.iter().filter(|u| gs.entity_type(&u.ty).map(|e| e.enum_ids.is_none()).unwrap_or(false)).cloned().collect();
    let ctx_t = GType::Rec(env.context.clone());
    let fault = |side, world, victim| Some(Fault { class, side, world, victim });
    match class {
        "ctx-wrong-type" => {
            if w.context.is_empty() {
                return None;
            }
            let (v, _) = wrong_inside(rng, gs, &GValue::Rec(w.context.clone()), &ctx_t, 0);
            match v {
                GValue::Rec(m) if !conforms(gs, &GValue::Rec(m.clone()), &ctx_t) => {
                    nw.context = m;
                    fault(Side::Context, nw, None)
                }
                _ => None,
            }
        }
        "ctx-missing-required" => {
            let req: Vec<&GAttr> = env.context.iter().filter(|a| a.required).collect();
            if req.is_empty() {
                return None;
            }
            nw.context.remove(&rng.pick(&req).name);
            fault(Side::Context, nw, None)
        }
        "ctx-undeclared-attr" => {
            nw.context.insert("zz_undeclared".into(), GValue::Long(1));
            fault(Side::Context, nw, None)
        }
        "ctx-enum-bad-id" => {
            let v = bad_enum_inside(gs, &GValue::Rec(w.context.clone()), &ctx_t)?;
            if let GValue::Rec(m) = v {
                nw.context = m;
            }
            fault(Side::Context, nw, None)
        }
        "principal-enum-bad-id" | "resource-enum-bad-id" => {
            let ty = if class.starts_with("principal") { &env.principal_ty } else { &env.resource_ty };
            gs.entity_type(ty).and_then(|e| e.enum_ids.as_ref())?;
            let u = Uid::new(ty, "zz-not-a-choice");
            if class.starts_with("principal") {
                nw.principal = u;
            } else {
                nw.resource = u;
            }
            fault(Side::Request, nw, None)
        }
        "principal-type-not-applicable" | "resource-type-not-applicable" => {
            let act = gs.actions.iter().find(|a| a.uid() == env.action)?;
            let ap = act.applies.as_ref()?;
            let allowed = if class.starts_with("principal") { &ap.principals } else { &ap.resources };
            let others: Vec<&GEntityType> = gs.entity_types.iter().filter(|e| !allowed.contains(&e.name)).collect();
            if others.is_empty() {
                return None;
            }
            let et = *rng.pick(&others);
            let id = et.enum_ids.as_ref().map(|i| i[0].clone()).unwrap_or_else(|| "a".into());
            let u = Uid::new(&et.name, id);
            if class.starts_with("principal") {
                nw.principal = u;
            } else {
                nw.resource = u;
            }
            fault(Side::Request, nw, None)
        }
        "undeclared-action" => {
            nw.action = Uid::new(&env.action.ty, "zz-undeclared-action");
            fault(Side::Request, nw, None)
        }
        "principal-undeclared-type" => {
            nw.principal = Uid::new("Zz::Undeclared", "a");
            fault(Side::Request, nw, None)
        }
        "attr-wrong-type" => {
            let cands: Vec<&Uid> = non_enum.iter().filter(|u| !w.entities[*u].attrs.is_empty()).collect();
            if cands.is_empty() {
                return None;
            }
            let u = (*rng.pick(&cands)).clone();
            let et = gs.entity_type(&u.ty)?;
            let t = GType::Rec(et.attrs.clone());
            let (v, _) = wrong_inside(rng, gs, &GValue::Rec(w.entities[&u].attrs.clone()), &t, 0);
            match v {
                GValue::Rec(m) if !conforms(gs, &GValue::Rec(m.clone()), &t) => {
                    nw.entities.get_mut(&u).unwrap().attrs = m;
                    fault(Side::Entities, nw, Some(u))
                }
                _ => None,
            }
        }
        "attr-missing-required" => {
            let cands: Vec<(Uid, String)> = non_enum
                .iter()
                .flat_map(|u| gs.entity_type(&u.ty).map(|e| e.attrs.iter().filter(|a| a.required).map(|a| (u.clone(), a.name.clone())).collect::<Vec<_>>()).unwrap_or_default())
                .collect();
            if cands.is_empty() {
                return None;
            }
            let (u, a) = rng.pick_clone(&cands);
            nw.entities.get_mut(&u).unwrap().attrs.remove(&a);
            fault(Side::Entities, nw, Some(u))
        }
        "attr-undeclared" => {
            if non_enum.is_empty() {
                return None;
            }
            let u = rng.pick_clone(&non_enum);
            nw.entities.get_mut(&u).unwrap().attrs.insert("zz_undeclared".into(), GValue::Long(1));
            fault(Side::Entities, nw, Some(u))
        }
        "tag-on-tagless-type" => {
            let cands: Vec<&Uid> = non_enum.iter().filter(|u| gs.entity_type(&u.ty).map(|e| e.tags.is_none()).unwrap_or(false)).collect();
            if cands.is_empty() {
                return None;
            }
            let u = (*rng.pick(&cands)).clone();
            nw.entities.get_mut(&u).unwrap().tags.insert("k".into(), GValue::Str("v".into()));
            fault(Side::Entities, nw, Some(u))
        }
        "tag-wrong-type" => {
            let cands: Vec<&Uid> = non_enum.iter().filter(|u| gs.entity_type(&u.ty).map(|e| e.tags.is_some()).unwrap_or(false)).collect();
            if cands.is_empty() {
                return None;
            }
            let u = (*rng.pick(&cands)).clone();
            let tt = gs.entity_type(&u.ty)?.tags.clone()?;
            let v = value_not_of_type(rng, gs, &tt);
            nw.entities.get_mut(&u).unwrap().tags.insert("k".into(), v);
            fault(Side::Entities, nw, Some(u))
        }
        "parent-of-non-permitted-type" => {
            // a parent whose type the child's type can never be a (transitive) member of
            let mut cands: Vec<(Uid, Uid)> = vec![];
            for u in &non_enum {
                for et in &gs.entity_types {
                    if et.enum_ids.is_none() && !gs.type_can_descend(&u.ty, &et.name) {
                        cands.push((u.clone(), Uid::new(&et.name, "zz-parent")));
                    }
                }
            }
            if cands.is_empty() {
                return None;
            }
            let (u, p) = rng.pick_clone(&cands);
            nw.entities.get_mut(&u).unwrap().parents.insert(p);
            fault(Side::Entities, nw, Some(u))
        }
        "enum-bad-id:uid" => {
            let et = gs.entity_types.iter().find(|e| e.enum_ids.is_some())?;
            let u = Uid::new(&et.name, "zz-not-a-choice");
            nw.entities.insert(u.clone(), GEntity::default());
            fault(Side::Entities, nw, Some(u))
        }
        "enum-bad-id:parent" => {
            // a child whose type may be a member of an enum type... enum types cannot be parents unless declared; use any child whose memberOf includes an enum type
            let mut cands: Vec<(Uid, Uid)> = vec![];
            for u in &non_enum {
                if let Some(et) = gs.entity_type(&u.ty) {
                    for m in &et.member_of {
                        if gs.entity_type(m).map(|e| e.enum_ids.is_some()).unwrap_or(false) {
                            cands.push((u.clone(), Uid::new(m, "zz-not-a-choice")));
                        }
                    }
                }
            }
            if cands.is_empty() {
                return None;
            }
            let (u, p) = rng.pick_clone(&cands);
            nw.entities.get_mut(&u).unwrap().parents.insert(p);
            fault(Side::Entities, nw, Some(u))
        }
        "enum-bad-id:attr" => {
            for u in &non_enum {
                let et = gs.entity_type(&u.ty)?;
                let t = GType::Rec(et.attrs.clone());
                if let Some(GValue::Rec(m)) = bad_enum_inside(gs, &GValue::Rec(w.entities[u].attrs.clone()), &t) {
                    nw.entities.get_mut(u).unwrap().attrs = m;
                    return fault(Side::Entities, nw, Some(u.clone()));
                }
            }
            None
        }
        "enum-bad-id:tag" => {
            // an enum-typed position anywhere inside a tag value (directly, in a set, in a record)
            for u in &non_enum {
                let et = gs.entity_type(&u.ty)?;
                let tt = match &et.tags {
                    Some(t) => t.clone(),
                    None => continue,
                };
                // an existing tag value with an enum reference inside, or a fresh conformant one
                let mut cands: Vec<(String, GValue)> = w.entities[u].tags.iter().map(|(k, v)| (k.clone(), v.clone())).collect();
                let wg = WorldGen { schema: gs, pools: Default::default() };
                for _ in 0..3 {
                    cands.push(("k".to_string(), wg.value_of_type(rng, &tt, 2)));
                }
                for (k, v) in cands {
                    if let Some(nv) = bad_enum_inside(gs, &v, &tt) {
                        nw.entities.get_mut(u).unwrap().tags.insert(k, nv);
                        return fault(Side::Entities, nw, Some(u.clone()));
                    }
                }
            }
            None
        }
        "undeclared-entity-type" => {
            let u = Uid::new("Zz::Undeclared", "a");
            nw.entities.insert(u.clone(), GEntity::default());
            fault(Side::Entities, nw, Some(u))
        }
        "action-entity:extra-attr" => {
            let a = rng.pick_clone(&acts);
            nw.entities.get_mut(&a)?.attrs.insert("zz".into(), GValue::Long(1));
            fault(Side::Entities, nw, Some(a))
        }
        "action-entity:extra-parent" => {
            let a = rng.pick_clone(&acts);
            nw.entities.get_mut(&a)?.parents.insert(Uid::new(&a.ty, "zz-extra-group"));
            fault(Side::Entities, nw, Some(a))
        }
        "action-entity:undeclared" => {
            let a = Uid::new(&acts[0].ty, "zz-undeclared-action");
            nw.entities.insert(a.clone(), GEntity::default());
            fault(Side::Entities, nw, Some(a))
        }
        _ => None,
    }
}

/// Run every request/context entry point; returns (entry point, accepted?)
fn request_entry_points(w: &GWorld, schema: &Schema, include_request: bool) -> Result<Vec<(&'static str, bool, String)>, String> {
    let mut out = vec![];
    let cx = bridge::context(w)?;
    if include_request {
        let r = Request::new(bridge::uid(&w.principal), bridge::uid(&w.action), bridge::uid(&w.resource), cx.clone(), Some(schema));
        out.push(("Request::new", r.is_ok(), r.err().map(|e| e.to_string()).unwrap_or_default()));
        let r = Request::builder().principal(bridge::uid(&w.principal)).action(bridge::uid(&w.action)).resource(bridge::uid(&w.resource)).context(cx.clone()).schema(schema).build();
        out.push(("RequestBuilder::schema.build", r.is_ok(), r.err().map(|e| e.to_string()).unwrap_or_default()));
    }
    Ok(out)
}

fn context_entry_points(w: &GWorld, env_action: &Uid, schema: &Schema) -> Result<Vec<(&'static str, bool, String)>, String> {
    let mut out = vec![];
    let action = bridge::uid(env_action);
    let cx = bridge::context(w)?;
    let r = cx.validate(schema, &action);
    out.push(("Context::validate", r.is_ok(), r.err().map(|e| e.to_string()).unwrap_or_default()));
    if render::value_json_representable(&GValue::Rec(w.context.clone())) {
        let r = Context::from_json_value(render::context_json(w), Some((schema, &action)));
        out.push(("Context::from_json_value+schema", r.is_ok(), r.err().map(|e| bridge::err_chain(&e)).unwrap_or_default()));
    }
    Ok(out)
}

fn entity_entry_points(rng: &mut Rng, w: &GWorld, gs: &GSchema, schema: &Schema, include_actions: bool, victim: Option<&Uid>) -> Result<Vec<(&'static str, bool, String)>, String> {
    let acts: Vec<Uid> = gs.actions.iter().map(|a| a.uid()).collect();
    let mut list = vec![];
    let mut w2 = w.clone();
    for (u, e) in &w.entities {
        if acts.contains(u) && !include_actions {
            w2.entities.remove(u);
            continue;
        }
        if acts.contains(u) {
            // an action entity supplied by the caller lists its whole ancestor set (what the schema's own
            // action entity carries), so that "identical to the schema definition" holds under either
            // reading (direct parents / closure)
            let mut e2 = e.clone();
            e2.parents = w.ancestors(u);
            w2.entities.insert(u.clone(), e2.clone());
            list.push(bridge::entity(u, &e2)?);
            continue;
        }
        list.push(bridge::entity(u, e)?);
    }
    let mut out = vec![];
    let r = Entities::from_entities(list.clone(), Some(schema));
    out.push(("Entities::from_entities", r.is_ok(), r.err().map(|e| bridge::err_chain(&e)).unwrap_or_default()));
    let j = render::entities_json(&w2);
    let r = Entities::from_json_value(j.clone(), Some(schema));
    out.push(("Entities::from_json_value", r.is_ok(), r.err().map(|e| bridge::err_chain(&e)).unwrap_or_default()));
    // incremental: everything but the victim first (conformant), then the batch containing the victim
    let (first, second): (Vec<Entity>, Vec<Entity>) = match victim {
        Some(v) => list.iter().cloned().partition(|e| bridge::uid_back(&e.uid()) != *v),
        None => {
            let k = rng.below(list.len() + 1);
            let mut a = list.clone();
            let b = a.split_off(k);
            (a, b)
        }
    };
    let base = Entities::from_entities(first.clone(), Some(schema));
    match base {
        Ok(base) => {
            let r = base.clone().add_entities(second.clone(), Some(schema));
            out.push(("Entities::add_entities", r.is_ok(), r.err().map(|e| bridge::err_chain(&e)).unwrap_or_default()));
            let r = base.clone().upsert_entities(second.clone(), Some(schema));
            out.push(("Entities::upsert_entities", r.is_ok(), r.err().map(|e| bridge::err_chain(&e)).unwrap_or_default()));
            let mut w3 = w2.clone();
            w3.entities.retain(|u, _| second.iter().any(|e| bridge::uid_back(&e.uid()) == *u));
            let r = base.add_entities_from_json_value(render::entities_json(&w3), Some(schema));
            out.push(("Entities::add_entities_from_json_value", r.is_ok(), r.err().map(|e| bridge::err_chain(&e)).unwrap_or_default()));
        }
        Err(e) => {
            if victim.is_some() {
                // the conformant remainder must load (unless the remainder depends on the victim, e.g. hierarchy checks): count only
                out.push(("(remainder did not load)", true, bridge::err_chain(&e)));
            }
        }
    }
    // the offending entity is already in a store that was built WITHOUT the schema; adding an identical copy
    // WITH the schema must still be refused
    if let Some(v) = victim {
        if let (Ok(lax), Some(ve)) = (Entities::from_entities(list.clone(), None), list.iter().find(|e| bridge::uid_back(&e.uid()) == *v)) {
            let r = lax.clone().add_entities(vec![ve.clone()], Some(schema));
            out.push(("schema-less store + add_entities(identical copy)", r.is_ok(), r.err().map(|e| bridge::err_chain(&e)).unwrap_or_default()));
            let r = lax.upsert_entities(vec![ve.clone()], Some(schema));
            out.push(("schema-less store + upsert_entities(identical copy)", r.is_ok(), r.err().map(|e| bridge::err_chain(&e)).unwrap_or_default()));
        }
    }
    // single entity from JSON
    let target = victim.cloned().or_else(|| w2.entities.keys().next().cloned());
    if let Some(t) = target {
        if let Some(e) = w2.entities.get(&t) {
            let mut one = w2.clone();
            one.entities.clear();
            one.entities.insert(t.clone(), e.clone());
            if let Some(j1) = render::entities_json(&one).as_array().and_then(|a| a.first().cloned()) {
                let r = Entity::from_json_value(j1, Some(schema));
                out.push(("Entity::from_json_value", r.is_ok(), r.err().map(|e| bridge::err_chain(&e)).unwrap_or_default()));
            }
        }
    }
    Ok(out)
}

pub fn case(ctx: &mut CaseCtx) {
    let gs = gen_schema(&mut ctx.rng, &SchemaOpts::default());
    let schema = match load_schema(ctx, &gs) {
        Some(s) => s,
        None => return,
    };
    let envs = gs.envs();
    if envs.is_empty() {
        return;
    }
    let env = ctx.rng.pick_clone(&envs);
    let wg = WorldGen::new(&mut ctx.rng, &gs);
    let w = wg.world(&mut ctx.rng, &env);
    if !render::world_json_representable(&w) {
        return;
    }
    let detail = |w: &GWorld, extra: serde_json::Value| {
        json!({"schema": gs.to_cedar(&PrintStyle{unqualified:false, loose_json:false}),
               "principal": format!("{:?}", w.principal), "action": format!("{:?}", w.action), "resource": format!("{:?}", w.resource),
               "context": render::context_json(w), "entities": render::entities_json(w), "extra": extra})
    };
    // ---- conformant data: accepted everywhere (with and without the schema's action entities in the input)
    let mut all_ok = true;
    let include_actions = ctx.rng.bool();
    let mut results = vec![];
    match request_entry_points(&w, &schema, true) {
        Ok(r) => results.extend(r),
        Err(m) => return ctx.harness_error(m),
    }
    match context_entry_points(&w, &env.action, &schema) {
        Ok(r) => results.extend(r),
        Err(m) => return ctx.harness_error(m),
    }
    match entity_entry_points(&mut ctx.rng, &w, &gs, &schema, include_actions, None) {
        Ok(r) => results.extend(r),
        Err(m) => return ctx.harness_error(m),
    }
    for (ep, ok, msg) in &results {
        ctx.count(&format!("cell:conformant|{ep}"));
        if !ok {
            all_ok = false;
            ctx.violation(&format!("C11:conformant-rejected:{ep}"), format!("conformant data rejected by {ep}: {msg}"), detail(&w, json!({"error": msg, "actions_in_input": include_actions})));
        }
    }
    if !all_ok {
        return;
    }
    // ---- single faults
    let n_faults = if ctx.thorough() { 6 } else { 3 };
    let mut injected = 0;
    let mut tries = 0;
    while injected < n_faults && tries < 40 {
        tries += 1;
        let class = *ctx.rng.pick(&FAULT_CLASSES);
        let f = match inject(&mut ctx.rng, &gs, &env, &w, class) {
            Some(f) => f,
            None => continue,
        };
        if !render::world_json_representable(&f.world) {
            continue;
        }
        injected += 1;
        let res: Vec<(&'static str, bool, String)> = match f.side {
            Side::Request => match request_entry_points(&f.world, &schema, true) {
                Ok(r) => r,
                Err(m) => {
                    ctx.harness_error(m);
                    continue;
                }
            },
            Side::Context => {
                let mut r = match request_entry_points(&f.world, &schema, true) {
                    Ok(r) => r,
                    Err(m) => {
                        ctx.harness_error(m);
                        continue;
                    }
                };
                match context_entry_points(&f.world, &env.action, &schema) {
                    Ok(x) => r.extend(x),
                    Err(m) => {
                        ctx.harness_error(m);
                        continue;
                    }
                }
                r
            }
            Side::Entities => {
                let with_actions = f.class.starts_with("action-entity") || include_actions;
                match entity_entry_points(&mut ctx.rng, &f.world, &gs, &schema, with_actions, f.victim.as_ref()) {
                    Ok(r) => r,
                    Err(m) => {
                        ctx.harness_error(m);
                        continue;
                    }
                }
            }
        };
        for (ep, ok, _msg) in &res {
            if ep.starts_with('(') {
                ctx.count("remainder_did_not_load");
                continue;
            }
            ctx.count(&format!("cell:{}|{}", f.class, ep));
            if *ok {
                ctx.violation(&format!("C11:fault-accepted:{}:{}", f.class, ep), format!("data with a single `{}` fault is accepted by {}", f.class, ep), detail(&f.world, json!({"fault": f.class, "victim": format!("{:?}", f.victim), "entry_point": ep})));
            }
        }
        ctx.nontrivial(&format!("{:?}|{:?}|{}", gs, f.world, f.class));
    }
    // ---- a fault that exists only in the transitive closure: X -> Y is permitted, Y -> Z makes Z an (indirect)
    // ancestor of X of a type X's type can never be a member of.  X is taken, closed, out of a schema-less store
    // and submitted alone.
    {
        let acts: Vec<Uid> = gs.actions.iter().map(|a| a.uid()).collect();
        let mut cands: Vec<(Uid, String, String)> = vec![];
        for (u, _) in w.entities.iter().filter(|(u, _)| !acts.contains(u)) {
            if let Some(et) = gs.entity_type(&u.ty) {
                if et.enum_ids.is_some() {
                    continue;
                }
                for y_ty in et.member_of.iter().filter(|t| gs.entity_type(t).map(|e| e.enum_ids.is_none()).unwrap_or(false)) {
                    for z in gs.entity_types.iter().filter(|z| z.enum_ids.is_none() && !gs.type_can_descend(&u.ty, &z.name)) {
                        cands.push((u.clone(), y_ty.clone(), z.name.clone()));
                    }
                }
            }
        }
        if !cands.is_empty() {
            let (x, y_ty, z_ty) = ctx.rng.pick_clone(&cands);
            let (y, z) = (Uid::new(&y_ty, "zz-mid"), Uid::new(&z_ty, "zz-top"));
            let mut gx = w.entities[&x].clone();
            gx.parents = [y.clone()].into_iter().collect();
            let mut gy = GEntity::default();
            gy.parents = [z.clone()].into_iter().collect();
            if let (Ok(ex), Ok(ey)) = (bridge::entity(&x, &gx), bridge::entity(&y, &gy)) {
                if let Ok(lax) = Entities::from_entities(vec![ex, ey], None) {
                    if let Some(closed_x) = lax.get(&bridge::uid(&x)).cloned() {
                        let has_z = lax.ancestors(&bridge::uid(&x)).map(|mut it| it.any(|a| bridge::uid_back(a) == z)).unwrap_or(false);
                        if has_z {
                            let class = "ancestor-of-non-permitted-type:indirect-only";
                            let runs: Vec<(&str, bool)> = vec![
                                ("Entities::from_entities(closed entity)", Entities::from_entities(vec![closed_x.clone()], Some(&schema)).is_ok()),
                                ("Entities::add_entities(closed entity)", Entities::empty().add_entities(vec![closed_x.clone()], Some(&schema)).is_ok()),
                                ("Entities::upsert_entities(closed entity)", Entities::empty().upsert_entities(vec![closed_x.clone()], Some(&schema)).is_ok()),
                            ];
                            for (ep, ok) in runs {
                                ctx.count(&format!("cell:{class}|{ep}"));
                                if ok {
                                    ctx.violation(&format!("C11:fault-accepted:{class}:{ep}"), format!("an entity whose only fault is an indirect ancestor of a non-permitted type ({:?} -> {:?} -> {:?}) is accepted by {}", x, y, z, ep), detail(&w, json!({"x": format!("{:?}", x), "y": format!("{:?}", y), "z": format!("{:?}", z)})));
                                }
                            }
                            ctx.nontrivial(&format!("{:?}|indirect|{:?}{:?}{:?}", gs, x, y, z));
                        }
                    }
                }
            }
        }
    }
    ctx.sample(|| json!({"schema": gs.to_cedar(&PrintStyle{unqualified:false, loose_json:false}), "entities": render::entities_json(&w), "context": render::context_json(&w), "faults_injected": injected}));
    let _ = kind_name(&GType::Bool);
}
