//! C04 — hierarchy membership equals parent-reachability after any store history.
//!
//! Model: uid -> (direct parents, attribute), reachability by BFS over the direct
//! parents of the entities *currently present* (parents without a record are leaves).
//! Real code: `cedar_policy::Entities::{from_entities, add_entities, upsert_entities,
//! remove_entities}` (+ the JSON twins of from/add), queried after EVERY successful step
//! for all ordered pairs through `is_ancestor_of`, `ancestors()` and (10 % of the pairs)
//! `principal|resource in X` via `Authorizer::is_authorized`; the stored closure is walked
//! through the doc-hidden core view.  What is judged about acceptance of a step is only:
//! a step whose resulting direct-parent graph has a cycle through present entities must be
//! `Err`; an `Err` that claims a cycle on an acyclic model graph is a violation.  Whether a
//! batch holding a duplicate uid is accepted is not judged (the library's answer is followed).
//! Core `Entities::from_entities(.., EnforceAlreadyComputed, ..)` is driven with model-closed,
//! under-closed and cyclic inputs; whatever it accepts must be transitively closed and acyclic.
//!
//! idx < EXHAUSTIVE(tier): bounded-exhaustive sub-space (every parent graph on 3 uids —
//! 4 in the thorough tier — incl. absent uids, dangling parents and self loops, followed by
//! every single remove / upsert).  Remaining indices: scripted shapes + random histories.

use crate::report::CaseCtx;
use crate::rng::Rng;
use cedar_policy::entities_errors::EntitiesError;
use cedar_policy::{
    Authorizer, Context, Decision, Entities, Entity, EntityId, EntityTypeName, EntityUid, Policy, PolicyId, PolicySet,
    Request, RestrictedExpression,
};
use cedar_policy_core::ast as cast;
use cedar_policy_core::entities::{Dereference, Entities as CoreEntities, NoEntitiesSchema, TCComputation};
use cedar_policy_core::extensions::Extensions;
use serde_json::{json, Value as J};
use std::collections::{BTreeMap, BTreeSet, HashMap, HashSet};
use std::str::FromStr;

/// signature of the known, separately tracked finding (see DESIGN.md §6.1)
const SIG_REFLEXIVE: &str = "C04:is_ancestor_of:reflexive-present";

/// 7 uids of 2 types; ids collide across the types, one id is the empty string
const POOL: [(&str, &str); 7] = [("A", "a"), ("A", "b"), ("B", "a"), ("B", "b"), ("A", "c"), ("A", ""), ("B", "c")];

// ------------------------------------------------------------------ universe

struct Uni {
    n: usize,
    names: Vec<String>,
    tyid: Vec<(String, String)>,
    uids: Vec<EntityUid>,
    index: HashMap<cast::EntityUID, usize>,
    outsider: EntityUid,
    action: EntityUid,
}

fn mk_uid(ty: &str, id: &str) -> EntityUid {
    EntityUid::from_type_name_and_id(EntityTypeName::from_str(ty).expect("harness: type name"), EntityId::new(id))
}

impl Uni {
    fn new(which: &[usize]) -> Uni {
        let tyid: Vec<(String, String)> = which.iter().map(|&i| (POOL[i].0.to_string(), POOL[i].1.to_string())).collect();
        let uids: Vec<EntityUid> = tyid.iter().map(|(t, i)| mk_uid(t, i)).collect();
        let names = tyid.iter().map(|(t, i)| format!("{}::\"{}\"", t, i)).collect();
        let index = uids.iter().enumerate().map(|(k, u)| (AsRef::<cast::EntityUID>::as_ref(u).clone(), k)).collect();
        Uni { n: which.len(), names, tyid, uids, index, outsider: mk_uid("Z", "z"), action: mk_uid("Action", "act") }
    }
    fn core_uid(&self, i: usize) -> cast::EntityUID {
        AsRef::<cast::EntityUID>::as_ref(&self.uids[i]).clone()
    }
    fn idx_of(&self, u: &cast::EntityUID) -> Option<usize> {
        self.index.get(u).copied()
    }
    fn name_set(&self, s: &BTreeSet<usize>) -> Vec<&str> {
        s.iter().map(|&i| self.names[i].as_str()).collect()
    }
}

// ------------------------------------------------------------------ model

#[derive(Clone, Debug, PartialEq, Eq, Default)]
struct MEnt {
    parents: BTreeSet<usize>,
    /// 0 = no attributes at all, otherwise attribute `v`
    v: i64,
}

type Batch = Vec<(usize, MEnt)>;

#[derive(Clone, Debug, PartialEq, Eq)]
enum Op {
    /// (batch, via JSON)
    From(Batch, bool),
    Add(Batch, bool),
    Upsert(Batch),
    Remove(Vec<usize>),
}

impl Op {
    fn kind(&self) -> &'static str {
        match self {
            Op::From(_, false) => "from",
            Op::From(_, true) => "from_json",
            Op::Add(_, false) => "add",
            Op::Add(_, true) => "add_json",
            Op::Upsert(_) => "upsert",
            Op::Remove(_) => "remove",
        }
    }
}

#[derive(Clone, Debug, PartialEq, Eq, Default)]
struct Model {
    ents: BTreeMap<usize, MEnt>,
}

impl Model {
    fn has(&self, u: usize) -> bool {
        self.ents.contains_key(&u)
    }
    /// proper ancestors of `from`: BFS over direct parents; uids without a record are leaves
    fn reach(&self, from: usize) -> BTreeSet<usize> {
        let mut out = BTreeSet::new();
        let mut queue: std::collections::VecDeque<usize> = match self.ents.get(&from) {
            Some(e) => e.parents.iter().copied().collect(),
            None => return out,
        };
        while let Some(u) = queue.pop_front() {
            if !out.insert(u) {
                continue;
            }
            if let Some(e) = self.ents.get(&u) {
                for &p in &e.parents {
                    if !out.contains(&p) {
                        queue.push_back(p);
                    }
                }
            }
        }
        out
    }
    /// length of a shortest cycle through present entities, if any
    fn shortest_cycle(&self) -> Option<usize> {
        let mut best: Option<usize> = None;
        for (&u, e) in &self.ents {
            // BFS by levels
            let mut seen = BTreeSet::new();
            let mut level: Vec<usize> = e.parents.iter().copied().collect();
            let mut d = 1usize;
            'bfs: while !level.is_empty() {
                let mut next = vec![];
                for x in level {
                    if x == u {
                        best = Some(best.map_or(d, |b| b.min(d)));
                        break 'bfs;
                    }
                    if seen.insert(x) {
                        if let Some(xe) = self.ents.get(&x) {
                            next.extend(xe.parents.iter().copied());
                        }
                    }
                }
                level = next;
                d += 1;
            }
        }
        best
    }
    /// the model after `op`, *assuming the library accepts it* (duplicates: add/from keep the
    /// first record = "no-op", upsert keeps the last)
    fn apply(&self, op: &Op) -> Model {
        match op {
            Op::From(b, _) => {
                let mut m = Model::default();
                for (u, e) in b {
                    m.ents.entry(*u).or_insert_with(|| e.clone());
                }
                m
            }
            Op::Add(b, _) => {
                let mut m = self.clone();
                for (u, e) in b {
                    m.ents.entry(*u).or_insert_with(|| e.clone());
                }
                m
            }
            Op::Upsert(b) => {
                let mut m = self.clone();
                for (u, e) in b {
                    m.ents.insert(*u, e.clone());
                }
                m
            }
            Op::Remove(us) => {
                let mut m = self.clone();
                for u in us {
                    if m.ents.remove(u).is_some() {
                        for e in m.ents.values_mut() {
                            e.parents.remove(u);
                        }
                    }
                }
                m
            }
        }
    }
    /// does the batch name a uid twice, or (add) a uid that already has a record?
    fn collisions(&self, op: &Op) -> bool {
        let dup_in = |b: &Batch| {
            let mut s = BTreeSet::new();
            b.iter().any(|(u, _)| !s.insert(*u))
        };
        match op {
            Op::From(b, _) => dup_in(b),
            Op::Add(b, _) => dup_in(b) || b.iter().any(|(u, _)| self.has(*u)),
            Op::Upsert(_) | Op::Remove(_) => false,
        }
    }
    fn render(&self, uni: &Uni) -> J {
        J::Object(
            self.ents
                .iter()
                .map(|(u, e)| (uni.names[*u].clone(), json!({"parents": uni.name_set(&e.parents), "v": e.v})))
                .collect(),
        )
    }
}

fn render_batch(uni: &Uni, b: &Batch) -> J {
    J::Array(b.iter().map(|(u, e)| json!({"uid": uni.names[*u], "parents": uni.name_set(&e.parents), "v": e.v})).collect())
}

fn render_op(uni: &Uni, op: &Op) -> J {
    match op {
        Op::From(b, _) | Op::Add(b, _) | Op::Upsert(b) => json!({"op": op.kind(), "entities": render_batch(uni, b)}),
        Op::Remove(us) => json!({"op": "remove", "uids": us.iter().map(|u| uni.names[*u].as_str()).collect::<Vec<_>>()}),
    }
}

// ------------------------------------------------------------------ harness -> library

fn build_entity(uni: &Uni, u: usize, e: &MEnt) -> Entity {
    let parents: HashSet<EntityUid> = e.parents.iter().map(|&p| uni.uids[p].clone()).collect();
    if e.v == 0 {
        Entity::new_no_attrs(uni.uids[u].clone(), parents)
    } else {
        let attrs: HashMap<String, RestrictedExpression> = HashMap::from([("v".to_string(), RestrictedExpression::new_long(e.v))]);
        Entity::new(uni.uids[u].clone(), attrs, parents).expect("harness: attribute evaluation")
    }
}

fn batch_json(uni: &Uni, b: &Batch) -> J {
    let uj = |i: usize| json!({"type": uni.tyid[i].0, "id": uni.tyid[i].1});
    J::Array(
        b.iter()
            .map(|(u, e)| {
                let attrs = if e.v == 0 { json!({}) } else { json!({"v": e.v}) };
                json!({"uid": uj(*u), "attrs": attrs, "parents": e.parents.iter().map(|&p| uj(p)).collect::<Vec<_>>()})
            })
            .collect(),
    )
}

fn apply_real(uni: &Uni, store: Entities, op: &Op) -> Result<Entities, EntitiesError> {
    match op {
        Op::From(b, false) => Entities::from_entities(b.iter().map(|(u, e)| build_entity(uni, *u, e)), None),
        Op::From(b, true) => Entities::from_json_value(batch_json(uni, b), None),
        Op::Add(b, false) => store.add_entities(b.iter().map(|(u, e)| build_entity(uni, *u, e)), None),
        Op::Add(b, true) => store.add_entities_from_json_value(batch_json(uni, b), None),
        Op::Upsert(b) => store.upsert_entities(b.iter().map(|(u, e)| build_entity(uni, *u, e)), None),
        Op::Remove(us) => store.remove_entities(us.iter().map(|&u| uni.uids[u].clone())),
    }
}

/// error class at the boundary: only the variant / the TC error kind is looked at
fn err_class(e: &EntitiesError) -> &'static str {
    match e {
        EntitiesError::Duplicate(_) => "duplicate",
        EntitiesError::TransitiveClosureError(t) => {
            let d = format!("{:?}", t);
            if d.contains("HasCycle") {
                "cycle"
            } else if d.contains("MissingTcEdge") {
                "missing-tc-edge"
            } else {
                "tc-other"
            }
        }
        EntitiesError::InvalidEntityStructure(s) => {
            if format!("{:?}", s).contains("SelfAncestor") {
                "self-ancestor"
            } else {
                "structure"
            }
        }
        EntitiesError::Deserialization(_) => "deserialization",
        EntitiesError::Serialization(_) => "serialization",
        EntitiesError::InvalidEntity(_) => "schema",
    }
}

fn claims_cycle(class: &str) -> bool {
    class == "cycle" || class == "self-ancestor"
}

/// keep the (capped) violation list of a shard diverse: a few witnesses per signature, the rest is counted
fn room_for(ctx: &mut CaseCtx, sig: &str) -> bool {
    if ctx.rep.violations.iter().filter(|v| v.signature == sig).count() >= 4 {
        ctx.count(&format!("witnesses_not_recorded:{}", sig));
        return false;
    }
    true
}

// ------------------------------------------------------------------ one history

struct Run<'u> {
    uni: &'u Uni,
    store: Entities,
    model: Model,
    ops: Vec<Op>,
    hist: Vec<J>,
    effective: usize,
    true_pairs: u64,
    shapes: BTreeSet<&'static str>,
    reported: BTreeSet<String>,
    policies: HashMap<(u8, bool, usize, usize), PolicySet>,
    aborted: bool,
}

impl<'u> Run<'u> {
    fn new(uni: &'u Uni) -> Self {
        Run {
            uni,
            store: Entities::empty(),
            model: Model::default(),
            ops: vec![],
            hist: vec![],
            effective: 0,
            true_pairs: 0,
            shapes: BTreeSet::new(),
            reported: BTreeSet::new(),
            policies: HashMap::new(),
            aborted: false,
        }
    }

    fn store_dump(&self) -> J {
        let core: &CoreEntities = self.store.as_ref();
        let mut m = BTreeMap::new();
        for e in core.iter() {
            let mut p: Vec<String> = e.parents().map(|u| u.to_string()).collect();
            let mut i: Vec<String> = e.indirect_ancestors().map(|u| u.to_string()).collect();
            p.sort();
            i.sort();
            m.insert(e.uid().to_string(), json!({"parents": p, "indirect_ancestors": i}));
        }
        json!(m)
    }

    /// at most one report per signature and history; the known finding is additionally capped per shard
    fn violation(&mut self, ctx: &mut CaseCtx, sig: String, what: String, extra: J) {
        if sig == SIG_REFLEXIVE {
            ctx.count("reflexive-present:pairs");
        }
        if !self.reported.insert(sig.clone()) {
            if sig != SIG_REFLEXIVE {
                ctx.count("violations_suppressed_same_signature_same_case");
            }
            return;
        }
        if sig == SIG_REFLEXIVE {
            ctx.count("reflexive-present:cases");
        }
        if !room_for(ctx, &sig) {
            if sig != SIG_REFLEXIVE {
                self.aborted = true;
            }
            return;
        }
        if sig != SIG_REFLEXIVE {
            // model and store have diverged: later steps would only re-report the same root cause under other names
            self.aborted = true;
        }
        let detail = json!({
            "uids": self.uni.names,
            "history": self.hist,
            "model_after_last_step": self.model.render(self.uni),
            "store_after_last_step": self.store_dump(),
            "finding": extra,
        });
        ctx.violation(&sig, what, detail);
    }

    fn step(&mut self, ctx: &mut CaseCtx, op: Op) {
        if self.aborted {
            return;
        }
        let uni = self.uni;
        let kind = op.kind();
        let next = self.model.apply(&op);
        let collisions = self.model.collisions(&op);
        let cyc = next.shortest_cycle();
        let res = apply_real(uni, self.store.clone(), &op);
        let mut h = render_op(uni, &op);
        self.ops.push(op.clone());
        match res {
            Ok(s) => {
                h["outcome"] = json!("ok");
                self.hist.push(h);
                ctx.count(&format!("cell:{}|ok", kind));
                if collisions {
                    ctx.count(&format!("duplicates:{}:accepted", kind));
                }
                if let Op::Upsert(b) = &op {
                    let mut seen = BTreeSet::new();
                    if b.iter().any(|(u, _)| !seen.insert(*u)) {
                        ctx.count("duplicates:upsert:last-wins-accepted");
                    }
                }
                if let Some(k) = cyc {
                    let old = std::mem::replace(&mut self.store, s);
                    self.violation(
                        ctx,
                        format!("C04:cycle-accepted:{}", kind),
                        format!("{} accepted although the resulting direct-parent graph has a cycle of length {} through present entities", kind, k),
                        json!({"cycle_length": k, "model_graph_if_accepted": next.render(uni)}),
                    );
                    self.store = old;
                    self.aborted = true;
                    return;
                }
                self.note_shapes(&op, &next);
                if next != self.model {
                    self.effective += 1;
                }
                self.model = next;
                self.store = s;
                self.compare(ctx, kind);
            }
            Err(e) => {
                let class = err_class(&e);
                h["outcome"] = json!(format!("err:{}: {}", class, e));
                self.hist.push(h);
                ctx.count(&format!("cell:{}|err:{}", kind, class));
                if claims_cycle(class) {
                    match cyc {
                        None => {
                            self.violation(
                                ctx,
                                format!("C04:false-cycle:{}", kind),
                                format!("{} rejected with a cycle error ({}) although the resulting direct-parent graph is acyclic", kind, e),
                                json!({"error": e.to_string(), "model_graph_if_accepted": next.render(uni)}),
                            );
                        }
                        Some(k) => {
                            ctx.count(&format!("rejected-as-cycle:{}", kind));
                            ctx.count(&format!("rejected-as-cycle:len{}:{}", k.min(5), kind));
                        }
                    }
                } else if cyc.is_some() {
                    // must be an Err, and it is one; which one is not prescribed
                    ctx.count(&format!("cyclic-step-rejected-otherwise:{}:{}", kind, class));
                } else if class == "duplicate" && collisions {
                    ctx.count(&format!("duplicates:{}:rejected", kind));
                } else {
                    ctx.count(&format!("unexpected_reject:{}:{}", kind, class));
                    ctx.harness_error(format!("C04: clean {} step rejected ({}: {}); history {}", kind, class, e, J::Array(self.hist.clone())));
                }
                // the step is undone: the store cloned before the step stays current
            }
        }
    }

    /// shapes actually exhibited by the history (evidence only)
    fn note_shapes(&mut self, op: &Op, new: &Model) {
        let old = &self.model;
        // static shapes of the new graph
        for (&e, ent) in &new.ents {
            let ps: Vec<usize> = ent.parents.iter().copied().collect();
            for &p in &ps {
                if !new.has(p) {
                    self.shapes.insert("dangling-parent");
                }
            }
            for i in 0..ps.len() {
                for j in (i + 1)..ps.len() {
                    let (x, y) = (ps[i], ps[j]);
                    if x == e || y == e {
                        continue;
                    }
                    let (rx, ry) = (new.reach(x), new.reach(y));
                    if rx.contains(&y) || ry.contains(&x) {
                        self.shapes.insert("parent-also-indirect");
                    }
                    if rx.intersection(&ry).any(|t| *t != x && *t != y) {
                        self.shapes.insert("diamond");
                    }
                }
            }
            if new.reach(e).len() >= 3 {
                self.shapes.insert("depth-or-width>=3");
            }
        }
        match op {
            Op::Remove(us) => {
                for &r in us {
                    if !old.has(r) {
                        self.shapes.insert("remove-absent-uid");
                        continue;
                    }
                    let above = old.reach(r);
                    for &e in old.ents.keys() {
                        if e == r || !old.reach(e).contains(&r) || !new.has(e) {
                            continue;
                        }
                        let now = new.reach(e);
                        for a in &above {
                            if now.contains(a) {
                                self.shapes.insert("remove:alt-path-survives");
                            } else {
                                self.shapes.insert("remove:only-path-lost");
                            }
                        }
                        if above.is_empty() {
                            self.shapes.insert("remove:leaf-parent");
                        }
                    }
                }
                if us.len() >= 2 {
                    self.shapes.insert("remove:batch>=2");
                }
            }
            Op::Upsert(b) | Op::Add(b, _) => {
                let is_upsert = matches!(op, Op::Upsert(_));
                for (u, ent) in b {
                    if !old.has(*u) {
                        if !ent.parents.is_empty() && old.ents.values().any(|x| x.parents.contains(u)) {
                            self.shapes.insert("dangling-materialised");
                        }
                        continue;
                    }
                    if !is_upsert {
                        continue;
                    }
                    let was = &old.ents[u];
                    if was.parents != new.ents[u].parents {
                        let above = old.reach(*u);
                        for &e in old.ents.keys() {
                            if e == *u || !old.reach(e).contains(u) {
                                continue;
                            }
                            self.shapes.insert("upsert:changes-parents-of-an-ancestor");
                            let now = new.reach(e);
                            for a in &above {
                                if !new.reach(*u).contains(a) {
                                    if now.contains(a) {
                                        self.shapes.insert("upsert:alt-path-survives");
                                    } else {
                                        self.shapes.insert("upsert:only-path-lost");
                                    }
                                }
                            }
                        }
                    }
                }
                let mut s = BTreeSet::new();
                if b.iter().any(|(u, _)| !s.insert(*u)) {
                    self.shapes.insert("duplicate-uid-in-batch");
                }
            }
            Op::From(b, _) => {
                let mut s = BTreeSet::new();
                if b.iter().any(|(u, _)| !s.insert(*u)) {
                    self.shapes.insert("duplicate-uid-in-batch");
                }
            }
        }
    }

    /// the quiescent-point check: all ordered pairs, three routes, plus the walk of the stored closure
    fn compare(&mut self, ctx: &mut CaseCtx, kind: &'static str) {
        let uni = self.uni;
        let n = uni.n;
        let reach: Vec<BTreeSet<usize>> = (0..n).map(|i| self.model.reach(i)).collect();

        // which uids have a record
        for i in 0..n {
            let obs = self.store.get(&uni.uids[i]).is_some();
            if obs != self.model.has(i) {
                self.violation(
                    ctx,
                    format!("C04:store-membership:{}", kind),
                    format!("after {}: {} has a record in the store = {}, in the model = {}", kind, uni.names[i], obs, self.model.has(i)),
                    json!({"uid": uni.names[i], "expected_present": self.model.has(i), "observed_present": obs}),
                );
            }
        }
        if self.store.len() != self.model.ents.len() {
            let (a, b) = (self.store.len(), self.model.ents.len());
            self.violation(ctx, format!("C04:store-size:{}", kind), format!("after {}: store holds {} entities, model {}", kind, a, b), json!({"observed": a, "expected": b}));
        }

        let mut cache = std::mem::take(&mut self.policies);
        let mut pairs = 0u64;
        let mut listing_pairs = 0u64;
        let mut policy_pairs = 0u64;
        for e in 0..n {
            // ---- route: ancestors(e)
            let listing: Option<Vec<cast::EntityUID>> =
                self.store.ancestors(&uni.uids[e]).map(|it| it.map(|u| AsRef::<cast::EntityUID>::as_ref(u).clone()).collect());
            match (&listing, self.model.has(e)) {
                (None, false) => {}
                (None, true) => {
                    self.violation(ctx, format!("C04:ancestors:none-for-present:{}", kind), format!("after {}: ancestors({}) is None although the entity exists", kind, uni.names[e]), json!({"entity": uni.names[e]}));
                }
                (Some(_), false) => {
                    self.violation(ctx, format!("C04:ancestors:some-for-absent:{}", kind), format!("after {}: ancestors({}) is Some although the entity has no record", kind, uni.names[e]), json!({"entity": uni.names[e]}));
                }
                (Some(l), true) => {
                    let mut got = BTreeSet::new();
                    for u in l {
                        match uni.idx_of(u) {
                            Some(i) => {
                                got.insert(i);
                            }
                            None => {
                                self.violation(ctx, format!("C04:ancestors:unknown-uid:{}", kind), format!("after {}: ancestors({}) lists {} which was never mentioned", kind, uni.names[e], u), json!({"entity": uni.names[e], "listed": u.to_string()}));
                            }
                        }
                    }
                    for a in 0..n {
                        listing_pairs += 1;
                        let (exp, obs) = (reach[e].contains(&a), got.contains(&a));
                        if exp != obs {
                            let cls = if obs { "stale" } else { "missing" };
                            self.violation(
                                ctx,
                                format!("C04:ancestors:{}:{}", cls, kind),
                                format!("after {}: {} in ancestors({}) = {}, reachable in the model = {}", kind, uni.names[a], uni.names[e], obs, exp),
                                json!({"entity": uni.names[e], "ancestor": uni.names[a], "expected": exp, "observed": obs,
                                       "expected_listing": uni.name_set(&reach[e]), "observed_listing": uni.name_set(&got)}),
                            );
                        }
                    }
                }
            }
            for a in 0..n {
                // ---- route: is_ancestor_of(a, e)  ("is a an ancestor of e", same semantics as `e in a`)
                pairs += 1;
                let exp = e == a || reach[e].contains(&a);
                if exp && e != a {
                    self.true_pairs += 1;
                }
                let obs = self.store.is_ancestor_of(&uni.uids[a], &uni.uids[e]);
                if obs != exp {
                    if e == a && self.model.has(e) {
                        self.violation(
                            ctx,
                            SIG_REFLEXIVE.to_string(),
                            format!("is_ancestor_of({0}, {0}) = false for an entity that exists (true when it has no record; `{0} in {0}` is true)", uni.names[e]),
                            json!({"a": uni.names[a], "b": uni.names[e], "expected": true, "observed": false}),
                        );
                    } else {
                        let cls = if obs { "stale" } else { "missing" };
                        self.violation(
                            ctx,
                            format!("C04:is_ancestor_of:{}:{}", cls, kind),
                            format!("after {}: is_ancestor_of({}, {}) = {}, model ({} is or is reachable from {}) = {}", kind, uni.names[a], uni.names[e], obs, uni.names[a], uni.names[e], exp),
                            json!({"a": uni.names[a], "b": uni.names[e], "expected": exp, "observed": obs}),
                        );
                    }
                }
                // ---- route: `principal in X` through the authorizer, ~10 % of the pairs
                if ctx.rng.chance(1, 10) {
                    policy_pairs += 1;
                    let form = ctx.rng.below(3) as u8;
                    let on_resource = ctx.rng.chance(1, 3);
                    let y = if form == 2 { ctx.rng.below(n) } else { 0 };
                    let exp_pol = if form == 2 { exp || e == y || reach[e].contains(&y) } else { exp };
                    let (p, r) = if on_resource { (uni.outsider.clone(), uni.uids[e].clone()) } else { (uni.uids[e].clone(), uni.outsider.clone()) };
                    let req = Request::new(p, uni.action.clone(), r, Context::empty(), None).expect("harness: request");
                    let (resp, ptext) = {
                        let ps = policy_set(&mut cache, uni, form, on_resource, a, y);
                        (Authorizer::new().is_authorized(&req, ps, &self.store), ps.policies().next().map(|p| p.to_string()).unwrap_or_default())
                    };
                    let nerr = resp.diagnostics().errors().count();
                    let obs_pol = resp.decision() == Decision::Allow;
                    if nerr != 0 {
                        let msg = resp.diagnostics().errors().map(|e| e.to_string()).collect::<Vec<_>>().join("; ");
                        self.violation(ctx, format!("C04:policy-route:error:{}", kind), format!("after {}: `{}` with {} = {} errored: {}", kind, ptext, if on_resource { "resource" } else { "principal" }, uni.names[e], msg), json!({"policy": ptext, "entity": uni.names[e], "errors": msg}));
                    } else if obs_pol != exp_pol {
                        let cls = if obs_pol { "stale" } else { "missing" };
                        self.violation(
                            ctx,
                            format!("C04:policy-route:{}:{}", cls, kind),
                            format!("after {}: `{}` with {} = {} decided {}, model says the membership is {}", kind, ptext, if on_resource { "resource" } else { "principal" }, uni.names[e], if obs_pol { "Allow" } else { "Deny" }, exp_pol),
                            json!({"policy": ptext, "entity": uni.names[e], "expected_member": exp_pol, "observed_allow": obs_pol}),
                        );
                    }
                }
            }
        }
        self.policies = cache;
        ctx.add("pairs_compared:is_ancestor_of", pairs);
        ctx.add("pairs_compared:ancestors_listing", listing_pairs);
        ctx.add("pairs_compared:policy_route", policy_pairs);

        // ---- walk of the stored closure through the doc-hidden core view
        let mut findings: Vec<(String, String, J)> = vec![];
        {
            let core: &CoreEntities = self.store.as_ref();
            let mut walked = 0u64;
            for ent in core.iter() {
                walked += 1;
                let me = match uni.idx_of(ent.uid()) {
                    Some(i) => i,
                    None => {
                        findings.push((format!("C04:invariant:unknown-entity:{}", kind), format!("store holds {} which was never added", ent.uid()), json!({"uid": ent.uid().to_string()})));
                        continue;
                    }
                };
                let name = &uni.names[me];
                let mut unknown = vec![];
                let ps = to_idx(uni, ent.parents(), &mut unknown);
                let is = to_idx(uni, ent.indirect_ancestors(), &mut unknown);
                if !unknown.is_empty() {
                    findings.push((format!("C04:invariant:unknown-ancestor:{}", kind), format!("after {}: {} has ancestors never mentioned: {:?}", kind, name, unknown), json!({"entity": name, "unknown": unknown})));
                }
                if ps.intersection(&is).next().is_some() {
                    let both: BTreeSet<usize> = ps.intersection(&is).copied().collect();
                    findings.push((
                        format!("C04:invariant:parents-indirect-overlap:{}", kind),
                        format!("after {}: {} lists {:?} both as parent and as indirect ancestor", kind, name, uni.name_set(&both)),
                        json!({"entity": name, "both": uni.name_set(&both)}),
                    ));
                }
                if ps.contains(&me) || is.contains(&me) {
                    findings.push((format!("C04:invariant:self-ancestor:{}", kind), format!("after {}: {} is its own ancestor in the accepted store", kind, name), json!({"entity": name})));
                }
                let all: BTreeSet<usize> = ps.union(&is).copied().collect();
                if all != reach[me] {
                    let stale: BTreeSet<usize> = all.difference(&reach[me]).copied().collect();
                    let missing: BTreeSet<usize> = reach[me].difference(&all).copied().collect();
                    let cls = if !stale.is_empty() { "stale" } else { "missing" };
                    findings.push((
                        format!("C04:invariant:closure-{}:{}", cls, kind),
                        format!("after {}: stored ancestors of {} = {:?}, model reachability = {:?}", kind, name, uni.name_set(&all), uni.name_set(&reach[me])),
                        json!({"entity": name, "stored": uni.name_set(&all), "expected": uni.name_set(&reach[me]), "stale": uni.name_set(&stale), "missing": uni.name_set(&missing)}),
                    ));
                }
                if let Some(m) = self.model.ents.get(&me) {
                    if m.parents != ps {
                        // not part of the property (only the union is); recorded as evidence
                        ctx.count("note:stored-direct-parents-differ-from-model");
                    }
                }
            }
            ctx.add("invariant_walks:entities", walked);
            ctx.count("invariant_walks");
            if let Err(e) = core.clone().try_validate() {
                findings.push((format!("C04:invariant:try_validate:{}", kind), format!("after {}: try_validate() of the accepted store fails: {}", kind, e), json!({"error": e.to_string()})));
            }
        }
        for (s, w, d) in findings {
            self.violation(ctx, s, w, d);
        }
    }
}

fn policy_set<'c>(cache: &'c mut HashMap<(u8, bool, usize, usize), PolicySet>, uni: &Uni, form: u8, on_resource: bool, a: usize, y: usize) -> &'c PolicySet {
    cache.entry((form, on_resource, a, y)).or_insert_with(|| {
        let x = &uni.names[a];
        let var = if on_resource { "resource" } else { "principal" };
        let text = match form {
            0 => {
                if on_resource {
                    format!("permit(principal, action, resource in {});", x)
                } else {
                    format!("permit(principal in {}, action, resource);", x)
                }
            }
            1 => format!("permit(principal, action, resource) when {{ {} in {} }};", var, x),
            _ => format!("permit(principal, action, resource) when {{ {} in [{}, {}] }};", var, uni.names[y], x),
        };
        let p = Policy::parse(Some(PolicyId::new("p")), &text).unwrap_or_else(|e| panic!("harness: policy {text:?}: {e}"));
        let mut ps = PolicySet::new();
        ps.add(p).expect("harness: policy set");
        ps
    })
}

fn to_idx<'a>(uni: &Uni, it: impl Iterator<Item = &'a cast::EntityUID>, unknown: &mut Vec<String>) -> BTreeSet<usize> {
    let mut s = BTreeSet::new();
    for u in it {
        match uni.idx_of(u) {
            Some(i) => {
                s.insert(i);
            }
            None => unknown.push(u.to_string()),
        }
    }
    s
}

// ------------------------------------------------------------------ EnforceAlreadyComputed

/// edges as handed to core: uid -> (parents, indirect ancestors)
type Closed = BTreeMap<usize, (BTreeSet<usize>, BTreeSet<usize>)>;

fn closed_input(g: &Model) -> Closed {
    g.ents
        .iter()
        .map(|(&u, e)| {
            let r = g.reach(u);
            let ind: BTreeSet<usize> = r.difference(&e.parents).copied().collect();
            (u, (e.parents.clone(), ind))
        })
        .collect()
}

/// is the *input* (all out-edges as given) transitively closed / free of self-edges?
fn input_props(c: &Closed) -> (bool, bool) {
    let out = |u: usize| -> BTreeSet<usize> { c.get(&u).map(|(p, i)| p.union(i).copied().collect()).unwrap_or_default() };
    let mut closed = true;
    let mut acyclic = true;
    for &u in c.keys() {
        let o = out(u);
        if o.contains(&u) {
            acyclic = false;
        }
        for &p in &o {
            if c.contains_key(&p) && !out(p).is_subset(&o) {
                closed = false;
            }
        }
    }
    (closed, acyclic)
}

fn eac_trial(ctx: &mut CaseCtx, uni: &Uni, label: &str, input: &Closed) {
    let (closed, acyclic) = input_props(input);
    let ents: Vec<cast::Entity> = input
        .iter()
        .map(|(&u, (p, i))| {
            cast::Entity::new_with_attr_partial_value(
                uni.core_uid(u),
                std::iter::empty::<(smol_str::SmolStr, cast::PartialValue)>(),
                i.iter().map(|&x| uni.core_uid(x)).collect(),
                p.iter().map(|&x| uni.core_uid(x)).collect(),
                std::iter::empty::<(smol_str::SmolStr, cast::PartialValue)>(),
            )
        })
        .collect();
    let res = CoreEntities::from_entities(ents, None::<&NoEntitiesSchema>, TCComputation::EnforceAlreadyComputed, Extensions::all_available());
    let input_json = || {
        J::Object(input.iter().map(|(u, (p, i))| (uni.names[*u].clone(), json!({"parents": uni.name_set(p), "indirect_ancestors": uni.name_set(i)}))).collect())
    };
    let cls = format!("{}{}", if closed { "closed" } else { "unclosed" }, if acyclic { "" } else { "+cyclic" });
    match res {
        Err(e) => {
            ctx.count(&format!("cell:eac:{}|err:{}", cls, err_class(&e)));
            if closed && acyclic {
                ctx.count("unexpected_reject:eac:closed-acyclic");
                ctx.harness_error(format!("C04: EnforceAlreadyComputed rejected a transitively closed acyclic input ({}): {} / {}", label, e, input_json()));
            }
        }
        Ok(store) => {
            ctx.count(&format!("cell:eac:{}|ok", cls));
            ctx.count("eac:accepted_stores_walked");
            // the accepted store itself must be transitively closed and acyclic
            let mut bad: Option<(&'static str, String)> = None;
            for ent in store.iter() {
                let out: HashSet<&cast::EntityUID> = ent.ancestors().collect();
                if out.contains(ent.uid()) {
                    bad = Some(("accepted-cyclic", format!("{} is its own ancestor", ent.uid())));
                    break;
                }
                for p in &out {
                    if let Dereference::Data(pe) = store.entity(p) {
                        if let Some(g) = pe.ancestors().find(|g| !out.contains(g)) {
                            bad = Some(("accepted-unclosed", format!("{} -> {} and {} -> {} but not {} -> {}", ent.uid(), p, p, g, ent.uid(), g)));
                        }
                    }
                }
                if bad.is_some() {
                    break;
                }
            }
            if store.len() != input.len() {
                bad = Some(("accepted-different-size", format!("{} entities in, {} stored", input.len(), store.len())));
            }
            if let Some((k, why)) = bad {
                if !room_for(ctx, &format!("C04:eac:{}", k)) {
                    return;
                }
                ctx.violation(
                    &format!("C04:eac:{}", k),
                    format!("from_entities(EnforceAlreadyComputed) accepted a store that is not closed/acyclic: {}", why),
                    json!({"variant": label, "input": input_json(), "why": why}),
                );
            } else if !(closed && acyclic) {
                // unreachable unless the walk above and input_props disagree
                ctx.harness_error(format!("C04: eac walk and input classification disagree on {}", input_json()));
            }
        }
    }
}

fn eac_checks(ctx: &mut CaseCtx, uni: &Uni, g: &Model) {
    let base = closed_input(g);
    eac_trial(ctx, uni, "model-closed", &base);
    // under-closed: drop one indirect ancestor somewhere
    let cands: Vec<(usize, usize)> = base.iter().flat_map(|(&u, (_, i))| i.iter().map(move |&x| (u, x))).collect();
    if !cands.is_empty() {
        let (u, x) = *ctx.rng.pick(&cands);
        let mut c = base.clone();
        c.get_mut(&u).unwrap().1.remove(&x);
        eac_trial(ctx, uni, "one-indirect-ancestor-dropped", &c);
        if ctx.rng.chance(1, 2) {
            // under-closed: direct parents only
            let c2: Closed = base.iter().map(|(&u, (p, _))| (u, (p.clone(), BTreeSet::new()))).collect();
            eac_trial(ctx, uni, "direct-parents-only", &c2);
        }
        if ctx.rng.chance(1, 2) {
            // closed, but every ancestor handed over as a parent
            let c3: Closed = base.iter().map(|(&u, (p, i))| (u, (p.union(i).copied().collect(), BTreeSet::new()))).collect();
            eac_trial(ctx, uni, "closure-as-parents", &c3);
        }
    }
}

// ------------------------------------------------------------------ generators

fn gen_parents(rng: &mut Rng, n: usize, u: usize, rank: &[usize], wild: bool) -> BTreeSet<usize> {
    let k = rng.weighted(&[3, 5, 3, 1]);
    let mut s = BTreeSet::new();
    let higher: Vec<usize> = (0..n).filter(|&x| rank[x] > rank[u]).collect();
    for _ in 0..k {
        if wild || higher.is_empty() {
            if wild {
                s.insert(rng.below(n)); // may be u itself: cycle of length 1
            }
        } else {
            s.insert(*rng.pick(&higher));
        }
    }
    s
}

fn gen_batch(rng: &mut Rng, n: usize, rank: &[usize], model: &Model, prefer_absent: bool) -> Batch {
    let len = 1 + rng.weighted(&[4, 4, 2, 1]);
    let mut b: Batch = vec![];
    let absent: Vec<usize> = (0..n).filter(|u| !model.has(*u)).collect();
    while b.len() < len {
        if !b.is_empty() && rng.chance(1, 5) {
            // duplicate inside the batch: identical / other parents / other attribute
            let (u, e) = rng.pick_clone(&b);
            let d = match rng.below(4) {
                0 | 1 => e,
                2 => MEnt { parents: gen_parents(rng, n, u, rank, false), v: e.v },
                _ => MEnt { parents: e.parents, v: 1 - e.v },
            };
            b.push((u, d));
            continue;
        }
        let u = if prefer_absent && !absent.is_empty() && rng.chance(4, 5) { *rng.pick(&absent) } else { rng.below(n) };
        let wild = rng.chance(1, 8);
        let mut e = MEnt { parents: gen_parents(rng, n, u, rank, wild), v: if rng.chance(1, 6) { 1 } else { 0 } };
        if prefer_absent && model.has(u) {
            // an `add` of a uid that has a record: exercise the "identical duplicate" notion
            match rng.below(3) {
                0 => e = model.ents[&u].clone(),
                1 => e = MEnt { parents: model.reach(u), v: model.ents[&u].v },
                _ => {}
            }
        }
        b.push((u, e));
    }
    b
}

fn gen_op(rng: &mut Rng, n: usize, rank: &[usize], model: &Model, first: bool) -> Op {
    let k = if first { rng.weighted(&[70, 12, 12, 6]) } else { rng.weighted(&[6, 36, 32, 26]) };
    match k {
        0 => Op::From(gen_batch(rng, n, rank, &Model::default(), false), rng.chance(1, 6)),
        1 => Op::Add(gen_batch(rng, n, rank, model, true), rng.chance(1, 6)),
        2 => Op::Upsert(gen_batch(rng, n, rank, model, false)),
        _ => {
            let len = 1 + rng.weighted(&[6, 3, 1]);
            let present: Vec<usize> = model.ents.keys().copied().collect();
            let us = (0..len).map(|_| if !present.is_empty() && rng.chance(5, 6) { *rng.pick(&present) } else { rng.below(n) }).collect();
            Op::Remove(us)
        }
    }
}

fn ent(parents: &[usize]) -> MEnt {
    MEnt { parents: parents.iter().copied().collect(), v: 0 }
}

/// Forced shapes.  `r` maps roles to uids (a random injection), n >= 6.
fn script(rng: &mut Rng, r: &[usize]) -> (&'static str, Vec<Op>) {
    let js = rng.chance(1, 6);
    let which = rng.below(14);
    let shuffled = |rng: &mut Rng, mut b: Batch| {
        rng.shuffle(&mut b);
        b
    };
    match which {
        0 => {
            // diamond e -> {x,y} -> t (-> g), remove one path then the other
            let (e, x, y, t, g) = (r[0], r[1], r[2], r[3], r[4]);
            let mut b = vec![(e, ent(&[x, y])), (x, ent(&[t])), (y, ent(&[t])), (t, ent(&[g]))];
            if rng.bool() {
                b.push((g, ent(&[])));
            }
            ("diamond", vec![Op::From(shuffled(rng, b), js), Op::Remove(vec![x]), Op::Remove(vec![y])])
        }
        1 => {
            // alternative path through a sibling, deeper on one side
            let (e, m, s, x, a, top) = (r[0], r[1], r[2], r[3], r[4], r[5]);
            let b = vec![(e, ent(&[m, s])), (m, ent(&[x])), (x, ent(&[a])), (s, ent(&[a])), (a, ent(&[top])), (top, ent(&[]))];
            let second = if rng.bool() { Op::Remove(vec![s]) } else { Op::Upsert(vec![(s, ent(&[]))]) };
            ("alt-path-sibling", vec![Op::From(shuffled(rng, b), js), Op::Remove(vec![x]), second])
        }
        2 => {
            // dangling parents that later materialise, level by level
            let (e, d, g, h, f) = (r[0], r[1], r[2], r[3], r[4]);
            let first = vec![(e, ent(&[d])), (f, ent(&[e]))];
            let mat = if rng.bool() { Op::Add(vec![(d, ent(&[g]))], js) } else { Op::Upsert(vec![(d, ent(&[g]))]) };
            ("dangling-materialises", vec![Op::From(shuffled(rng, first), false), mat, Op::Add(vec![(g, ent(&[h])), (h, ent(&[]))], false), Op::Remove(vec![d])])
        }
        3 => {
            // removal of the only path
            let (e, m, t, u) = (r[0], r[1], r[2], r[3]);
            let b = vec![(e, ent(&[m])), (m, ent(&[t])), (t, ent(&[u])), (u, ent(&[]))];
            ("only-path-removed", vec![Op::From(shuffled(rng, b), js), Op::Remove(vec![m]), Op::Add(vec![(m, ent(&[u]))], false)])
        }
        4 => {
            // upsert that changes the parents of an inner node, with / without a second path to the old parent
            let (e, m, p, q, s, pp) = (r[0], r[1], r[2], r[3], r[4], r[5]);
            let mut b = vec![(e, ent(&[m])), (m, ent(&[p])), (p, ent(&[pp])), (q, ent(&[])), (pp, ent(&[]))];
            if rng.bool() {
                b[0] = (e, ent(&[m, s]));
                b.push((s, ent(&[p])));
            }
            ("upsert-changes-parents", vec![Op::From(shuffled(rng, b), js), Op::Upsert(vec![(m, ent(&[q]))]), Op::Upsert(vec![(m, ent(&[]))])])
        }
        5 | 6 => {
            // cycle of length k closed by add (the last node was a dangling parent)
            let k = 1 + rng.below(4);
            let mut b: Batch = (0..k.saturating_sub(1)).map(|i| (r[i], ent(&[r[i + 1]]))).collect();
            b.push((r[5], ent(&[r[0]]))); // a descendant of the future cycle
            let close = (r[k - 1], ent(&[r[0]]));
            let mut ops = vec![Op::From(shuffled(rng, b), false), Op::Add(vec![close], js)];
            ops.push(Op::Add(vec![(r[k - 1], ent(&[]))], false));
            ("cycle-by-add", ops)
        }
        7 | 8 => {
            // cycle of length k closed by upsert
            let k = 1 + rng.below(4);
            let mut b: Batch = (0..k - 1).map(|i| (r[i], ent(&[r[i + 1]]))).collect();
            b.push((r[k - 1], ent(&[])));
            b.push((r[5], ent(&[r[0]])));
            let mut close = vec![(r[k - 1], ent(&[r[0]]))];
            if rng.chance(1, 3) {
                close.insert(0, (r[4], ent(&[])));
            }
            ("cycle-by-upsert", vec![Op::From(shuffled(rng, b), js), Op::Upsert(close), Op::Upsert(vec![(r[k - 1], ent(&[r[5].min(r[4])]))])])
        }
        9 => {
            // cycle of length k inside one from_entities batch, then the same batch without the closing edge
            let k = 1 + rng.below(4);
            let mut b: Batch = (0..k).map(|i| (r[i], ent(&[r[(i + 1) % k]]))).collect();
            b.push((r[4], ent(&[r[0]])));
            let mut ok = b.clone();
            ok[k - 1] = (r[k - 1], ent(&[]));
            ("cycle-in-from", vec![Op::From(shuffled(rng, b), js), Op::From(shuffled(rng, ok), false)])
        }
        10 => {
            // chain, several uids removed in one batch (both orders), with a second path over the removed part
            let (e, a, b_, c, s) = (r[0], r[1], r[2], r[3], r[4]);
            let mut b = vec![(e, ent(&[a])), (a, ent(&[b_])), (b_, ent(&[c])), (c, ent(&[]))];
            if rng.bool() {
                b[0] = (e, ent(&[a, s]));
                b.push((s, ent(&[c])));
            }
            let rm = if rng.bool() { vec![a, b_] } else { vec![b_, a] };
            ("batch-remove", vec![Op::From(shuffled(rng, b), js), Op::Remove(rm)])
        }
        12 | 13 => {
            // one upsert batch naming a uid twice (the documented "latest version wins") and then an
            // ancestor of it: e -> {m, s}, s -> p -> g; upsert [m -> {p}, m -> {p}, p -> {..}]
            let (e, m, s_, p, g, q) = (r[0], r[1], r[2], r[3], r[4], r[5]);
            let mut b = vec![(e, ent(&[m, s_])), (s_, ent(&[p])), (p, ent(&[g]))];
            if rng.bool() {
                b.push((m, ent(&[])));
            }
            if rng.bool() {
                b.push((g, ent(&[])));
            }
            let second = MEnt { parents: [p].into_iter().collect(), v: if rng.bool() { 1 } else { 0 } };
            let newp = if rng.bool() { ent(&[]) } else { ent(&[q]) };
            let mut up = vec![(m, ent(&[p])), (m, second), (p, newp)];
            if rng.chance(1, 4) {
                up.swap(1, 2);
            }
            ("upsert-duplicate-then-ancestor", vec![Op::From(shuffled(rng, b), js), Op::Upsert(up)])
        }
        _ => {
            // one upsert batch replacing an ancestor and its descendant, both orders
            let (e, m, p, q, x) = (r[0], r[1], r[2], r[3], r[4]);
            let b = vec![(x, ent(&[e])), (e, ent(&[m])), (m, ent(&[p])), (p, ent(&[])), (q, ent(&[]))];
            let mut up = vec![(m, ent(&[q])), (e, ent(&[m, p]))];
            if rng.bool() {
                up.reverse();
            }
            if rng.chance(1, 3) {
                up.push((m, ent(&[p, q])));
            }
            ("batch-upsert", vec![Op::From(shuffled(rng, b), js), Op::Upsert(up)])
        }
    }
}

// ------------------------------------------------------------------ cases

fn exhaustive_sizes(thorough: bool) -> (usize, u64, u64) {
    let n: usize = if thorough { 4 } else { 3 };
    let per_uid = (1u64 << n) + 1; // every parent set (self included) or "no record"
    let graphs = per_uid.pow(n as u32);
    let follow = n as u64 + (n as u64) * (1u64 << n); // remove u | upsert (u, parent set)
    (n, graphs, follow)
}

fn mask_set(mask: u64, n: usize) -> BTreeSet<usize> {
    (0..n).filter(|i| mask >> i & 1 == 1).collect()
}

fn finish(ctx: &mut CaseCtx, run: &Run, tag: &str) {
    for s in &run.shapes {
        ctx.count(&format!("shape:{}", s));
    }
    ctx.max("history_len", run.ops.len() as u64);
    ctx.max("effective_ops", run.effective as u64);
    if run.effective >= 2 && run.true_pairs >= 1 {
        ctx.nontrivial(&format!("{:?}|{:?}", run.uni.names, run.ops));
        ctx.count(&format!("nontrivial:{}", tag));
    }
    if ctx.verbose {
        eprintln!("C04 case {} [{}]: uids {:?}", ctx.idx, tag, run.uni.names);
        for h in &run.hist {
            eprintln!("  {}", h);
        }
        eprintln!("  final model {}", run.model.render(run.uni));
        eprintln!("  final store {}", run.store_dump());
    }
    let (hist, n) = (&run.hist, run.uni.n);
    ctx.sample(|| json!({"kind": tag, "uids": n, "history": hist}));
}

fn exhaustive_case(ctx: &mut CaseCtx, n: usize, follow: u64) {
    let (g, f) = (ctx.idx / follow, ctx.idx % follow);
    let per_uid = (1u64 << n) + 1;
    let mut batch: Batch = vec![];
    let mut x = g;
    for u in 0..n {
        let d = x % per_uid;
        x /= per_uid;
        if d < (1u64 << n) {
            batch.push((u, MEnt { parents: mask_set(d, n), v: 0 }));
        }
    }
    ctx.count("exhaustive_cases");
    if f == 0 {
        ctx.count("exhaustive_graphs_enumerated");
    }
    let initial = Model::default().apply(&Op::From(batch.clone(), false));
    if f != 0 && initial.shortest_cycle().is_some() {
        // the rejection of this graph is checked by the case with f == 0
        ctx.count("exhaustive:cyclic-initial-graph-follow-up-skipped");
        return;
    }
    let op2 = if f < n as u64 {
        Op::Remove(vec![f as usize])
    } else {
        let k = f - n as u64;
        Op::Upsert(vec![((k >> n) as usize, MEnt { parents: mask_set(k & ((1u64 << n) - 1), n), v: 0 })])
    };
    let which: Vec<usize> = (0..n).collect();
    let uni = Uni::new(&which);
    let mut run = Run::new(&uni);
    run.step(ctx, Op::From(batch, false));
    run.step(ctx, op2);
    finish(ctx, &run, "exhaustive");
}

fn random_case(ctx: &mut CaseCtx) {
    let scripted = ctx.rng.chance(2, 5);
    let n = if scripted { 6 + ctx.rng.below(2) } else { 3 + ctx.rng.below(5) };
    let mut which: Vec<usize> = (0..POOL.len()).collect();
    ctx.rng.shuffle(&mut which);
    which.truncate(n);
    let uni = Uni::new(&which);
    let mut rank: Vec<usize> = (0..n).collect();
    ctx.rng.shuffle(&mut rank);
    let mut run = Run::new(&uni);
    let total = 1 + ctx.rng.below(12);
    let mut tag = "random";
    if scripted {
        let mut roles: Vec<usize> = (0..n).collect();
        ctx.rng.shuffle(&mut roles);
        let (name, ops) = script(&mut ctx.rng, &roles);
        tag = name;
        ctx.count(&format!("script:{}", name));
        for op in ops {
            run.step(ctx, op);
        }
    }
    while run.ops.len() < total && !run.aborted {
        let first = run.ops.is_empty();
        let op = gen_op(&mut ctx.rng, n, &rank, &run.model, first);
        run.step(ctx, op);
    }
    // core EnforceAlreadyComputed on the final (acyclic) model graph and on a fresh, possibly cyclic one
    if !run.aborted {
        let m = run.model.clone();
        eac_checks(ctx, &uni, &m);
        if ctx.rng.chance(1, 2) {
            let mut g = Model::default();
            let wild_graph = ctx.rng.chance(1, 2);
            for u in 0..n {
                if ctx.rng.chance(4, 5) {
                    let wild = wild_graph && ctx.rng.chance(1, 3);
                    g.ents.insert(u, MEnt { parents: gen_parents(&mut ctx.rng, n, u, &rank, wild), v: 0 });
                }
            }
            if g.shortest_cycle().is_some() {
                ctx.count("eac:cyclic-graphs-offered");
            }
            eac_checks(ctx, &uni, &g);
        }
    }
    finish(ctx, &run, tag);
}

pub fn case(ctx: &mut CaseCtx) {
    let (n, graphs, follow) = exhaustive_sizes(ctx.thorough());
    if ctx.idx < graphs * follow {
        exhaustive_case(ctx, n, follow);
    } else {
        random_case(ctx);
    }
}
