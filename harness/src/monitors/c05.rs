//! C05 — policy text -> AST -> text round trip preserves structure and meaning.
//!
//! Case = a generated `GPolicy` / template / policy set, rendered by the harness's own
//! randomised renderer (minimal / full / redundant parentheses, random escapes, `.a` vs
//! `["a"]`, optional noise between tokens).  For text the parser ACCEPTS:
//!
//!  * every printer reachable from the parsed object (`Display`, `to_cedar()`, the core
//!    AST `Display`, `Display`/`to_cedar()` of the object rebuilt from the AST alone, and —
//!    judged against the rebuilt object itself — `Display`/`to_cedar()` of the object
//!    rebuilt from its own JSON, which is the only way to reach the EST printer with the
//!    surface sugar intact) must produce text that parses again and yields a structurally
//!    identical object: effect, annotations, scope constraints, slots, condition
//!    (`Expr::eq_shape`); for policy sets the multiset of policies / templates, ids and
//!    order excluded;
//!  * the FIRST parse is tied to the intended `GPolicy`: effect, annotations and scope
//!    constraints exactly, the condition through the reference interpreter on ~5 worlds
//!    (so a consistent mis-parse + consistent print is still caught); the re-parses are
//!    evaluated against the model as well.
//!
//! The first `ENUM_N` case indices enumerate (outer form, operand position, inner form,
//! parenthesisation mode) exhaustively; the rest are random.

use super::common::*;
use crate::bridge;
use crate::gen::{self, ExprGen, Kind};
use crate::model::*;
use crate::pools;
use crate::refsem::{self, Outcome, Slots};
use crate::render::{self, EscMode, ParenMode, TextOpts};
use crate::report::CaseCtx;
use crate::rng::Rng;
use cedar_policy::{
    ActionConstraint, Authorizer, Decision, Entities, EntityUid, Policy, PolicyId, PolicySet, PrincipalConstraint, Request,
    ResourceConstraint, SlotId, Template, TemplatePrincipalConstraint, TemplateResourceConstraint,
};
use cedar_policy_core::ast;
use serde_json::json;
use std::collections::{BTreeMap, HashMap};
use std::str::FromStr;

// ------------------------------------------------------------------------------------------------
// generators (shared with C06)

pub const ANNOT_KEYS: [&str; 18] = [
    "id", "a", "note", "A1_b", "_", "if", "in", "has", "like", "is", "then", "else", "true", "false", "permit", "principal", "when", "__cedar",
];

pub const ANNOT_VALS: [&str; 18] = [
    "",
    "x",
    "two words",
    "nul\0x",
    "q\"uote",
    "sq'uote",
    "line\nbreak",
    "tab\tcr\r",
    "back\\slash",
    "\\n not a newline",
    "\u{1F600}",
    "\u{3c0}",
    "*",
    "\\*",
    "\u{7f}\u{1b}",
    "\u{200b}zw",
    "e\u{301}",
    "\u{10FFFF}",
];

pub const NFORMS: usize = 32;
pub const NLEAVES: usize = 10;
/// (outer form, position, inner form or leaf, paren mode)
pub const ENUM_N: u64 = (NFORMS * 3 * (NFORMS + NLEAVES) * 3) as u64;

pub fn form_arity(f: usize) -> usize {
    match f {
        0..=16 => 2,
        17 | 18 => 1,
        19 => 3,
        20..=25 => 1,
        26..=28 => 2,
        29 => 1,
        30 => 2,
        _ => 1,
    }
}

pub fn form_name(f: usize) -> String {
    match f {
        0..=16 => BinOp::ALL[f].name().to_string(),
        17 => "!".into(),
        18 => "neg".into(),
        19 => "if".into(),
        20 => "isEmpty".into(),
        21 => "has".into(),
        22 => "has-chain".into(),
        23 => "attr".into(),
        24 => "like".into(),
        25 => "is".into(),
        26 => "is-in".into(),
        27 => "set".into(),
        28 => "record".into(),
        29 => "ext-method1".into(),
        30 => "ext-method2".into(),
        _ => "ext-ctor".into(),
    }
}

fn two_distinct_attrs(rng: &mut Rng) -> (String, String) {
    let a = pools::attr(rng);
    loop {
        let b = pools::attr(rng);
        if b != a {
            return (a, b);
        }
    }
}

/// build the expression form `f` over the given operands (exactly `form_arity(f)` of them)
pub fn build_form(f: usize, mut kids: Vec<GExpr>, rng: &mut Rng) -> GExpr {
    let mut next = || kids.remove(0);
    match f {
        0..=16 => {
            let a = next();
            let b = next();
            GExpr::bin(BinOp::ALL[f], a, b)
        }
        17 => GExpr::Not(next().b()),
        18 => GExpr::Neg(next().b()),
        19 => {
            let c = next();
            let t = next();
            let e = next();
            GExpr::ite(c, t, e)
        }
        20 => GExpr::IsEmpty(next().b()),
        21 => GExpr::Has(next().b(), vec![pools::attr(rng)]),
        22 => {
            let mut path = vec![];
            for _ in 0..2 + rng.below(2) {
                path.push(rng.pick(&pools::PLAIN_ATTRS).to_string());
            }
            GExpr::Has(next().b(), path)
        }
        23 => GExpr::Attr(next().b(), pools::attr(rng)),
        24 => GExpr::Like(next().b(), pools::pattern(rng)),
        25 => GExpr::Is(next().b(), rng.pick(&pools::ENTITY_TYPES).to_string(), None),
        26 => {
            let a = next();
            let b = next();
            GExpr::Is(a.b(), rng.pick(&pools::ENTITY_TYPES).to_string(), Some(b.b()))
        }
        27 => {
            let a = next();
            let b = next();
            GExpr::Set(vec![a, b])
        }
        28 => {
            let (ka, kb) = two_distinct_attrs(rng);
            let a = next();
            let b = next();
            GExpr::Rec(vec![(ka, a), (kb, b)])
        }
        29 => {
            let f = *rng.pick(&["isIpv4", "isLoopback", "toDate", "toTime", "toMilliseconds", "toDays"]);
            GExpr::call(f, vec![next()])
        }
        30 => {
            let f = *rng.pick(&["lessThan", "greaterThanOrEqual", "isInRange", "offset", "durationSince"]);
            let a = next();
            let b = next();
            GExpr::call(f, vec![a, b])
        }
        _ => {
            let f = *rng.pick(&["ip", "decimal", "datetime", "duration"]);
            GExpr::call(f, vec![next()])
        }
    }
}

pub fn leaf_form(l: usize, rng: &mut Rng, uids: &[Uid]) -> GExpr {
    match l {
        0 => GExpr::Long(*rng.pick(&[-1i64, -7, -2147483648, i64::MIN + 1])),
        1 => GExpr::Long(i64::MIN),
        2 => GExpr::Long(*rng.pick(&[0i64, 1, 7, i64::MAX])),
        3 => GExpr::Str(pools::string(rng)),
        4 => GExpr::Ent(if !uids.is_empty() && rng.bool() { rng.pick_clone(uids) } else { pools::uid(rng) }),
        5 => GExpr::Var(*rng.pick(&[Var::Principal, Var::Action, Var::Resource, Var::Context])),
        6 => GExpr::Bool(rng.bool()),
        7 => GExpr::Set(vec![]),
        8 => GExpr::Rec(vec![]),
        _ => {
            // a chain of 1..=4 unary operators (the grammar's limit) over a literal or a variable
            let n = 1 + rng.below(4);
            let neg = rng.chance(3, 4);
            let mut e = match rng.below(4) {
                0 => GExpr::Long(*rng.pick(&[-1i64, i64::MIN, i64::MIN + 1])),
                1 => GExpr::Long(*rng.pick(&[0i64, 1, i64::MAX])),
                2 => GExpr::Var(*rng.pick(&[Var::Principal, Var::Context])),
                _ => GExpr::Bool(rng.bool()),
            };
            for _ in 0..n {
                e = if neg { GExpr::Neg(e.b()) } else { GExpr::Not(e.b()) };
            }
            e
        }
    }
}

fn stress_leaf(rng: &mut Rng, uids: &[Uid]) -> GExpr {
    let l = match rng.below(16) {
        0..=2 => 0,
        3 => 1,
        4 | 5 => 2,
        6 | 7 => 3,
        8 | 9 => 4,
        10..=12 => 5,
        13 => 6,
        14 => *rng.pick(&[7usize, 8]),
        _ => 9,
    };
    leaf_form(l, rng, uids)
}

/// purely syntactic tree of exactly the requested nesting depth: one spine child keeps the
/// full depth, the other operands are shallow
pub fn stress_expr(rng: &mut Rng, uids: &[Uid], depth: usize) -> GExpr {
    if depth <= 1 {
        return stress_leaf(rng, uids);
    }
    let f = rng.below(NFORMS);
    let n = form_arity(f);
    let spine = rng.below(n);
    let mut kids = vec![];
    for i in 0..n {
        if i == spine {
            kids.push(stress_expr(rng, uids, depth - 1));
        } else {
            let d = match rng.below(6) {
                0 => 3.min(depth - 1),
                1 | 2 => 2.min(depth - 1),
                _ => 1,
            };
            kids.push(stress_expr(rng, uids, d));
        }
    }
    build_form(f, kids, rng)
}

/// the enumerated sub-space: outer form × operand position × inner form/leaf
pub fn enumerated_expr(code: u64, rng: &mut Rng, uids: &[Uid]) -> (GExpr, String) {
    let inner_n = (NFORMS + NLEAVES) as u64;
    let f2 = (code % inner_n) as usize;
    let pos = ((code / inner_n) % 3) as usize;
    let f1 = ((code / inner_n / 3) % NFORMS as u64) as usize;
    let n = form_arity(f1);
    let pos = pos % n;
    let inner = if f2 < NFORMS {
        let k: Vec<GExpr> = (0..form_arity(f2)).map(|_| stress_leaf(rng, uids)).collect();
        build_form(f2, k, rng)
    } else {
        leaf_form(f2 - NFORMS, rng, uids)
    };
    let mut kids = vec![];
    for i in 0..n {
        if i == pos {
            kids.push(inner.clone());
        } else {
            kids.push(stress_leaf(rng, uids));
        }
    }
    let inner_name = if f2 < NFORMS { form_name(f2) } else { format!("leaf{}", f2 - NFORMS) };
    (build_form(f1, kids, rng), format!("{}[{}]<-{}", form_name(f1), pos, inner_name))
}

pub fn world_uids(w: &GWorld) -> Vec<Uid> {
    let mut us: Vec<Uid> = w.entities.keys().cloned().collect();
    for u in [&w.principal, &w.resource, &w.action] {
        if !us.contains(u) {
            us.push(u.clone());
        }
    }
    us
}

fn scope_entity(rng: &mut Rng, w: &GWorld, who: &Uid) -> Uid {
    match rng.below(8) {
        0..=2 => who.clone(),
        3..=5 => {
            let anc: Vec<Uid> = w.ancestors(who).into_iter().collect();
            if anc.is_empty() {
                who.clone()
            } else {
                rng.pick_clone(&anc)
            }
        }
        6 => pools::small_uid(rng),
        _ => pools::uid(rng),
    }
}

fn scope_pr(rng: &mut Rng, w: &GWorld, who: &Uid, slot: Option<bool>) -> ScopePR {
    // slot: Some(true) = must use the slot, Some(false) = must not, None = free choice
    let use_slot = |rng: &mut Rng| match slot {
        Some(b) => b,
        None => rng.chance(1, 3),
    };
    let ty = |rng: &mut Rng| if rng.chance(2, 3) { who.ty.clone() } else { rng.pick(&pools::ENTITY_TYPES).to_string() };
    let eos = |rng: &mut Rng| if use_slot(rng) { EntOrSlot::Slot } else { EntOrSlot::Ent(scope_entity(rng, w, who)) };
    if slot == Some(true) {
        return match rng.below(3) {
            0 => ScopePR::Eq(EntOrSlot::Slot),
            1 => ScopePR::In(EntOrSlot::Slot),
            _ => ScopePR::IsIn(ty(rng), EntOrSlot::Slot),
        };
    }
    match rng.below(12) {
        0..=3 => ScopePR::Any,
        4 | 5 => ScopePR::Eq(eos(rng)),
        6 | 7 => ScopePR::In(eos(rng)),
        8 | 9 => ScopePR::Is(ty(rng)),
        _ => {
            let t = ty(rng);
            ScopePR::IsIn(t, eos(rng))
        }
    }
}

fn action_uid(rng: &mut Rng, w: &GWorld) -> Uid {
    match rng.below(8) {
        0..=2 => w.action.clone(),
        3 => {
            let anc: Vec<Uid> = w.ancestors(&w.action).into_iter().filter(|u| u.ty.ends_with("Action")).collect();
            if anc.is_empty() {
                w.action.clone()
            } else {
                rng.pick_clone(&anc)
            }
        }
        4 => Uid::new(rng.pick(&["Action", "N::Action"]), rng.pick(&["view", "edit", "a"])),
        5 => Uid::new("Action", rng.pick(&pools::IDS)),
        6 => Uid::new("N::M::Action", rng.pick(&pools::IDS)),
        _ => {
            // a non-action type: the parser is expected to refuse it (probes the acceptance path)
            if rng.chance(1, 8) {
                pools::small_uid(rng)
            } else {
                w.action.clone()
            }
        }
    }
}

fn scope_a(rng: &mut Rng, w: &GWorld) -> ScopeA {
    match rng.below(9) {
        0..=2 => ScopeA::Any,
        3 | 4 => ScopeA::Eq(action_uid(rng, w)),
        5 | 6 => ScopeA::In(action_uid(rng, w)),
        _ => {
            let n = rng.below(4);
            ScopeA::InList((0..n).map(|_| action_uid(rng, w)).collect())
        }
    }
}

fn annotations(rng: &mut Rng) -> Vec<(String, String)> {
    let n = *rng.pick(&[0usize, 0, 1, 1, 2, 3, 4]);
    let mut out: Vec<(String, String)> = vec![];
    for _ in 0..n {
        let k = rng.pick(&ANNOT_KEYS).to_string();
        // duplicates are refused by the parser; keep a small probe of that path
        if out.iter().any(|(x, _)| *x == k) && !rng.chance(1, 20) {
            continue;
        }
        let v = match rng.below(6) {
            0 => pools::string(rng),
            1 => rng.pick(&pools::IDS).to_string(),
            2 => {
                let a = rng.pick(&ANNOT_VALS).to_string();
                let b = rng.pick(&ANNOT_VALS).to_string();
                format!("{a}{b}")
            }
            _ => rng.pick(&ANNOT_VALS).to_string(),
        };
        out.push((k, v));
    }
    out
}

/// one condition body; returns the expression and the generator that made it
pub fn condition(rng: &mut Rng, w: &GWorld, max_depth: usize) -> (GExpr, &'static str) {
    let uids = world_uids(w);
    for _ in 0..4 {
        let (e, how) = match rng.below(20) {
            0..=8 => {
                let d = 1 + rng.below(max_depth);
                let chaos = *rng.pick(&[3u32, 12, 12, 30]);
                let mut g = ExprGen::new(rng, w);
                g.chaos = chaos;
                (g.of_kind(Kind::Bool, d), "typed-bool")
            }
            9..=11 => {
                let d = 1 + rng.below(max_depth.min(6));
                let mut g = ExprGen::new(rng, w);
                g.chaos = 20;
                (g.any(d), "typed-any")
            }
            _ => {
                let d = 2 + rng.below(max_depth.saturating_sub(1).max(1));
                (stress_expr(rng, &uids, d), "stress")
            }
        };
        if e.size() <= 300 && !e.has_slot() {
            return (e, how);
        }
    }
    (GExpr::Bool(true), "fallback")
}

/// A policy (`template == Some(false)`), a template (`Some(true)`) or either (`None`)
pub fn gen_policy(rng: &mut Rng, w: &GWorld, template: Option<bool>, max_depth: usize) -> GPolicy {
    let (ps, rs) = match template {
        Some(false) => (Some(false), Some(false)),
        None => (None, None),
        Some(true) => match rng.below(3) {
            0 => (Some(true), Some(false)),
            1 => (Some(false), Some(true)),
            _ => (Some(true), Some(true)),
        },
    };
    // half of the policies get a scope that lets the generation world through (so that their
    // conditions are evaluated at all); by rejection sampling, slots read as the request's entities
    let easy = rng.bool();
    let mut tries = 0;
    let (principal, action, resource) = loop {
        let principal = scope_pr(rng, w, &w.principal, ps);
        let action = scope_a(rng, w);
        let resource = scope_pr(rng, w, &w.resource, rs);
        tries += 1;
        if !easy || tries >= 6 {
            break (principal, action, resource);
        }
        let bare = GPolicy { annotations: vec![], effect: Effect::Permit, principal: principal.clone(), action: action.clone(), resource: resource.clone(), conds: vec![] };
        let slots = Slots { principal: Some(w.principal.clone()), resource: Some(w.resource.clone()) };
        if refsem::policy_outcome(&bare, w, &slots) == Outcome::Satisfied {
            break (principal, action, resource);
        }
    };
    let n = rng.weighted(&[2, 5, 3, 1]);
    let mut conds = vec![];
    for _ in 0..n {
        let (e, _) = condition(rng, w, max_depth);
        conds.push((rng.chance(2, 3), e));
    }
    GPolicy { annotations: annotations(rng), effect: if rng.chance(2, 3) { Effect::Permit } else { Effect::Forbid }, principal, action, resource, conds }
}

#[derive(Clone, Debug)]
pub struct Rendered {
    pub text: String,
    pub paren: ParenMode,
    pub esc: EscMode,
    pub noisy: bool,
}

/// Render with the harness's randomised renderer.  `paren` overrides the random choice.
pub fn render_policy(gp: &GPolicy, rng: &mut Rng, paren: Option<ParenMode>) -> Rendered {
    let mut toks = vec![];
    let (pm, em) = {
        let mut o = TextOpts::random(rng);
        if let Some(p) = paren {
            o.paren = p;
        }
        let r = (o.paren, o.esc);
        render::policy_tokens(gp, &mut o, &mut toks);
        r
    };
    // `@k("")` may also be written `@k`
    let mut i = 0;
    while i + 3 < toks.len() {
        if toks[i].starts_with('@') && toks[i + 1] == "(" && toks[i + 2] == "\"\"" && toks[i + 3] == ")" && rng.bool() {
            toks.drain(i + 1..i + 4);
        }
        i += 1;
    }
    let noisy = rng.chance(1, 4);
    let text = if noisy {
        let mut c = 0usize;
        let tag = if rng.bool() { Some("c") } else { None };
        render::join_noisy(&toks, rng, tag, &mut c)
    } else {
        render::join_plain(&toks)
    };
    Rendered { text, paren: pm, esc: em, noisy }
}

/// `-1`, `-(1)`, `--1`, `-(-(1))` ...: whether a minus sign is part of the literal depends on the
/// parentheses written (the language folds `-` into an adjacent literal), so for such operands two
/// renderings of one `GExpr` need not parse to the same shape
pub fn has_neg_of_literal(e: &GExpr) -> bool {
    if let GExpr::Neg(a) = e {
        let mut x: &GExpr = a;
        while let GExpr::Neg(b) = x {
            x = b;
        }
        if matches!(x, GExpr::Long(_)) {
            return true;
        }
    }
    let mut r = false;
    e.for_children(|c| r |= has_neg_of_literal(c));
    r
}

/// every non-leaf sub-expression parenthesised, minimal escapes, plain spacing
pub fn render_full(gp: &GPolicy, rng: &mut Rng) -> String {
    let mut toks = vec![];
    let mut o = TextOpts::plain(rng);
    o.paren = ParenMode::Full;
    render::policy_tokens(gp, &mut o, &mut toks);
    render::join_plain(&toks)
}

/// ~`n` worlds: the generation world, variants of it with other principals / actions /
/// resources (so scope constraints discriminate), and a fresh one
pub fn worlds(rng: &mut Rng, w0: &GWorld, gps: &[&GPolicy], n: usize) -> Vec<GWorld> {
    let mut cands: Vec<Uid> = world_uids(w0);
    let mut acts: Vec<Uid> = vec![w0.action.clone()];
    for gp in gps {
        for sc in [&gp.principal, &gp.resource] {
            match sc {
                ScopePR::Eq(EntOrSlot::Ent(u)) | ScopePR::In(EntOrSlot::Ent(u)) | ScopePR::IsIn(_, EntOrSlot::Ent(u)) => cands.push(u.clone()),
                _ => {}
            }
        }
        match &gp.action {
            ScopeA::Eq(u) | ScopeA::In(u) => acts.push(u.clone()),
            ScopeA::InList(us) => acts.extend(us.iter().cloned()),
            ScopeA::Any => {}
        }
    }
    let mut out = vec![w0.clone()];
    while out.len() + 1 < n {
        let mut w = w0.clone();
        if rng.chance(1, 3) {
            w.principal = rng.pick_clone(&cands);
        }
        if rng.chance(1, 3) {
            w.resource = rng.pick_clone(&cands);
        }
        if rng.chance(1, 4) {
            w.action = rng.pick_clone(&acts);
        }
        if rng.chance(1, 4) {
            w.context = gen::world(rng).context;
        }
        out.push(w);
    }
    if out.len() < n {
        out.push(gen::world(rng));
    }
    out
}

pub fn slot_values(rng: &mut Rng, w: &GWorld, gp: &GPolicy) -> Slots {
    let mut s = Slots::default();
    if gp.has_slot(Slot::Principal) {
        s.principal = Some(scope_entity(rng, w, &w.principal));
    }
    if gp.has_slot(Slot::Resource) {
        s.resource = Some(scope_entity(rng, w, &w.resource));
    }
    s
}

pub fn slot_map(s: &Slots) -> HashMap<SlotId, EntityUid> {
    let mut m = HashMap::new();
    if let Some(u) = &s.principal {
        m.insert(SlotId::principal(), bridge::uid(u));
    }
    if let Some(u) = &s.resource {
        m.insert(SlotId::resource(), bridge::uid(u));
    }
    m
}

// ------------------------------------------------------------------------------------------------
// structural comparison (shared with C06)

pub fn annots_of<'a>(it: impl Iterator<Item = (&'a ast::AnyId, &'a ast::Annotation)>) -> BTreeMap<String, String> {
    it.map(|(k, v)| (k.to_string(), AsRef::<str>::as_ref(v).to_string())).collect()
}

/// first field in which two templates (or the templates behind two policies) differ; the policy id is not compared
pub fn diff_template(a: &ast::Template, b: &ast::Template) -> Option<String> {
    if a.effect() != b.effect() {
        return Some("effect".into());
    }
    if annots_of(a.annotations()) != annots_of(b.annotations()) {
        return Some("annotations".into());
    }
    if a.principal_constraint() != b.principal_constraint() {
        return Some("principal-scope".into());
    }
    if a.action_constraint() != b.action_constraint() {
        return Some("action-scope".into());
    }
    if a.resource_constraint() != b.resource_constraint() {
        return Some("resource-scope".into());
    }
    let mut sa: Vec<String> = a.slots().map(|s| s.id.to_string()).collect();
    let mut sb: Vec<String> = b.slots().map(|s| s.id.to_string()).collect();
    sa.sort();
    sb.sort();
    if sa != sb {
        return Some("slots".into());
    }
    match (a.non_scope_constraints(), b.non_scope_constraints()) {
        (None, None) => {}
        (Some(x), Some(y)) if x.eq_shape(y) => {}
        _ => return Some(format!("condition:{}", condition_divergence(a, b))),
    }
    None
}

pub fn diff_policy(a: &ast::Policy, b: &ast::Policy) -> Option<String> {
    if let Some(d) = diff_template(a.template(), b.template()) {
        return Some(d);
    }
    if a.is_static() != b.is_static() {
        return Some("staticness".into());
    }
    if a.env() != b.env() {
        return Some("link-bindings".into());
    }
    None
}

fn kind_name(e: &ast::Expr) -> String {
    use ast::ExprKind::*;
    match e.expr_kind() {
        Lit(ast::Literal::Long(n)) if *n < 0 => "NegLit".into(),
        Lit(_) => "Lit".into(),
        Var(_) => "Var".into(),
        Slot(_) => "Slot".into(),
        Unknown(_) => "Unknown".into(),
        If { .. } => "If".into(),
        And { .. } => "And".into(),
        Or { .. } => "Or".into(),
        UnaryApp { op, .. } => format!("{:?}", op),
        BinaryApp { op, .. } => format!("{:?}", op),
        ExtensionFunctionApp { .. } => "ExtCall".into(),
        GetAttr { .. } => "GetAttr".into(),
        HasAttr { .. } => "HasAttr".into(),
        Like { .. } => "Like".into(),
        Set(_) => "Set".into(),
        Record(_) => "Record".into(),
        Is { .. } => "Is".into(),
        #[allow(unreachable_patterns)]
        _ => "Other".into(),
    }
}

/// where two expressions first diverge (pre-order): `KindA->KindB` or `Kind.payload`; empty if `eq_shape`
pub fn first_divergence(a: &ast::Expr, b: &ast::Expr) -> String {
    use ast::ExprKind::*;
    let kids = |e: &ast::Expr| -> Vec<ast::Expr> {
        match e.expr_kind() {
            If { test_expr, then_expr, else_expr } => vec![(**test_expr).clone(), (**then_expr).clone(), (**else_expr).clone()],
            And { left, right } | Or { left, right } => vec![(**left).clone(), (**right).clone()],
            UnaryApp { arg, .. } => vec![(**arg).clone()],
            BinaryApp { arg1, arg2, .. } => vec![(**arg1).clone(), (**arg2).clone()],
            ExtensionFunctionApp { args, .. } => args.iter().cloned().collect(),
            GetAttr { expr, .. } | HasAttr { expr, .. } | Like { expr, .. } | Is { expr, .. } => vec![(**expr).clone()],
            Set(xs) => xs.iter().cloned().collect(),
            Record(m) => m.values().cloned().collect(),
            _ => vec![],
        }
    };
    if a.eq_shape(b) {
        return String::new();
    }
    let (ka, kb) = (kind_name(a), kind_name(b));
    if ka != kb {
        return format!("{ka}->{kb}");
    }
    let (ca, cb) = (kids(a), kids(b));
    if ca.len() != cb.len() {
        return format!("{ka}.arity");
    }
    for (x, y) in ca.iter().zip(cb.iter()) {
        let d = first_divergence(x, y);
        if !d.is_empty() {
            return d;
        }
    }
    // same kind, same children: the node's own payload (literal, attribute, pattern, name, type, keys)
    format!("{ka}.payload")
}

/// class of a condition difference between two templates, for violation signatures
pub fn condition_divergence(a: &ast::Template, b: &ast::Template) -> String {
    match (a.non_scope_constraints(), b.non_scope_constraints()) {
        (Some(x), Some(y)) => first_divergence(x, y),
        (None, None) => String::new(),
        (Some(_), None) => "dropped".into(),
        (None, Some(_)) => "appeared".into(),
    }
}

pub fn ast_depth(e: &ast::Expr) -> usize {
    use ast::ExprKind::*;
    let kids: Vec<&ast::Expr> = match e.expr_kind() {
        If { test_expr, then_expr, else_expr } => vec![test_expr, then_expr, else_expr],
        And { left, right } | Or { left, right } => vec![left, right],
        UnaryApp { arg, .. } => vec![arg],
        BinaryApp { arg1, arg2, .. } => vec![arg1, arg2],
        ExtensionFunctionApp { args, .. } => args.iter().collect(),
        GetAttr { expr, .. } | HasAttr { expr, .. } | Like { expr, .. } | Is { expr, .. } => vec![expr],
        Set(xs) => xs.iter().collect(),
        Record(m) => m.values().collect(),
        _ => vec![],
    };
    1 + kids.into_iter().map(|k| ast_depth(k)).max().unwrap_or(0)
}

pub fn template_depth(t: &ast::Template) -> usize {
    t.non_scope_constraints().map(ast_depth).unwrap_or(0)
}

// ------------------------------------------------------------------------------------------------
// evaluation helpers

pub struct LibWorld {
    pub w: GWorld,
    pub req: Request,
    pub ents: Entities,
}

pub fn lib_worlds(ws: Vec<GWorld>) -> Result<Vec<LibWorld>, String> {
    let mut out = vec![];
    for w in ws {
        let req = bridge::request(&w, None).map_err(|e| format!("request: {e}"))?;
        let ents = bridge::entities(&w, None).map_err(|e| format!("entities: {e}"))?;
        out.push(LibWorld { w, req, ents });
    }
    Ok(out)
}

/// link the template with `vals` inside a fresh set and observe the linked policy
pub fn authorize_template(t: Template, vals: HashMap<SlotId, EntityUid>, req: &Request, ents: &Entities) -> Result<(Decision, PolObs), String> {
    let tid = t.id().clone();
    let lid = PolicyId::new(format!("{}#link", tid));
    let mut ps = PolicySet::new();
    ps.add_template(t).map_err(|e| format!("add_template: {e}"))?;
    ps.link(tid, lid.clone(), vals).map_err(|e| format!("link: {e}"))?;
    let resp = Authorizer::new().is_authorized(req, &ps, ents);
    let o = single_policy_outcome(&resp, &lid)?;
    Ok((resp.decision(), o))
}

fn show_world(lw: &LibWorld) -> serde_json::Value {
    json!({"principal": format!("{:?}", lw.w.principal), "action": format!("{:?}", lw.w.action), "resource": format!("{:?}", lw.w.resource),
           "context": render::context_json(&lw.w), "entities": render::entities_json(&lw.w)})
}

// ------------------------------------------------------------------------------------------------
// first parse vs the intended GPolicy (exact part)

fn pr_any(sc: &ScopePR) -> ScopePR {
    sc.clone()
}

fn back_principal(c: &PrincipalConstraint) -> ScopePR {
    let e = |u: &EntityUid| EntOrSlot::Ent(bridge::uid_back(u));
    match c {
        PrincipalConstraint::Any => ScopePR::Any,
        PrincipalConstraint::In(u) => ScopePR::In(e(u)),
        PrincipalConstraint::Eq(u) => ScopePR::Eq(e(u)),
        PrincipalConstraint::Is(t) => ScopePR::Is(t.to_string()),
        PrincipalConstraint::IsIn(t, u) => ScopePR::IsIn(t.to_string(), e(u)),
    }
}

fn back_resource(c: &ResourceConstraint) -> ScopePR {
    let e = |u: &EntityUid| EntOrSlot::Ent(bridge::uid_back(u));
    match c {
        ResourceConstraint::Any => ScopePR::Any,
        ResourceConstraint::In(u) => ScopePR::In(e(u)),
        ResourceConstraint::Eq(u) => ScopePR::Eq(e(u)),
        ResourceConstraint::Is(t) => ScopePR::Is(t.to_string()),
        ResourceConstraint::IsIn(t, u) => ScopePR::IsIn(t.to_string(), e(u)),
    }
}

fn eos(u: &Option<EntityUid>) -> EntOrSlot {
    match u {
        Some(u) => EntOrSlot::Ent(bridge::uid_back(u)),
        None => EntOrSlot::Slot,
    }
}

fn back_tprincipal(c: &TemplatePrincipalConstraint) -> ScopePR {
    match c {
        TemplatePrincipalConstraint::Any => ScopePR::Any,
        TemplatePrincipalConstraint::In(u) => ScopePR::In(eos(u)),
        TemplatePrincipalConstraint::Eq(u) => ScopePR::Eq(eos(u)),
        TemplatePrincipalConstraint::Is(t) => ScopePR::Is(t.to_string()),
        TemplatePrincipalConstraint::IsIn(t, u) => ScopePR::IsIn(t.to_string(), eos(u)),
    }
}

fn back_tresource(c: &TemplateResourceConstraint) -> ScopePR {
    match c {
        TemplateResourceConstraint::Any => ScopePR::Any,
        TemplateResourceConstraint::In(u) => ScopePR::In(eos(u)),
        TemplateResourceConstraint::Eq(u) => ScopePR::Eq(eos(u)),
        TemplateResourceConstraint::Is(t) => ScopePR::Is(t.to_string()),
        TemplateResourceConstraint::IsIn(t, u) => ScopePR::IsIn(t.to_string(), eos(u)),
    }
}

fn back_action(c: &ActionConstraint) -> ScopeA {
    match c {
        ActionConstraint::Any => ScopeA::Any,
        ActionConstraint::Eq(u) => ScopeA::Eq(bridge::uid_back(u)),
        ActionConstraint::In(us) => ScopeA::InList(us.iter().map(bridge::uid_back).collect()),
    }
}

fn norm_action(a: &ScopeA) -> ScopeA {
    match a {
        ScopeA::In(u) => ScopeA::InList(vec![u.clone()]),
        x => x.clone(),
    }
}

/// what the public accessors of a parsed object say, in the harness's terms
struct Surface {
    permit: bool,
    annotations: BTreeMap<String, String>,
    principal: ScopePR,
    action: ScopeA,
    resource: ScopePR,
}

fn surface_policy(p: &Policy) -> Surface {
    Surface {
        permit: p.effect() == cedar_policy::Effect::Permit,
        annotations: p.annotations().map(|(k, v)| (k.to_string(), v.to_string())).collect(),
        principal: back_principal(&p.principal_constraint()),
        action: back_action(&p.action_constraint()),
        resource: back_resource(&p.resource_constraint()),
    }
}

fn surface_template(t: &Template) -> Surface {
    Surface {
        permit: t.effect() == cedar_policy::Effect::Permit,
        annotations: t.annotations().map(|(k, v)| (k.to_string(), v.to_string())).collect(),
        principal: back_tprincipal(&t.principal_constraint()),
        action: back_action(&t.action_constraint()),
        resource: back_tresource(&t.resource_constraint()),
    }
}

fn surface_mismatch(gp: &GPolicy, s: &Surface) -> Option<&'static str> {
    if (gp.effect == Effect::Permit) != s.permit {
        return Some("effect");
    }
    let want: BTreeMap<String, String> = gp.annotations.iter().cloned().collect();
    if want != s.annotations {
        return Some("annotations");
    }
    if pr_any(&gp.principal) != s.principal {
        return Some("principal-scope");
    }
    if norm_action(&gp.action) != s.action {
        return Some("action-scope");
    }
    if pr_any(&gp.resource) != s.resource {
        return Some("resource-scope");
    }
    None
}

// ------------------------------------------------------------------------------------------------
// evidence helpers

fn count_escapes(ctx: &mut CaseCtx, text: &str) {
    let cs: Vec<char> = text.chars().collect();
    let mut seen: Vec<String> = vec![];
    let mut i = 0;
    let mut in_comment = false;
    while i < cs.len() {
        let c = cs[i];
        if in_comment {
            if c == '\n' {
                in_comment = false;
            }
            i += 1;
            continue;
        }
        if c == '/' && i + 1 < cs.len() && cs[i + 1] == '/' {
            in_comment = true;
            i += 2;
            continue;
        }
        if c == '\\' && i + 1 < cs.len() {
            let k = match cs[i + 1] {
                'u' => "\\u{..}".to_string(),
                'x' => "\\x..".to_string(),
                d => format!("\\{}", d),
            };
            if !seen.contains(&k) {
                seen.push(k);
            }
            i += 2;
            continue;
        }
        if (c as u32) > 0x7f {
            let k = if (c as u32) > 0xffff { "raw-non-bmp" } else { "raw-non-ascii" }.to_string();
            if !seen.contains(&k) {
                seen.push(k);
            }
        }
        i += 1;
    }
    for k in seen {
        ctx.count(&format!("escape:{}", k));
    }
}

fn paren_name(p: ParenMode) -> &'static str {
    match p {
        ParenMode::Minimal => "minimal",
        ParenMode::Full => "full",
        ParenMode::Redundant => "redundant",
    }
}

fn reject_key(msg: &str) -> String {
    let first = msg.lines().next().unwrap_or("");
    // drop the concrete tokens so that classes stay few
    let mut s: String = first.chars().take(48).collect();
    if let Some(i) = s.find(|c| c == '`' || c == '@') {
        s.truncate(i);
    }
    s.trim_end().to_string()
}

/// Record a violation, but keep at most 3 witnesses per signature in the shard report so that one
/// frequent class cannot crowd the others out of the bounded list (the rest are counted).
pub fn viol(ctx: &mut CaseCtx, sig: &str, what: String, detail: serde_json::Value) {
    // a difference description `field:divergence` contributes only `field` to the signature (so that one
    // defect maps to one signature); the divergence class is kept in the detail and in a histogram
    let (sig, sub) = match sig.find(":condition:") {
        Some(i) => (&sig[..i + ":condition".len()], &sig[i + ":condition:".len()..]),
        None => (sig, ""),
    };
    let mut detail = detail;
    if !sub.is_empty() {
        detail["divergence"] = serde_json::json!(sub);
        ctx.count(&format!("divergence:{sig}:{sub}"));
    }
    // complete histogram of failure classes, independent of the bounded witness list
    ctx.count(&format!("violation_class:{sig}"));
    let have = ctx.rep.violations.iter().filter(|v| v.signature == sig && (sub.is_empty() || v.detail["divergence"] == sub)).count();
    let total = ctx.rep.violations.len();
    let per_class = if total < 12 { 3 } else { 1 };
    if have >= per_class && !ctx.verbose {
        ctx.count("violations_beyond_per_class_witness_limit");
    } else {
        ctx.violation(sig, what, detail);
    }
}

// ------------------------------------------------------------------------------------------------
// the monitor

struct Item {
    gp: GPolicy,
    r: Rendered,
}

pub fn case(ctx: &mut CaseCtx) {
    let w0 = gen::world(&mut ctx.rng);
    let uids = world_uids(&w0);
    let max_depth = if ctx.thorough() { 8 } else { 8 };

    // ---- what kind of case
    let (kind, items): (&str, Vec<Item>) = if ctx.idx < ENUM_N {
        let code = ctx.idx / 3;
        let paren = [ParenMode::Minimal, ParenMode::Full, ParenMode::Redundant][(ctx.idx % 3) as usize];
        let (e, name) = enumerated_expr(code, &mut ctx.rng, &uids);
        ctx.count("enumerated_cases");
        if ctx.verbose {
            eprintln!("enumerated {name}");
        }
        let gp = GPolicy::simple(if ctx.rng.bool() { Effect::Permit } else { Effect::Forbid }, e);
        let gp = GPolicy { conds: vec![(ctx.rng.chance(3, 4), gp.conds[0].1.clone())], ..gp };
        let r = render_policy(&gp, &mut ctx.rng, Some(paren));
        ("policy", vec![Item { gp, r }])
    } else {
        match ctx.rng.below(20) {
            0..=8 => {
                let gp = gen_policy(&mut ctx.rng, &w0, Some(false), max_depth);
                let r = render_policy(&gp, &mut ctx.rng, None);
                ("policy", vec![Item { gp, r }])
            }
            9..=12 => {
                let gp = gen_policy(&mut ctx.rng, &w0, Some(true), max_depth);
                let r = render_policy(&gp, &mut ctx.rng, None);
                ("template", vec![Item { gp, r }])
            }
            _ => {
                let n = 1 + ctx.rng.below(4);
                let mut v = vec![];
                for _ in 0..n {
                    let t = if ctx.rng.chance(1, 3) { Some(true) } else { Some(false) };
                    let gp = gen_policy(&mut ctx.rng, &w0, t, max_depth.min(6));
                    let r = render_policy(&gp, &mut ctx.rng, None);
                    v.push(Item { gp, r });
                    if ctx.rng.chance(1, 8) {
                        // an exact duplicate (same text, different position-derived id)
                        let last = v.last().unwrap();
                        let d = Item { gp: last.gp.clone(), r: last.r.clone() };
                        v.push(d);
                    }
                }
                ("policyset", v)
            }
        }
    };
    ctx.count(&format!("generated:{kind}"));

    let gps: Vec<&GPolicy> = items.iter().map(|i| &i.gp).collect();
    let ws = worlds(&mut ctx.rng, &w0, &gps, 5);
    let lws = match lib_worlds(ws) {
        Ok(x) => x,
        Err(e) => return ctx.harness_error(e),
    };

    match kind {
        "policy" => check_policy(ctx, &items[0], &lws),
        "template" => check_template(ctx, &items[0], &lws),
        _ => check_set(ctx, &items, &lws),
    }
}

fn note_accepted(ctx: &mut CaseCtx, entry: &str, items: &[&Item], text: &str) {
    ctx.count("accepted");
    ctx.count(&format!("accepted:{entry}"));
    for it in items {
        ctx.count(&format!("paren:{}", paren_name(it.r.paren)));
        ctx.count(if it.r.esc == EscMode::Random { "escmode:random" } else { "escmode:plain" });
        if it.r.noisy {
            ctx.count("noisy_whitespace");
        }
    }
    count_escapes(ctx, text);
}

fn note_rejected(ctx: &mut CaseCtx, entry: &str, msg: &str) {
    ctx.count("rejected");
    ctx.count(&format!("rejected:{entry}"));
    ctx.count(&format!("reject_reason:{}", reject_key(msg)));
    if ctx.verbose {
        eprintln!("rejected by {entry}: {msg}");
    }
}

fn expected_on(gp: &GPolicy, lw: &LibWorld, slots: &Slots) -> Outcome {
    refsem::policy_outcome(gp, &lw.w, slots)
}

/// did the scope alone let the request through (so that the conditions were evaluated at all)?
fn scope_matches(gp: &GPolicy, lw: &LibWorld, slots: &Slots) -> bool {
    let bare = GPolicy { conds: vec![], ..gp.clone() };
    refsem::policy_outcome(&bare, &lw.w, slots) == Outcome::Satisfied
}

fn check_policy(ctx: &mut CaseCtx, it: &Item, lws: &[LibWorld]) {
    let text = &it.r.text;
    let gp = &it.gp;
    let use_from_str = ctx.rng.chance(1, 4);
    let (entry, id) = if use_from_str { ("Policy::from_str", PolicyId::new("policy0")) } else { ("Policy::parse", PolicyId::new("p")) };
    let parsed = if use_from_str { Policy::from_str(text) } else { Policy::parse(Some(id.clone()), text) };
    let p1 = match parsed {
        Ok(p) => p,
        Err(e) => return note_rejected(ctx, entry, &e.to_string()),
    };
    note_accepted(ctx, entry, &[it], text);
    let detail = |route: &str, printed: &str, what: String| json!({"entry": entry, "route": route, "text": text, "printed": printed, "problem": what, "gpolicy": format!("{:?}", gp)});
    if p1.id() != &id {
        viol(ctx, "C05:policy-id", format!("{entry} gave id {} instead of {}", p1.id(), id), detail("first-parse", "", "id".into()));
    }
    let a1: &ast::Policy = p1.as_ref();
    let depth = template_depth(a1.template());
    ctx.max("ast_depth", depth as u64);

    // ---- first parse vs the intended policy: exact part
    if let Some(f) = surface_mismatch(gp, &surface_policy(&p1)) {
        viol(ctx, &format!("C05:first-parse:{f}"), format!("{entry} of `{text}`: {f} differs from what was written"), detail("first-parse", "", f.into()));
    }
    // ---- ... and the condition structurally: the same intended policy written with every
    // sub-expression parenthesised leaves the parser no precedence / associativity decision, so the
    // two parses must have the same shape
    if it.r.paren != ParenMode::Full && !gp.conds.iter().any(|(_, e)| has_neg_of_literal(e)) {
        let full = render_full(gp, &mut ctx.rng);
        match Policy::parse(Some(id.clone()), &full) {
            Ok(pf) => match diff_policy(a1, pf.as_ref()) {
                Some(f) => viol(ctx, &format!("C05:first-parse-vs-fully-parenthesised:{f}"), format!("`{text}` and the same policy fully parenthesised `{full}` parse differently: {f}"), detail("first-parse", &full, f.clone())),
                None => ctx.count("first_parse_equals_fully_parenthesised"),
            },
            Err(_) => ctx.count("fully_parenthesised_text_rejected"),
        }
    }

    // ---- printers
    let astobj = Policy::from(a1.clone());
    let mut prints: Vec<(&str, String)> = vec![("display", p1.to_string()), ("ast-display", a1.to_string()), ("astobj-display", astobj.to_string())];
    match p1.to_cedar() {
        Some(s) => prints.push(("to_cedar", s)),
        None => viol(ctx, "C05:to_cedar-none", format!("to_cedar() is None for the static policy `{text}`"), detail("to_cedar", "", "None".into())),
    }
    if let Some(s) = astobj.to_cedar() {
        prints.push(("astobj-to_cedar", s));
    }
    let mut reparsed: Vec<(&str, Policy)> = vec![];
    for (route, s) in &prints {
        ctx.count(&format!("printed:{route}"));
        match Policy::parse(Some(id.clone()), s) {
            Err(e) => viol(ctx, &format!("C05:reparse-failed:{route}"), format!("`{text}` printed by {route} as `{s}` does not parse: {e}"), detail(route, s, e.to_string())),
            Ok(p2) => {
                match diff_policy(a1, p2.as_ref()) {
                    Some(f) => viol(ctx, &format!("C05:structure:{route}:{f}"), format!("`{text}` printed by {route} as `{s}` re-parses with a different {f}"), detail(route, s, f.clone())),
                    None => ctx.count("roundtrips_identical"),
                }
                if *route == "ast-display" || *route == "astobj-display" {
                    reparsed.push((route, p2));
                }
            }
        }
    }
    // the object rebuilt from its own JSON is printed by the EST printer with the sugar intact;
    // it is judged against itself (whether it equals p1 is C06's business)
    if let Ok(j) = p1.to_json() {
        if let Ok(x) = Policy::from_json(Some(id.clone()), j) {
            let mut ps: Vec<(&str, String)> = vec![("jsonobj-display", x.to_string())];
            if let Some(s) = x.to_cedar() {
                ps.push(("jsonobj-to_cedar", s));
            }
            for (route, s) in &ps {
                ctx.count(&format!("printed:{route}"));
                match Policy::parse(Some(id.clone()), s) {
                    Err(e) => viol(ctx, &format!("C05:reparse-failed:{route}"), format!("JSON-rebuilt `{text}` printed by {route} as `{s}` does not parse: {e}"), detail(route, s, e.to_string())),
                    Ok(y) => match diff_policy(x.as_ref(), y.as_ref()) {
                        Some(f) => viol(ctx, &format!("C05:structure:{route}:{f}"), format!("JSON-rebuilt `{text}` printed by {route} as `{s}` re-parses with a different {f}"), detail(route, s, f.clone())),
                        None => {
                            ctx.count("roundtrips_identical");
                            if *route == "jsonobj-display" {
                                reparsed.push((route, y));
                            }
                        }
                    },
                }
            }
        } else {
            ctx.count("json_rebuild_failed");
        }
    } else {
        ctx.count("json_rebuild_failed");
    }

    // ---- both parses against the reference model
    for (wi, lw) in lws.iter().enumerate() {
        let exp = expected_on(gp, lw, &Slots::default());
        ctx.count(&format!("outcome:{}", exp.short()));
        ctx.count(if scope_matches(gp, lw, &Slots::default()) { "scope:match" } else { "scope:no-match" });
        match authorize_single(p1.clone(), &lw.req, &lw.ents) {
            Ok((_, o)) => {
                if !outcome_agrees(&exp, &o) {
                    let mut d = detail("first-parse", "", format!("expected {:?}, observed {:?}", exp, o));
                    d["world"] = show_world(lw);
                    viol(ctx, "C05:first-parse-vs-model", format!("`{text}` evaluates to {:?}, the reference model says {:?}", o, exp), d);
                } else {
                    ctx.count("evaluations_agreeing");
                }
            }
            Err(m) => viol(ctx, "C05:response-shape", m.clone(), detail("first-parse", "", m)),
        }
        for (route, p2) in &reparsed {
            if wi >= 2 && *route != "ast-display" {
                continue;
            }
            match authorize_single(p2.clone(), &lw.req, &lw.ents) {
                Ok((_, o)) => {
                    if !outcome_agrees(&exp, &o) {
                        let mut d = detail(route, &p2.to_string(), format!("expected {:?}, observed {:?}", exp, o));
                        d["world"] = show_world(lw);
                        viol(ctx, &format!("C05:reparse-vs-model:{route}"), format!("`{text}` re-parsed from {route} evaluates to {:?}, the reference model says {:?}", o, exp), d);
                    } else {
                        ctx.count("evaluations_agreeing");
                    }
                }
                Err(m) => viol(ctx, "C05:response-shape", m.clone(), detail(route, "", m)),
            }
        }
    }

    if depth >= 3 {
        ctx.nontrivial(text);
    }
    ctx.sample(|| json!({"entry": entry, "text": text, "ast_display": a1.to_string(), "ast_depth": depth}));
}

fn check_template(ctx: &mut CaseCtx, it: &Item, lws: &[LibWorld]) {
    let text = &it.r.text;
    let gp = &it.gp;
    let use_from_str = ctx.rng.chance(1, 4);
    let (entry, id) = if use_from_str { ("Template::from_str", PolicyId::new("policy0")) } else { ("Template::parse", PolicyId::new("t")) };
    let parsed = if use_from_str { Template::from_str(text) } else { Template::parse(Some(id.clone()), text) };
    let t1 = match parsed {
        Ok(t) => t,
        Err(e) => return note_rejected(ctx, entry, &e.to_string()),
    };
    note_accepted(ctx, entry, &[it], text);
    let detail = |route: &str, printed: &str, what: String| json!({"entry": entry, "route": route, "text": text, "printed": printed, "problem": what, "gpolicy": format!("{:?}", gp)});
    if t1.id() != &id {
        viol(ctx, "C05:policy-id", format!("{entry} gave id {} instead of {}", t1.id(), id), detail("first-parse", "", "id".into()));
    }
    let a1: &ast::Template = t1.as_ref();
    let depth = template_depth(a1);
    ctx.max("ast_depth", depth as u64);

    if let Some(f) = surface_mismatch(gp, &surface_template(&t1)) {
        viol(ctx, &format!("C05:first-parse:{f}"), format!("{entry} of `{text}`: {f} differs from what was written"), detail("first-parse", "", f.into()));
    }
    if it.r.paren != ParenMode::Full && !gp.conds.iter().any(|(_, e)| has_neg_of_literal(e)) {
        let full = render_full(gp, &mut ctx.rng);
        match Template::parse(Some(id.clone()), &full) {
            Ok(tf) => match diff_template(a1, tf.as_ref()) {
                Some(f) => viol(ctx, &format!("C05:first-parse-vs-fully-parenthesised:{f}"), format!("template `{text}` and the same template fully parenthesised `{full}` parse differently: {f}"), detail("first-parse", &full, f.clone())),
                None => ctx.count("first_parse_equals_fully_parenthesised"),
            },
            Err(_) => ctx.count("fully_parenthesised_text_rejected"),
        }
    }
    let mut want_slots: Vec<String> = vec![];
    if gp.has_slot(Slot::Principal) {
        want_slots.push("?principal".into());
    }
    if gp.has_slot(Slot::Resource) {
        want_slots.push("?resource".into());
    }
    let mut got_slots: Vec<String> = t1.slots().map(|s| s.to_string()).collect();
    got_slots.sort();
    got_slots.dedup();
    if got_slots != want_slots {
        viol(ctx, "C05:first-parse:slots", format!("{entry} of `{text}`: slots {:?}, written {:?}", got_slots, want_slots), detail("first-parse", "", "slots".into()));
    }
    ctx.count(&format!("template_slots:{}", want_slots.len()));

    let astobj = Template::from(a1.clone());
    let prints: Vec<(&str, String)> = vec![
        ("display", t1.to_string()),
        ("to_cedar", t1.to_cedar()),
        ("ast-display", a1.to_string()),
        ("astobj-display", astobj.to_string()),
        ("astobj-to_cedar", astobj.to_cedar()),
    ];
    let mut reparsed: Vec<(&str, Template)> = vec![];
    for (route, s) in &prints {
        ctx.count(&format!("printed:{route}"));
        match Template::parse(Some(id.clone()), s) {
            Err(e) => viol(ctx, &format!("C05:reparse-failed:{route}"), format!("template `{text}` printed by {route} as `{s}` does not parse: {e}"), detail(route, s, e.to_string())),
            Ok(t2) => {
                match diff_template(a1, t2.as_ref()) {
                    Some(f) => viol(ctx, &format!("C05:structure:{route}:{f}"), format!("template `{text}` printed by {route} as `{s}` re-parses with a different {f}"), detail(route, s, f.clone())),
                    None => ctx.count("roundtrips_identical"),
                }
                if *route == "ast-display" || *route == "astobj-display" {
                    reparsed.push((route, t2));
                }
            }
        }
    }
    if let Ok(j) = t1.to_json() {
        if let Ok(x) = Template::from_json(Some(id.clone()), j) {
            for (route, s) in [("jsonobj-display", x.to_string()), ("jsonobj-to_cedar", x.to_cedar())] {
                ctx.count(&format!("printed:{route}"));
                match Template::parse(Some(id.clone()), &s) {
                    Err(e) => viol(ctx, &format!("C05:reparse-failed:{route}"), format!("JSON-rebuilt template `{text}` printed by {route} as `{s}` does not parse: {e}"), detail(route, &s, e.to_string())),
                    Ok(y) => match diff_template(x.as_ref(), y.as_ref()) {
                        Some(f) => viol(ctx, &format!("C05:structure:{route}:{f}"), format!("JSON-rebuilt template `{text}` printed by {route} as `{s}` re-parses with a different {f}"), detail(route, &s, f.clone())),
                        None => {
                            ctx.count("roundtrips_identical");
                            if route == "jsonobj-display" {
                                reparsed.push((route, y));
                            }
                        }
                    },
                }
            }
        } else {
            ctx.count("json_rebuild_failed");
        }
    } else {
        ctx.count("json_rebuild_failed");
    }

    for (wi, lw) in lws.iter().enumerate() {
        let slots = slot_values(&mut ctx.rng, &lw.w, gp);
        let vals = slot_map(&slots);
        let exp = expected_on(gp, lw, &slots);
        ctx.count(&format!("outcome:{}", exp.short()));
        ctx.count(if scope_matches(gp, lw, &slots) { "scope:match" } else { "scope:no-match" });
        match authorize_template(t1.clone(), vals.clone(), &lw.req, &lw.ents) {
            Ok((_, o)) => {
                if !outcome_agrees(&exp, &o) {
                    let mut d = detail("first-parse", "", format!("expected {:?}, observed {:?}", exp, o));
                    d["world"] = show_world(lw);
                    d["slots"] = json!(format!("{:?}", slots));
                    viol(ctx, "C05:first-parse-vs-model", format!("template `{text}` linked with {:?} evaluates to {:?}, the reference model says {:?}", slots, o, exp), d);
                } else {
                    ctx.count("evaluations_agreeing");
                }
            }
            Err(m) => viol(ctx, "C05:response-shape", m.clone(), detail("first-parse", "", m)),
        }
        for (route, t2) in &reparsed {
            if wi >= 2 && *route != "ast-display" {
                continue;
            }
            match authorize_template(t2.clone(), vals.clone(), &lw.req, &lw.ents) {
                Ok((_, o)) => {
                    if !outcome_agrees(&exp, &o) {
                        let mut d = detail(route, &t2.to_string(), format!("expected {:?}, observed {:?}", exp, o));
                        d["world"] = show_world(lw);
                        d["slots"] = json!(format!("{:?}", slots));
                        viol(ctx, &format!("C05:reparse-vs-model:{route}"), format!("template `{text}` re-parsed from {route} evaluates to {:?}, the reference model says {:?}", o, exp), d);
                    } else {
                        ctx.count("evaluations_agreeing");
                    }
                }
                Err(m) => viol(ctx, "C05:response-shape", m.clone(), detail(route, "", m)),
            }
        }
    }

    if depth >= 3 {
        ctx.nontrivial(text);
    }
    ctx.sample(|| json!({"entry": entry, "text": text, "ast_display": a1.to_string(), "ast_depth": depth}));
}

/// multiset comparison of templates, ids and order excluded; returns a description of the first unmatched element
fn multiset_diff(a: &[&ast::Template], b: &[&ast::Template]) -> Option<String> {
    if a.len() != b.len() {
        return Some(format!("{} elements became {}", a.len(), b.len()));
    }
    let mut used = vec![false; b.len()];
    for x in a {
        let mut found = false;
        for (j, y) in b.iter().enumerate() {
            if !used[j] && diff_template(x, y).is_none() {
                used[j] = true;
                found = true;
                break;
            }
        }
        if !found {
            // name the closest difference for the report
            let why = b.iter().enumerate().filter(|(j, _)| !used[*j]).filter_map(|(_, y)| diff_template(x, y)).next().unwrap_or_else(|| "?".into());
            return Some(format!("`{}` has no counterpart (differs in {})", x.id(), why));
        }
    }
    None
}

fn check_set(ctx: &mut CaseCtx, items: &[Item], lws: &[LibWorld]) {
    // assemble the text
    let mut text = String::new();
    for (i, it) in items.iter().enumerate() {
        if i > 0 {
            text.push_str(*ctx.rng.pick(&["\n", "\n\n", " ", "", "\n// next\n", "\t"]));
        }
        text.push_str(&it.r.text);
    }
    let entry = "PolicySet::from_str";
    let ps1 = match PolicySet::from_str(&text) {
        Ok(p) => p,
        Err(e) => return note_rejected(ctx, entry, &e.to_string()),
    };
    let refs: Vec<&Item> = items.iter().collect();
    note_accepted(ctx, entry, &refs, &text);
    ctx.count(&format!("set_size:{}", items.len()));
    let n_templates = items.iter().filter(|i| i.gp.is_template()).count();
    let detail = |route: &str, printed: &str, what: String| json!({"entry": entry, "route": route, "text": text, "printed": printed, "problem": what});

    // ---- first parse vs the intended set: statement i gets id policy<i>
    if ps1.num_of_templates() != n_templates || ps1.num_of_policies() != items.len() - n_templates {
        viol(ctx, 
            "C05:first-parse:set-shape",
            format!("`{text}`: {} policies + {} templates written, {} + {} parsed", items.len() - n_templates, n_templates, ps1.num_of_policies(), ps1.num_of_templates()),
            detail("first-parse", "", "counts".into()),
        );
        return;
    }
    let mut depth = 0usize;
    for (i, it) in items.iter().enumerate() {
        let id = PolicyId::new(format!("policy{i}"));
        let mism = if it.gp.is_template() {
            match ps1.template(&id) {
                Some(t) => {
                    depth = depth.max(template_depth(t.as_ref()));
                    surface_mismatch(&it.gp, &surface_template(t))
                }
                None => Some("missing"),
            }
        } else {
            match ps1.policy(&id) {
                Some(p) => {
                    depth = depth.max(template_depth(AsRef::<ast::Policy>::as_ref(p).template()));
                    surface_mismatch(&it.gp, &surface_policy(p))
                }
                None => Some("missing"),
            }
        };
        if let Some(f) = mism {
            viol(ctx, &format!("C05:first-parse:{f}"), format!("{entry}: statement {i} of `{text}`: {f} differs from what was written"), detail("first-parse", "", format!("statement {i}: {f}")));
        }
    }
    ctx.max("ast_depth", depth as u64);

    // ---- printers
    let a1: &ast::PolicySet = ps1.as_ref();
    let pol1: Vec<&ast::Template> = a1.policies().map(|p| p.template()).collect();
    let tpl1: Vec<&ast::Template> = a1.templates().collect();
    let ast_print = {
        let mut parts: Vec<String> = a1.policies().map(|p| p.to_string()).collect();
        parts.extend(a1.templates().map(|t| t.to_string()));
        parts.join("\n")
    };
    let mut prints: Vec<(&str, String)> = vec![("display", ps1.to_string()), ("ast-display", ast_print)];
    match ps1.to_cedar() {
        Some(s) => prints.push(("to_cedar", s)),
        None => viol(ctx, "C05:to_cedar-none", format!("to_cedar() is None for the link-free set `{text}`"), detail("to_cedar", "", "None".into())),
    }
    let mut reparsed: Vec<(&str, PolicySet)> = vec![];
    for (route, s) in &prints {
        ctx.count(&format!("printed:set-{route}"));
        match PolicySet::from_str(s) {
            Err(e) => viol(ctx, &format!("C05:reparse-failed:set-{route}"), format!("set `{text}` printed by {route} as `{s}` does not parse: {e}"), detail(route, s, e.to_string())),
            Ok(ps2) => {
                let a2: &ast::PolicySet = ps2.as_ref();
                let pol2: Vec<&ast::Template> = a2.policies().map(|p| p.template()).collect();
                let tpl2: Vec<&ast::Template> = a2.templates().collect();
                let mut ok = true;
                if let Some(why) = multiset_diff(&pol1, &pol2) {
                    ok = false;
                    viol(ctx, &format!("C05:set-structure:{route}:policies"), format!("set `{text}` printed by {route} as `{s}`: static policies differ: {why}"), detail(route, s, why));
                }
                if *route == "display" && !tpl1.is_empty() && tpl2.is_empty() {
                    // `impl Display for PolicySet` prints the policies only; `to_cedar()` prints both
                    ok = false;
                    viol(ctx, "C05:policyset-display-omits-templates", format!("set `{text}` printed by Display as `{s}`: the {} template(s) are not printed at all", tpl1.len()), detail(route, s, "templates omitted".into()));
                } else if let Some(why) = multiset_diff(&tpl1, &tpl2) {
                    ok = false;
                    viol(ctx, &format!("C05:set-structure:{route}:templates"), format!("set `{text}` printed by {route} as `{s}`: templates differ: {why}"), detail(route, s, why));
                }
                if ok {
                    ctx.count("roundtrips_identical");
                    reparsed.push((route, ps2));
                }
            }
        }
    }

    // ---- evaluation: the first parse exactly (ids known), the re-parses up to ids
    for lw in lws.iter() {
        let model: Vec<(String, Effect, Outcome)> = items
            .iter()
            .enumerate()
            .filter(|(_, it)| !it.gp.is_template())
            .map(|(i, it)| (format!("policy{i}"), it.gp.effect, expected_on(&it.gp, lw, &Slots::default())))
            .collect();
        let m = refsem::authorize_model(&model);
        let resp = Authorizer::new().is_authorized(&lw.req, &ps1, &lw.ents);
        let mut reasons: Vec<String> = resp.diagnostics().reason().map(|r| r.to_string()).collect();
        reasons.sort();
        let mut errs: Vec<String> = resp
            .diagnostics()
            .errors()
            .map(|e| {
                let cedar_policy::AuthorizationError::PolicyEvaluationError(pe) = e;
                pe.policy_id().to_string()
            })
            .collect();
        errs.sort();
        let allow = resp.decision() == Decision::Allow;
        ctx.count(if m.allow { "set_decision:allow" } else { "set_decision:deny" });
        if allow != m.allow || reasons != m.reasons || errs != m.errors {
            let mut d = detail("first-parse", "", format!("expected {:?}, observed allow={} reasons={:?} errors={:?}", m, allow, reasons, errs));
            d["world"] = show_world(lw);
            viol(ctx, "C05:first-parse-vs-model", format!("set `{text}`: response allow={allow} reasons={reasons:?} errors={errs:?}, the reference model says {m:?}"), d);
        } else {
            ctx.count("evaluations_agreeing");
        }
        for (route, ps2) in &reparsed {
            let r2 = Authorizer::new().is_authorized(&lw.req, ps2, &lw.ents);
            let allow2 = r2.decision() == Decision::Allow;
            let nr = r2.diagnostics().reason().count();
            let ne = r2.diagnostics().errors().count();
            if allow2 != m.allow || nr != m.reasons.len() || ne != m.errors.len() {
                let mut d = detail(route, &ps2.to_string(), format!("expected {:?}, observed allow={} #reasons={} #errors={}", m, allow2, nr, ne));
                d["world"] = show_world(lw);
                viol(ctx, &format!("C05:reparse-vs-model:set-{route}"), format!("set `{text}` re-parsed from {route}: allow={allow2} #reasons={nr} #errors={ne}, the reference model says {m:?}"), d);
            } else {
                ctx.count("evaluations_agreeing");
            }
        }
    }

    if depth >= 3 {
        ctx.nontrivial(&text);
    }
    ctx.sample(|| json!({"entry": entry, "text": text, "policies": items.len() - n_templates, "templates": n_templates, "ast_depth": depth}));
}
