//! C14 — type-aware partial evaluation (TPE) and permission queries are sound.
//!
//! Per case: generated schema + 1..4 strictly valid type-directed policies; then a few
//! times: a concrete conformant world W, a partial request / partial entity store
//! obtained from W by *erasure* (principal id, resource id, context; per entity attrs /
//! ancestors / tags, or the whole entity), and completions = W plus 4..10
//! re-randomisations of exactly the erased parts.  The concrete authorizer on each
//! completion is the oracle for
//!   (1) a definite `TpeResponse::decision()`,
//!   (2) the outcome class (satisfied / not satisfied / error) of every residual policy,
//!   (3) the views `policies()`, `policy_set()`, `get_policy(id)`, `residual_policies()`
//!       presenting the same residual per id,
//!   (4) `reauthorize(completion)`,
//!   (5) `query_resource`, `query_principal`, `query_action`.
//!
//! Consistency of a completion with the partial inputs holds by construction (see
//! `gen_erasure`: an entity whose ancestors stay known only has ancestors whose ancestors
//! stay known, nothing that is known is ever re-randomised, every entity of the partial
//! store exists in every completion) and is cross-checked by the library's own
//! `check_consistency` inside `reauthorize`; a refusal there is a harness error.

use crate::bridge;
use crate::model::*;
use crate::monitors::c03::{entities_with_schema, load_schema};
use crate::monitors::common::{authorize_single, PolObs};
use crate::pools;
use crate::render::{self, TextOpts};
use crate::report::CaseCtx;
use crate::rng::{hash_str, Rng};
use crate::schema::*;
use cedar_policy::{
    ActionQueryRequest, Authorizer, Decision, Entities, EntityUid, PartialEntities, PartialEntity, PartialEntityUid, PartialRequest, Policy,
    PolicyId, PolicySet, PrincipalQueryRequest, Request, ResourceQueryRequest, Response, RestrictedExpression, Schema, TpeResponse,
    ValidationMode, Validator,
};
use cedar_policy_core::ast;
use serde_json::{json, Map, Value as J};
use smol_str::SmolStr;
use std::collections::{BTreeMap, BTreeSet, HashSet};

/// The one finding that is known on the unchanged tree (DESIGN.md §6 item 2).
const SIG_POLICY_SET_ORIGINAL: &str = "C14:view:policy_set-returns-original";

// ===================================================================== reporting helper

/// Count every violation by signature (the report keeps only the first few records), and
/// keep at most a handful of *records* of the one known signature per shard run so that
/// it cannot crowd every other finding out of the report.  (Only the number of stored
/// duplicates depends on earlier cases; what a case generates and checks does not, and a
/// single-case replay always records it.)
fn viol(ctx: &mut CaseCtx, sig: &str, what: String, detail: J) {
    ctx.count(&format!("violation:{sig}"));
    if sig == SIG_POLICY_SET_ORIGINAL && ctx.rep.violations.iter().filter(|v| v.signature == sig).count() >= 4 {
        ctx.count("known-signature-duplicates-not-recorded");
        return;
    }
    ctx.violation(sig, what, detail);
}

// ===================================================================== policies

struct Pol {
    id: PolicyId,
    text: String,
    policy: Policy,
    effect: Effect,
}

fn fold_guards(guards: Vec<GExpr>, body: GExpr) -> GExpr {
    let mut e = body;
    for g in guards.into_iter().rev() {
        e = GExpr::and(g, e);
    }
    e
}

/// A boolean operand that can raise an evaluation error on a conformant world although it
/// validates strictly: arithmetic that can overflow, or attribute access (the entity may
/// have no record).
fn error_capable(g: &mut TypedGen) -> GExpr {
    if g.rng.bool() {
        let d = g.rng.below(3);
        return g.bool_expr(d);
    }
    let mut guards = vec![];
    let a = g.of_type(&GType::Long, 1, &mut guards);
    let b = g.of_type(&GType::Long, 0, &mut guards);
    let c = g.of_type(&GType::Long, 0, &mut guards);
    let op = *g.rng.pick(&[BinOp::Add, BinOp::Sub, BinOp::Mul]);
    let cmp = *g.rng.pick(&[BinOp::Le, BinOp::Lt, BinOp::Eq, BinOp::Ge]);
    fold_guards(guards, GExpr::bin(cmp, GExpr::bin(op, a, b), c))
}

/// something that is a constant `want` for the partial evaluator, without always being a literal
fn const_bool(g: &mut TypedGen, want: bool) -> GExpr {
    match g.rng.below(4) {
        0 => GExpr::bin(BinOp::Lt, GExpr::Long(if want { 0 } else { 1 }), GExpr::Long(if want { 1 } else { 0 })),
        1 => GExpr::bin(if want { BinOp::Eq } else { BinOp::Neq }, GExpr::Var(Var::Action), GExpr::Ent(g.env.action.clone())),
        _ => GExpr::Bool(want),
    }
}

/// the shapes the property's "why tests can't" names explicitly
fn hard_cond(g: &mut TypedGen) -> GExpr {
    let var = if g.rng.bool() { Var::Principal } else { Var::Resource };
    let var_ty = match var {
        Var::Principal => g.env.principal_ty.clone(),
        _ => g.env.resource_ty.clone(),
    };
    match g.rng.below(8) {
        0 | 1 => {
            // <error-capable> && false
            let x = error_capable(g);
            let f = const_bool(g, false);
            GExpr::and(x, f)
        }
        2 | 3 => {
            // <error-capable> || true
            let x = error_capable(g);
            let t = const_bool(g, true);
            GExpr::or(x, t)
        }
        4 => {
            // `in` against literals (ancestors may be unknown)
            let names: Vec<String> = g.schema.entity_types.iter().map(|e| e.name.clone()).collect();
            let cands: Vec<String> = names.iter().filter(|t| **t == var_ty || g.schema.type_can_descend(&var_ty, t)).cloned().collect();
            let t = if cands.is_empty() || g.rng.chance(1, 5) { g.rng.pick_clone(&names) } else { g.rng.pick_clone(&cands) };
            let mut guards = vec![];
            let rhs = if g.rng.bool() { g.of_type(&GType::Ent(t), 0, &mut guards) } else { g.of_type(&GType::Set(Box::new(GType::Ent(t))), 1, &mut guards) };
            fold_guards(guards, GExpr::bin(BinOp::In, GExpr::Var(var), rhs))
        }
        5 => {
            // tags of principal / resource (tag map unknown vs known-and-empty)
            let tagged = g.schema.entity_type(&var_ty).map(|e| e.tags.is_some()).unwrap_or(false);
            if tagged {
                let k = g.rng.pick(&TAG_KEYS).to_string();
                let has = GExpr::bin(BinOp::HasTag, GExpr::Var(var), GExpr::Str(k));
                if g.rng.bool() {
                    GExpr::Not(has.b())
                } else {
                    has
                }
            } else {
                g.bool_expr(1)
            }
        }
        6 => {
            // `is` on a (possibly unknown) principal / resource
            let names: Vec<String> = g.schema.entity_types.iter().map(|e| e.name.clone()).collect();
            let t = if g.rng.bool() { var_ty.clone() } else { g.rng.pick_clone(&names) };
            GExpr::Is(GExpr::Var(var).b(), t, None)
        }
        _ => {
            // if <unknown-dependent> then <error-capable> else <bool>
            let c = g.bool_expr(1);
            let a = error_capable(g);
            let b = g.bool_expr(0);
            GExpr::ite(c, a, b)
        }
    }
}

fn gen_policy(rng: &mut Rng, gs: &GSchema, env: &Env, wg: &WorldGen) -> GPolicy {
    let mut g = TypedGen::new(rng, gs, env, &wg.pools);
    let depth = 1 + g.rng.below(3);
    let mut p = typed_policy(&mut g, depth);
    if g.rng.chance(1, 2) {
        let h = hard_cond(&mut g);
        let is_when = g.rng.chance(3, 4);
        match g.rng.below(4) {
            0 if !p.conds.is_empty() => {
                // combine with an existing clause
                let (w0, c0) = p.conds[0].clone();
                let comb = if g.rng.bool() { GExpr::or(h, c0) } else { GExpr::and(h, c0) };
                p.conds[0] = (w0, comb);
            }
            1 => p.conds.insert(0, (is_when, h)),
            2 => p.conds = vec![(is_when, h)],
            _ => p.conds.push((is_when, h)),
        }
    }
    if g.rng.chance(1, 3) {
        for _ in 0..1 + g.rng.below(2) {
            let k = g.rng.pick(&["id", "a", "note", "in"]).to_string();
            if !p.annotations.iter().any(|(x, _)| *x == k) {
                let v = pools::string(g.rng);
                p.annotations.push((k, v));
            }
        }
    }
    p
}

// ===================================================================== erasure

#[derive(Clone, Debug, Default, PartialEq, Eq)]
struct EntErase {
    attrs: bool,
    ancestors: bool,
    tags: bool,
    missing: bool,
}

#[derive(Clone, Copy, Debug, PartialEq, Eq)]
enum Route {
    FromConcrete,
    PartialEntities,
    Json,
}

#[derive(Clone, Debug)]
struct Erasure {
    principal: bool,
    resource: bool,
    context: bool,
    /// non-action entities with a record in W
    ents: BTreeMap<Uid, EntErase>,
    /// known ancestor sets are handed over transitively closed (else: direct parents only)
    full_tc: bool,
    route: Route,
}

fn gen_erasure(rng: &mut Rng, w: &GWorld, actions: &BTreeSet<Uid>) -> Erasure {
    let mode = rng.below(10); // 0: request only, 1: entities only, else both
    let (principal, resource, context) = if mode == 1 { (false, false, false) } else { (rng.bool(), rng.bool(), rng.bool()) };
    let mut ents: BTreeMap<Uid, EntErase> = BTreeMap::new();
    for u in w.entities.keys() {
        if actions.contains(u) {
            continue;
        }
        let mut e = EntErase::default();
        if mode != 0 {
            match rng.below(20) {
                0..=6 => {}
                7..=9 => e.missing = true,
                _ => {
                    e.attrs = rng.bool();
                    e.ancestors = rng.chance(1, 3);
                    e.tags = rng.bool();
                }
            }
        }
        ents.insert(u.clone(), e);
    }
    // "an ancestor's ancestors are known": whoever has an ancestor whose ancestors are
    // unknown (or which is left out altogether) has unknown ancestors too
    let open: Vec<Uid> = ents.iter().filter(|(_, e)| e.missing || e.ancestors).map(|(u, _)| u.clone()).collect();
    for (u, e) in ents.iter_mut() {
        if e.missing || e.ancestors {
            continue;
        }
        let anc = w.ancestors(u);
        if open.iter().any(|o| anc.contains(o)) {
            e.ancestors = true;
        }
    }
    let untouched = ents.values().all(|e| *e == EntErase::default());
    let route = if untouched && rng.bool() {
        Route::FromConcrete
    } else if rng.chance(1, 4) && render::world_json_representable(w) {
        Route::Json
    } else {
        Route::PartialEntities
    };
    Erasure { principal, resource, context, ents, full_tc: rng.bool(), route }
}

fn rmap(m: &BTreeMap<String, GValue>) -> BTreeMap<SmolStr, RestrictedExpression> {
    m.iter().map(|(k, v)| (SmolStr::new(k), bridge::rexpr(v))).collect()
}

fn known_ancestors(w: &GWorld, u: &Uid, full_tc: bool) -> BTreeSet<Uid> {
    if full_tc {
        w.ancestors(u)
    } else {
        w.entities.get(u).map(|e| e.parents.clone()).unwrap_or_default()
    }
}

/// the partial entity store in the library's JSON format (absent field = unknown)
fn partial_entities_json(w: &GWorld, er: &Erasure) -> J {
    let mut out = vec![];
    for (u, ee) in &er.ents {
        if ee.missing {
            continue;
        }
        let e = &w.entities[u];
        let mut m = Map::new();
        m.insert("uid".into(), render::uid_json(u));
        if !ee.attrs {
            m.insert("attrs".into(), J::Object(e.attrs.iter().map(|(k, v)| (k.clone(), render::value_json(v))).collect()));
        }
        if !ee.ancestors {
            m.insert("parents".into(), J::Array(known_ancestors(w, u, er.full_tc).iter().map(render::uid_json).collect()));
        }
        if !ee.tags {
            m.insert("tags".into(), J::Object(e.tags.iter().map(|(k, v)| (k.clone(), render::value_json(v))).collect()));
        }
        out.push(J::Object(m));
    }
    J::Array(out)
}

fn build_partial_entities(w: &GWorld, er: &Erasure, concrete: &Entities, schema: &Schema) -> Result<PartialEntities, String> {
    match er.route {
        Route::FromConcrete => PartialEntities::from_concrete(concrete.clone(), schema).map_err(|e| format!("from_concrete: {}", bridge::err_chain(&e))),
        Route::Json => PartialEntities::from_json_value(partial_entities_json(w, er), schema).map_err(|e| format!("from_json_value: {}", bridge::err_chain(&e))),
        Route::PartialEntities => {
            let mut list = vec![];
            for (u, ee) in &er.ents {
                if ee.missing {
                    continue;
                }
                let e = &w.entities[u];
                let attrs = if ee.attrs { None } else { Some(rmap(&e.attrs)) };
                let ancestors: Option<HashSet<EntityUid>> = if ee.ancestors { None } else { Some(known_ancestors(w, u, er.full_tc).iter().map(bridge::uid).collect()) };
                let tags = if ee.tags { None } else { Some(rmap(&e.tags)) };
                list.push(PartialEntity::new(bridge::uid(u), attrs, ancestors, tags, schema).map_err(|e| format!("PartialEntity::new({:?}): {}", u, bridge::err_chain(&e)))?);
            }
            PartialEntities::from_partial_entities(list, schema).map_err(|e| format!("from_partial_entities: {}", bridge::err_chain(&e)))
        }
    }
}

fn partial_uid(u: &Uid, erased: bool) -> PartialEntityUid {
    if erased {
        PartialEntityUid::new(bridge::type_name(&u.ty), None)
    } else {
        PartialEntityUid::from_concrete(bridge::uid(u))
    }
}

fn build_partial_request(w: &GWorld, er: &Erasure, schema: &Schema) -> Result<PartialRequest, String> {
    let ctx = if er.context { None } else { Some(bridge::context(w)?) };
    PartialRequest::new(partial_uid(&w.principal, er.principal), bridge::uid(&w.action), partial_uid(&w.resource, er.resource), ctx, schema)
        .map_err(|e| format!("PartialRequest::new: {}", bridge::err_chain(&e)))
}

// ===================================================================== completions

/// positions such that every edge of W goes from a lower to a higher position
fn topo_positions(rng: &mut Rng, w: &GWorld, wg: &WorldGen) -> BTreeMap<Uid, usize> {
    let mut all: Vec<Uid> = wg.pools.values().flatten().cloned().collect();
    for (u, e) in &w.entities {
        all.push(u.clone());
        all.extend(e.parents.iter().cloned());
    }
    all.sort();
    all.dedup();
    rng.shuffle(&mut all);
    let mut post: Vec<Uid> = vec![];
    let mut seen: BTreeSet<Uid> = BTreeSet::new();
    fn visit(u: &Uid, w: &GWorld, seen: &mut BTreeSet<Uid>, post: &mut Vec<Uid>) {
        if !seen.insert(u.clone()) {
            return;
        }
        if let Some(e) = w.entities.get(u) {
            for p in &e.parents {
                visit(p, w, seen, post);
            }
        }
        post.push(u.clone());
    }
    for u in &all {
        visit(u, w, &mut seen, &mut post);
    }
    let n = post.len();
    post.into_iter().enumerate().map(|(i, u)| (u, n - i)).collect()
}

fn pick_uid(rng: &mut Rng, wg: &WorldGen, ty: &str) -> Uid {
    let pool = wg.pools.get(ty).cloned().unwrap_or_default();
    let is_enum = wg.schema.entity_type(ty).map(|e| e.enum_ids.is_some()).unwrap_or(false);
    if pool.is_empty() || (!is_enum && rng.chance(1, 10)) {
        Uid::new(ty, "zz-unknown")
    } else {
        rng.pick_clone(&pool)
    }
}

fn gen_tags(rng: &mut Rng, wg: &WorldGen, et: &GEntityType) -> BTreeMap<String, GValue> {
    let mut m = BTreeMap::new();
    if let Some(tt) = &et.tags {
        for _ in 0..rng.below(3) {
            m.insert(rng.pick(&["k", "t", ""]).to_string(), wg.value_of_type(rng, tt, 2));
        }
    }
    m
}

fn gen_parents(rng: &mut Rng, wg: &WorldGen, et: &GEntityType, u: &Uid, pos: &BTreeMap<Uid, usize>) -> BTreeSet<Uid> {
    let mut out = BTreeSet::new();
    let me = pos.get(u).copied().unwrap_or(0);
    for m in &et.member_of {
        for cand in wg.pools.get(m).into_iter().flatten() {
            if pos.get(cand).copied().unwrap_or(0) > me && rng.chance(2, 5) {
                out.insert(cand.clone());
            }
        }
    }
    out
}

/// W with exactly the erased parts drawn afresh (each one is sometimes left as it was)
fn complete(rng: &mut Rng, wg: &WorldGen, gs: &GSchema, ctx_attrs: &[GAttr], w: &GWorld, er: &Erasure, pos: &BTreeMap<Uid, usize>) -> GWorld {
    let mut c = w.clone();
    if er.principal && rng.chance(4, 5) {
        c.principal = pick_uid(rng, wg, &w.principal.ty);
    }
    if er.resource && rng.chance(4, 5) {
        c.resource = pick_uid(rng, wg, &w.resource.ty);
    }
    if er.context && rng.chance(4, 5) {
        c.context = wg.record_of(rng, ctx_attrs, 3);
    }
    for (u, ee) in &er.ents {
        let et = match gs.entity_type(&u.ty) {
            Some(t) => t,
            None => continue,
        };
        if et.enum_ids.is_some() {
            // nothing to draw: an enumerated entity has no attributes, parents or tags
            if ee.missing && rng.chance(1, 3) {
                c.entities.remove(u);
            }
            continue;
        }
        if ee.missing {
            match rng.below(5) {
                0 => {}
                1 => {
                    c.entities.remove(u);
                }
                _ => {
                    let e = GEntity { parents: gen_parents(rng, wg, et, u, pos), attrs: wg.record_of(rng, &et.attrs, 3), tags: gen_tags(rng, wg, et) };
                    c.entities.insert(u.clone(), e);
                }
            }
            continue;
        }
        if ee.attrs && rng.chance(4, 5) {
            let a = wg.record_of(rng, &et.attrs, 3);
            c.entities.get_mut(u).expect("present").attrs = a;
        }
        if ee.tags && rng.chance(4, 5) {
            let t = gen_tags(rng, wg, et);
            c.entities.get_mut(u).expect("present").tags = t;
        }
        if ee.ancestors && rng.chance(4, 5) {
            let p = gen_parents(rng, wg, et, u, pos);
            c.entities.get_mut(u).expect("present").parents = p;
        }
    }
    c
}

// ===================================================================== observations

#[derive(Clone, Copy, Debug, PartialEq, Eq)]
enum Cls {
    Sat,
    Not,
    Err,
}

impl Cls {
    fn name(self) -> &'static str {
        match self {
            Cls::Sat => "satisfied",
            Cls::Not => "not-satisfied",
            Cls::Err => "error",
        }
    }
}

fn cls(o: &PolObs) -> Cls {
    match o {
        PolObs::Satisfied => Cls::Sat,
        PolObs::NotSatisfied => Cls::Not,
        PolObs::Error(_) => Cls::Err,
    }
}

fn dec_name(d: Decision) -> &'static str {
    match d {
        Decision::Allow => "allow",
        Decision::Deny => "deny",
    }
}

fn opt_dec_name(d: Option<Decision>) -> &'static str {
    match d {
        Some(d) => dec_name(d),
        None => "none",
    }
}

fn resp_sets(r: &Response) -> (Decision, BTreeSet<String>, BTreeSet<String>) {
    let reasons = r.diagnostics().reason().map(|i| i.to_string()).collect();
    let errs = r
        .diagnostics()
        .errors()
        .map(|e| {
            let cedar_policy::AuthorizationError::PolicyEvaluationError(pe) = e;
            pe.policy_id().to_string()
        })
        .collect();
    (r.decision(), reasons, errs)
}

/// structural comparison of two presentations of a policy: id, effect, annotations, condition
fn same_policy(a: &Policy, b: &Policy) -> Result<(), &'static str> {
    if a.id() != b.id() {
        return Err("id");
    }
    if a.effect() != b.effect() {
        return Err("effect");
    }
    let an = |p: &Policy| -> BTreeMap<String, String> { p.annotations().map(|(k, v)| (k.to_string(), v.to_string())).collect() };
    if an(a) != an(b) {
        return Err("annotations");
    }
    let ca = AsRef::<ast::Policy>::as_ref(a).condition();
    let cb = AsRef::<ast::Policy>::as_ref(b).condition();
    if !ca.eq_shape(&cb) {
        return Err("condition");
    }
    Ok(())
}

fn ids_of<'a>(it: impl Iterator<Item = &'a PolicyId>) -> BTreeSet<String> {
    it.map(|i| i.to_string()).collect()
}

/// is the residual "just true, false or an error"?
fn trivial_kind(p: &Policy) -> Option<&'static str> {
    let core: &ast::Policy = p.as_ref();
    match core.non_scope_constraints().map(|e| e.expr_kind()) {
        Some(ast::ExprKind::Lit(ast::Literal::Bool(true))) => Some("true"),
        Some(ast::ExprKind::Lit(ast::Literal::Bool(false))) => Some("false"),
        Some(ast::ExprKind::ExtensionFunctionApp { fn_name, args }) if fn_name.to_string() == "error" && args.is_empty() => Some("error"),
        _ => None,
    }
}

struct Completion {
    world: GWorld,
    req: Request,
    ents: Entities,
}

fn make_completion(ctx: &mut CaseCtx, world: GWorld, gs: &GSchema, schema: &Schema) -> Option<Completion> {
    let req = match bridge::request(&world, Some(schema)) {
        Ok(r) => r,
        Err(e) => {
            ctx.count("completion_rejected:request");
            if ctx.verbose {
                eprintln!("completion request rejected: {e}");
            }
            return None;
        }
    };
    let ents = match entities_with_schema(&world, gs, schema) {
        Ok(e) => e,
        Err(e) => {
            ctx.count("completion_rejected:entities");
            if ctx.verbose {
                eprintln!("completion entities rejected: {e}");
            }
            return None;
        }
    };
    Some(Completion { world, req, ents })
}

fn world_json(w: &GWorld) -> J {
    json!({
        "principal": render::uid_json(&w.principal),
        "action": render::uid_json(&w.action),
        "resource": render::uid_json(&w.resource),
        "context": render::context_json(w),
        "entities": render::entities_json(w),
    })
}

// ===================================================================== the case

struct Setup<'a> {
    gs: &'a GSchema,
    schema: &'a Schema,
    env: &'a Env,
    wg: &'a WorldGen<'a>,
    pols: &'a [Pol],
    pset: &'a PolicySet,
    actions: BTreeSet<Uid>,
    schema_text: String,
    /// hash of (schema, policies)
    prefix: u64,
}

pub fn case(ctx: &mut CaseCtx) {
    let gs = gen_schema(&mut ctx.rng, &SchemaOpts::default());
    let schema = match load_schema(ctx, &gs) {
        Some(s) => s,
        None => return,
    };
    let envs = gs.envs();
    if envs.is_empty() {
        ctx.count("no_envs");
        return;
    }
    let env = ctx.rng.pick_clone(&envs);
    let wg = WorldGen::new(&mut ctx.rng, &gs);

    // ---- 1..4 strictly valid policies (each is validated on its own; rejected ones are dropped)
    let validator = Validator::new(schema.clone());
    let want = 1 + ctx.rng.below(4);
    let id_pool = ["p0", "p1", "policy2", "", "a b", "P\"3"];
    let mut pols: Vec<Pol> = vec![];
    let mut gpols: Vec<GPolicy> = vec![];
    let mut attempts = 0;
    while pols.len() < want && attempts < 10 {
        attempts += 1;
        // mostly written for the request's environment; sometimes for another one (then it is
        // irrelevant to this request, but matters to `query_action`)
        let penv = if ctx.rng.chance(3, 4) { env.clone() } else { ctx.rng.pick_clone(&envs) };
        let gp = gen_policy(&mut ctx.rng, &gs, &penv, &wg);
        let text = render::policy_text(&gp, &mut TextOpts::plain(&mut ctx.rng));
        let id = PolicyId::new(id_pool[pols.len()]);
        let policy = match Policy::parse(Some(id.clone()), &text) {
            Ok(p) => p,
            Err(e) => {
                ctx.harness_error(format!("typed policy does not parse: {text}: {e}"));
                continue;
            }
        };
        let mut single = PolicySet::new();
        single.add(policy.clone()).expect("add");
        if !validator.validate(&single, ValidationMode::Strict).validation_passed() {
            ctx.count("policy:rejected-by-strict-validation");
            continue;
        }
        ctx.count("policy:accepted");
        pols.push(Pol { id, text, policy, effect: gp.effect });
        gpols.push(gp);
    }
    if pols.is_empty() {
        ctx.count("no_valid_policy");
        return;
    }
    let mut pset = PolicySet::new();
    for p in &pols {
        pset.add(p.policy.clone()).expect("add");
    }
    if !validator.validate(&pset, ValidationMode::Strict).validation_passed() {
        // each member was accepted alone
        ctx.harness_error("policy set rejected although every member validates".into());
        return;
    }
    ctx.count(&format!("policies_per_set:{}", pols.len()));

    let st = PrintStyle { unqualified: false, loose_json: false };
    let setup = Setup {
        gs: &gs,
        schema: &schema,
        env: &env,
        wg: &wg,
        pols: &pols,
        pset: &pset,
        actions: gs.actions.iter().map(|a| a.uid()).collect(),
        schema_text: gs.to_cedar(&st),
        prefix: hash_str(&format!("{:?}|{:?}", gs, gpols)),
    };
    let n_partials = if ctx.thorough() { 4 } else { 3 };
    for _ in 0..n_partials {
        one_partial(ctx, &setup);
    }
}

fn one_partial(ctx: &mut CaseCtx, s: &Setup) {
    let (gs, schema, env, wg) = (s.gs, s.schema, s.env, s.wg);
    let w = wg.world(&mut ctx.rng, env);
    let base = match make_completion(ctx, w.clone(), gs, schema) {
        Some(c) => c,
        None => return,
    };
    let er = gen_erasure(&mut ctx.rng, &w, &s.actions);
    let pos = topo_positions(&mut ctx.rng, &w, wg);

    // ---- partial inputs
    let preq = match build_partial_request(&w, &er, schema) {
        Ok(r) => r,
        Err(e) => return ctx.harness_error(format!("partial request refused: {e}")),
    };
    let pents = match build_partial_entities(&w, &er, &base.ents, schema) {
        Ok(p) => p,
        Err(e) => return ctx.harness_error(format!("partial entities refused ({:?}): {e} :: {}", er.route, partial_entities_json(&w, &er))),
    };
    ctx.count("partials");
    for (f, k) in [(er.principal, "principal-id"), (er.resource, "resource-id"), (er.context, "context")] {
        if f {
            ctx.count(&format!("erase:{k}"));
        }
    }
    let mut any_ent = false;
    for ee in er.ents.values() {
        for (f, k) in [(ee.missing, "entity-missing"), (ee.attrs && !ee.missing, "entity-attrs"), (ee.ancestors && !ee.missing, "entity-ancestors"), (ee.tags && !ee.missing, "entity-tags")] {
            if f {
                any_ent = true;
                ctx.count(&format!("erase:{k}"));
            }
        }
    }
    if !(er.principal || er.resource || er.context || any_ent) {
        ctx.count("erase:nothing");
    }
    ctx.count(&format!("route:{:?}", er.route));
    ctx.count(if er.full_tc { "known-ancestors-given:transitively-closed" } else { "known-ancestors-given:direct-parents" });

    let partial_json = json!({
        "principal": {"type": w.principal.ty, "id": if er.principal { J::Null } else { json!(w.principal.id) }},
        "action": render::uid_json(&w.action),
        "resource": {"type": w.resource.ty, "id": if er.resource { J::Null } else { json!(w.resource.id) }},
        "context": if er.context { J::Null } else { render::context_json(&w) },
        "entities (absent field = unknown)": partial_entities_json(&w, &er),
        "route": format!("{:?}", er.route),
    });
    let pol_texts: Vec<J> = s.pols.iter().map(|p| json!({"id": p.id.to_string(), "text": p.text})).collect();
    let detail = |extra: J| json!({"schema": s.schema_text, "policies": pol_texts, "partial": partial_json, "extra": extra});

    // ---- TPE
    let resp: TpeResponse = match s.pset.tpe(&preq, &pents, schema) {
        Ok(r) => r,
        Err(e) => {
            ctx.count("tpe_error");
            return ctx.harness_error(format!("tpe refused validated inputs: {} :: {}", bridge::err_chain(&e), detail(json!({}))));
        }
    };
    let tpe_dec = resp.decision();
    ctx.count(&format!("tpe_decision:{}", opt_dec_name(tpe_dec)));

    // ---- (3) views
    let all: Vec<Policy> = resp.policies().collect();
    let by_id: BTreeMap<String, &Policy> = all.iter().map(|p| (p.id().to_string(), p)).collect();
    let input_ids: BTreeSet<String> = s.pols.iter().map(|p| p.id.to_string()).collect();
    if all.len() != by_id.len() || by_id.keys().cloned().collect::<BTreeSet<_>>() != input_ids {
        viol(ctx, "C14:view:policies-ids", format!("policies() ids {:?} != input ids {:?}", all.iter().map(|p| p.id().to_string()).collect::<Vec<_>>(), input_ids), detail(json!({})));
        return;
    }
    let show = |p: &Policy| p.to_string();
    for p in s.pols {
        let ids = p.id.to_string();
        let r = by_id[&ids];
        // policies() itself: id / effect / annotations inherited from the input policy
        let an = |p: &Policy| -> BTreeMap<String, String> { p.annotations().map(|(k, v)| (k.to_string(), v.to_string())).collect() };
        ctx.count("view_cmp:policies-vs-input(effect,annotations)");
        if r.effect() != p.policy.effect() || an(r) != an(&p.policy) {
            viol(ctx, "C14:view:policies-effect-or-annotations", format!("residual of {:?} does not inherit effect/annotations: {}", ids, show(r)), detail(json!({"residual": show(r)})));
        }
        // get_policy(id)
        ctx.count("view_cmp:get_policy");
        match resp.get_policy(&p.id) {
            None => viol(ctx, "C14:view:get_policy-none", format!("get_policy({:?}) is None", ids), detail(json!({}))),
            Some(g) => {
                if let Err(what) = same_policy(&g, r) {
                    viol(ctx, &format!("C14:view:get_policy-differs:{what}"), format!("get_policy({:?}) = `{}` but policies() has `{}`", ids, show(&g), show(r)), detail(json!({"get_policy": show(&g), "policies": show(r)})));
                }
            }
        }
    }
    if resp.get_policy(&PolicyId::new("no-such-policy")).is_some() {
        viol(ctx, "C14:view:get_policy-unknown-id", "get_policy of an id that is not in the set is Some".into(), detail(json!({})));
    }
    // residual_policies(): exactly the non-trivial ones, each the same as in policies()
    let nontrivial_ids: BTreeSet<String> = all.iter().filter(|p| trivial_kind(p).is_none()).map(|p| p.id().to_string()).collect();
    let rp: Vec<Policy> = resp.residual_policies().collect();
    let rp_ids: BTreeSet<String> = rp.iter().map(|p| p.id().to_string()).collect();
    ctx.count("view_cmp:residual_policies-partition");
    if rp.len() != rp_ids.len() || rp_ids != nontrivial_ids {
        viol(ctx, "C14:view:residual_policies-partition", format!("residual_policies() has ids {:?}, the non-trivial residuals of policies() are {:?}", rp_ids, nontrivial_ids), detail(json!({"policies": all.iter().map(show).collect::<Vec<_>>()})));
    }
    for g in &rp {
        ctx.count("view_cmp:residual_policies");
        if let Some(r) = by_id.get(&g.id().to_string()) {
            if let Err(what) = same_policy(g, r) {
                viol(ctx, &format!("C14:view:residual_policies-differs:{what}"), format!("residual_policies() has `{}` but policies() has `{}`", show(g), show(r)), detail(json!({"residual_policies": show(g), "policies": show(r)})));
            }
        }
    }
    // the id classes agree with the residuals shown
    {
        let classes: [(&str, Effect, Option<&str>, BTreeSet<String>); 8] = [
            ("true_permits", Effect::Permit, Some("true"), ids_of(resp.true_permits())),
            ("false_permits", Effect::Permit, Some("false"), ids_of(resp.false_permits())),
            ("error_permits", Effect::Permit, Some("error"), ids_of(resp.error_permits())),
            ("residual_permits", Effect::Permit, None, ids_of(resp.residual_permits())),
            ("true_forbids", Effect::Forbid, Some("true"), ids_of(resp.true_forbids())),
            ("false_forbids", Effect::Forbid, Some("false"), ids_of(resp.false_forbids())),
            ("error_forbids", Effect::Forbid, Some("error"), ids_of(resp.error_forbids())),
            ("residual_forbids", Effect::Forbid, None, ids_of(resp.residual_forbids())),
        ];
        for (name, eff, kind, got) in &classes {
            let expect: BTreeSet<String> = s.pols.iter().filter(|p| p.effect == *eff && trivial_kind(by_id[&p.id.to_string()]) == *kind).map(|p| p.id.to_string()).collect();
            ctx.count("view_cmp:id-classes");
            if *got != expect {
                viol(ctx, &format!("C14:view:id-class:{name}"), format!("{name}() = {:?} but the residuals shown by policies() put {:?} there", got, expect), detail(json!({"policies": all.iter().map(show).collect::<Vec<_>>()})));
            }
        }
    }
    // policy_set()
    let ps = resp.policy_set();
    ctx.count("view_cmp:policy_set-size");
    if ps.num_of_policies() != all.len() || ps.num_of_templates() != 0 {
        viol(ctx, "C14:view:policy_set-size", format!("policy_set() has {} policies / {} templates, policies() has {}", ps.num_of_policies(), ps.num_of_templates(), all.len()), detail(json!({})));
    }
    let mut known_reported = false;
    for p in s.pols {
        let ids = p.id.to_string();
        let r = by_id[&ids];
        ctx.count("view_cmp:policy_set");
        match ps.policy(&p.id) {
            None => viol(ctx, "C14:view:policy_set-missing-id", format!("policy_set() has no policy {:?}", ids), detail(json!({}))),
            Some(q) => {
                if let Err(what) = same_policy(q, r) {
                    if same_policy(q, &p.policy).is_ok() {
                        ctx.count("policy_set-entry-is-the-input-policy");
                        if !known_reported {
                            known_reported = true;
                            viol(
                                ctx,
                                SIG_POLICY_SET_ORIGINAL,
                                format!("policy_set() presents the input policy `{}` for id {:?} where policies()/get_policy() present the residual `{}`", show(q), ids, show(r)),
                                detail(json!({"policy_set": show(q), "policies": show(r), "differs_in": what})),
                            );
                        }
                    } else {
                        viol(ctx, &format!("C14:view:policy_set-differs:{what}"), format!("policy_set() has `{}` for id {:?} but policies() has `{}`", show(q), ids, show(r)), detail(json!({"policy_set": show(q), "policies": show(r)})));
                    }
                }
            }
        }
    }

    let n_nontrivial_residuals = rp.len();
    ctx.add("residuals:non-trivial", n_nontrivial_residuals as u64);
    ctx.add("residuals:trivial", (all.len() - n_nontrivial_residuals) as u64);
    for p in &all {
        ctx.count(&format!("residual_kind:{}", trivial_kind(p).unwrap_or("non-trivial")));
        if trivial_kind(p).is_none() {
            // which of the delicate shapes survive into residuals (textual, evidence only)
            let t = p.to_string();
            for (needle, name) in [("&& false", "kept-`&& false`"), ("|| true", "kept-`|| true`"), ("error()", "contains-error-node"), (" in ", "in"), ("hasTag(", "hasTag"), ("getTag(", "getTag"), (" is ", "is"), ("if ", "if"), (" has ", "has")] {
                if t.contains(needle) {
                    ctx.count(&format!("residual_shape:{name}"));
                }
            }
        }
    }

    // ---- completions: W and 4..10 re-randomisations of the erased parts
    let n_extra = 4 + ctx.rng.below(7);
    let mut comps: Vec<Completion> = vec![base];
    for _ in 0..n_extra {
        let cw = complete(&mut ctx.rng, wg, gs, &env.context, &w, &er, &pos);
        if let Some(c) = make_completion(ctx, cw, gs, schema) {
            comps.push(c);
        }
    }
    let auth = Authorizer::new();
    let residual_pols: Vec<(&Pol, &Policy)> = s.pols.iter().map(|p| (p, by_id[&p.id.to_string()])).collect();
    let partial_hash = hash_str(&format!("{:x}|{:?}|{:?}", s.prefix, w, er));
    for (ci, c) in comps.iter().enumerate() {
        ctx.count("pairs");
        let cdetail = |extra: J| {
            let mut d = detail(extra);
            d["completion"] = world_json(&c.world);
            d["completion_is_W"] = json!(ci == 0);
            d
        };
        let concrete = auth.is_authorized(&c.req, s.pset, &c.ents);
        let (cd, creasons, cerrs) = resp_sets(&concrete);
        ctx.count(&format!("concrete_decision:{}", dec_name(cd)));
        ctx.count(&format!("cell:tpe={}|concrete={}", opt_dec_name(tpe_dec), dec_name(cd)));
        // (1) definite decision
        if let Some(d) = tpe_dec {
            ctx.count("definite-decision-checks");
            if d != cd {
                viol(ctx, &format!("C14:decision:tpe-{}-concrete-{}", dec_name(d), dec_name(cd)), format!("tpe decided {:?} but a consistent completion is decided {:?}", d, cd), cdetail(json!({"tpe": dec_name(d), "concrete": dec_name(cd), "reasons": creasons, "errors": cerrs})));
            }
        }
        // (2) each residual behaves like its original
        for (p, r) in &residual_pols {
            let orig = match authorize_single(p.policy.clone(), &c.req, &c.ents) {
                Ok((_, o)) => cls(&o),
                Err(e) => {
                    ctx.harness_error(format!("single-policy authorization (original): {e}"));
                    continue;
                }
            };
            let res = match authorize_single((*r).clone(), &c.req, &c.ents) {
                Ok((_, o)) => cls(&o),
                Err(e) => {
                    ctx.harness_error(format!("single-policy authorization (residual): {e}"));
                    continue;
                }
            };
            ctx.count("residual-vs-original-checks");
            ctx.count(&format!("cell:residual={}|original={}", trivial_kind(r).unwrap_or("non-trivial"), orig.name()));
            if orig != res {
                viol(
                    ctx,
                    &format!("C14:residual:original-{}-residual-{}", orig.name(), res.name()),
                    format!("policy {:?} `{}` is {} on a consistent completion but its residual `{}` is {}", p.id.to_string(), p.text, orig.name(), r, res.name()),
                    cdetail(json!({"id": p.id.to_string(), "original": orig.name(), "residual": res.name(), "residual_policy": r.to_string()})),
                );
            }
        }
        // (4) reauthorize
        match resp.reauthorize(&c.req, &c.ents) {
            Err(e) => {
                ctx.count("reauthorize:refused");
                ctx.harness_error(format!("reauthorize refused a completion that is consistent by construction: {} :: {}", bridge::err_chain(&e), cdetail(json!({}))));
            }
            Ok(r) => {
                ctx.count("reauthorize-checks");
                let got = resp_sets(&r);
                if got != (cd, creasons.clone(), cerrs.clone()) {
                    let what = if got.0 != cd {
                        "decision"
                    } else if got.1 != creasons {
                        "reasons"
                    } else {
                        "errors"
                    };
                    viol(ctx, &format!("C14:reauthorize:{what}"), format!("reauthorize gives ({:?}, reasons {:?}, errors {:?}); concrete authorization gives ({:?}, {:?}, {:?})", got.0, got.1, got.2, cd, creasons, cerrs), cdetail(json!({})));
                }
            }
        }
        if n_nontrivial_residuals >= 1 {
            ctx.count("pairs_nontrivial");
            ctx.nontrivial(&format!("{:x}|{:?}", partial_hash, c.world));
        }
    }
    ctx.max("completions_per_partial", comps.len() as u64);

    // ---- (5) permission queries
    query_entities(ctx, s, &w, &comps[0], true, &detail);
    query_entities(ctx, s, &w, &comps[0], false, &detail);
    query_actions(ctx, s, &w, &er, &comps, &pents, &detail);

    ctx.sample(|| {
        json!({
            "schema": s.schema_text, "policies": pol_texts, "partial": partial_json,
            "tpe_decision": opt_dec_name(tpe_dec),
            "residuals": all.iter().map(|p| p.to_string()).collect::<Vec<_>>(),
            "completions": comps.len(),
        })
    });
}

/// `query_resource` (`for_resource`) / `query_principal`: exactly the store's entities of the
/// asked type for which the concrete request is allowed
fn query_entities(ctx: &mut CaseCtx, s: &Setup, w: &GWorld, base: &Completion, for_resource: bool, detail: &dyn Fn(J) -> J) {
    let name = if for_resource { "query_resource" } else { "query_principal" };
    let context = match bridge::context(w) {
        Ok(c) => c,
        Err(e) => return ctx.harness_error(format!("context: {e}")),
    };
    let ty = if for_resource { &w.resource.ty } else { &w.principal.ty };
    let got: Vec<EntityUid> = if for_resource {
        let q = match ResourceQueryRequest::new(bridge::uid(&w.principal), bridge::uid(&w.action), bridge::type_name(ty), context, s.schema) {
            Ok(q) => q,
            Err(e) => return ctx.harness_error(format!("ResourceQueryRequest::new: {}", bridge::err_chain(&e))),
        };
        match s.pset.query_resource(&q, &base.ents, s.schema) {
            Ok(it) => it.collect(),
            Err(e) => {
                ctx.count(&format!("{name}:error"));
                return ctx.harness_error(format!("{name} refused validated inputs: {}", bridge::err_chain(&e)));
            }
        }
    } else {
        let q = match PrincipalQueryRequest::new(bridge::type_name(ty), bridge::uid(&w.action), bridge::uid(&w.resource), context, s.schema) {
            Ok(q) => q,
            Err(e) => return ctx.harness_error(format!("PrincipalQueryRequest::new: {}", bridge::err_chain(&e))),
        };
        match s.pset.query_principal(&q, &base.ents, s.schema) {
            Ok(it) => it.collect(),
            Err(e) => {
                ctx.count(&format!("{name}:error"));
                return ctx.harness_error(format!("{name} refused validated inputs: {}", bridge::err_chain(&e)));
            }
        }
    };
    let got_set: BTreeSet<Uid> = got.iter().map(bridge::uid_back).collect();
    // oracle: every candidate of the store, one concrete authorization each
    let auth = Authorizer::new();
    let mut candidates = 0u64;
    let mut expect: BTreeSet<Uid> = BTreeSet::new();
    for u in w.entities.keys().filter(|u| &u.ty == ty) {
        let mut cw = w.clone();
        if for_resource {
            cw.resource = u.clone();
        } else {
            cw.principal = u.clone();
        }
        let req = match bridge::request(&cw, Some(s.schema)) {
            Ok(r) => r,
            Err(e) => {
                ctx.harness_error(format!("{name}: candidate request refused: {e}"));
                continue;
            }
        };
        candidates += 1;
        if auth.is_authorized(&req, s.pset, &base.ents).decision() == Decision::Allow {
            expect.insert(u.clone());
        }
    }
    ctx.count(&format!("{name}:calls"));
    ctx.add(&format!("{name}:candidates"), candidates);
    ctx.add(&format!("{name}:returned"), got.len() as u64);
    ctx.max(&format!("{name}:returned"), got.len() as u64);
    ctx.count(&format!("{name}:size:{}", got.len().min(4)));
    if got.len() != got_set.len() {
        viol(ctx, &format!("C14:{name}:duplicate"), format!("{name} returned an entity twice: {:?}", got_set), detail(json!({"world": world_json(w)})));
    }
    if got_set != expect {
        let extra: Vec<&Uid> = got_set.difference(&expect).collect();
        let missing: Vec<&Uid> = expect.difference(&got_set).collect();
        let sig = if !extra.is_empty() { "returns-denied-or-foreign-entity" } else { "omits-allowed-entity" };
        viol(ctx, &format!("C14:{name}:{sig}"), format!("{name} returned {:?}; concretely allowed candidates are {:?}", got_set, expect), detail(json!({"world": world_json(w), "extra": format!("{:?}", extra), "missing": format!("{:?}", missing)})));
    }
}

/// `query_action` for the partial request without its action: never omits an action that some
/// consistent completion allows, never says `Some(Allow)` for one that some completion denies
fn query_actions(ctx: &mut CaseCtx, s: &Setup, w: &GWorld, er: &Erasure, comps: &[Completion], pents: &PartialEntities, detail: &dyn Fn(J) -> J) {
    let context = if er.context {
        None
    } else {
        match bridge::context(w) {
            Ok(c) => Some(c),
            Err(e) => return ctx.harness_error(format!("context: {e}")),
        }
    };
    let q = match ActionQueryRequest::new(partial_uid(&w.principal, er.principal), partial_uid(&w.resource, er.resource), context, s.schema.clone()) {
        Ok(q) => q,
        Err(e) => return ctx.harness_error(format!("ActionQueryRequest::new: {}", bridge::err_chain(&e))),
    };
    let got: Vec<(Uid, Option<Decision>)> = match s.pset.query_action(&q, pents) {
        Ok(it) => it.map(|(a, d)| (bridge::uid_back(a), d)).collect(),
        Err(e) => {
            ctx.count("query_action:error");
            return ctx.harness_error(format!("query_action refused validated inputs: {}", bridge::err_chain(&e)));
        }
    };
    ctx.count("query_action:calls");
    ctx.add("query_action:returned", got.len() as u64);
    ctx.max("query_action:returned", got.len() as u64);
    for (_, d) in &got {
        ctx.count(&format!("query_action:label:{}", opt_dec_name(*d)));
    }
    let got_map: BTreeMap<Uid, Option<Decision>> = got.iter().cloned().collect();
    if got_map.len() != got.len() {
        viol(ctx, "C14:query_action:duplicate", format!("query_action returned an action twice: {:?}", got), detail(json!({})));
    }
    let auth = Authorizer::new();
    for a in &s.gs.actions {
        let ap = match &a.applies {
            Some(ap) if ap.principals.contains(&w.principal.ty) && ap.resources.contains(&w.resource.ty) => ap,
            _ => continue,
        };
        let auid = a.uid();
        ctx.count("query_action:applicable-actions");
        let label = got_map.get(&auid);
        let mut judged = 0;
        for c in comps {
            let mut cw = c.world.clone();
            cw.action = auid.clone();
            if er.context && auid != w.action {
                // the context is unknown: any context valid for *this* action completes it
                cw.context = s.wg.record_of(&mut ctx.rng, &ap.context, 3);
            }
            // (a known context that does not fit this action's declaration makes the request
            // invalid; such a completion does not count)
            let req = match bridge::request(&cw, Some(s.schema)) {
                Ok(r) => r,
                Err(_) => {
                    ctx.count("query_action:completion-invalid-for-action");
                    continue;
                }
            };
            judged += 1;
            let d = auth.is_authorized(&req, s.pset, &c.ents).decision();
            ctx.count(&format!("cell:query_action={}|concrete={}", label.map(|l| opt_dec_name(*l)).unwrap_or("omitted"), dec_name(d)));
            match (label, d) {
                (None, Decision::Allow) => {
                    viol(ctx, "C14:query_action:omits-allowed-action", format!("query_action omits {:?} although a consistent completion is allowed", auid), detail(json!({"action": format!("{:?}", auid), "returned": format!("{:?}", got), "completion": world_json(&cw)})));
                    break;
                }
                (Some(Some(Decision::Allow)), Decision::Deny) => {
                    viol(ctx, "C14:query_action:definitely-allowed-but-denied", format!("query_action labels {:?} Some(Allow) although a consistent completion is denied", auid), detail(json!({"action": format!("{:?}", auid), "returned": format!("{:?}", got), "completion": world_json(&cw)})));
                    break;
                }
                _ => {}
            }
        }
        ctx.add("query_action:completions-judged", judged);
    }
}
