//! C19 — JSON/FFI, stateful cache and CLI front ends give exactly the API answers.
//! The harness assembles the equivalent Rust API calls itself (the documented way)
//! and compares decision / reasons / erroring ids / validation errors / documents;
//! a two-map model shadows the preparse caches; the CLI is run as a subprocess.

use super::c03::load_schema;
use super::c10::{entities_json_typed, value_json_typed};
use crate::bridge;
use crate::model::*;
use crate::render::{self, TextOpts};
use crate::report::CaseCtx;
use crate::rng::Rng;
use crate::schema::*;
use cedar_policy::ffi;
use cedar_policy::{Authorizer, Context, Decision, Entities, Policy, PolicyId, PolicySet, Request, Schema, SchemaFragment, SlotId, Template, ValidationMode, Validator};
use serde_json::{json, Map, Value as J};
use std::collections::{BTreeMap, BTreeSet, HashMap};
use std::str::FromStr;

#[derive(Clone, Debug)]
struct PolSpec {
    id: String,
    text: String,
    est: J,
    as_json: bool,
}

#[derive(Clone, Debug)]
struct CallSpec {
    schema_model: GSchema,
    schema_form: Option<J>, // string (Cedar) or object (JSON)
    validate_request: bool,
    /// leave `validateRequest` out of the call document (only when it is true: the documented default)
    omit_validate_flag: bool,
    statics: Vec<PolSpec>,
    concatenated: bool,
    template: Option<(PolSpec, String, Option<Uid>, Option<Uid>)>, // (template, link id, ?principal, ?resource)
    world: GWorld,
    entities_json: J,
    context_json: J,
}

fn policies_json(c: &CallSpec) -> J {
    let statics = if c.concatenated {
        J::String(c.statics.iter().map(|p| p.text.clone()).collect::<Vec<_>>().join("\n"))
    } else {
        let mut m = Map::new();
        for p in &c.statics {
            m.insert(p.id.clone(), if p.as_json { p.est.clone() } else { J::String(p.text.clone()) });
        }
        J::Object(m)
    };
    let mut o = Map::new();
    o.insert("staticPolicies".into(), statics);
    if let Some((t, link_id, sp, sr)) = &c.template {
        let mut tm = Map::new();
        tm.insert(t.id.clone(), if t.as_json { t.est.clone() } else { J::String(t.text.clone()) });
        o.insert("templates".into(), J::Object(tm));
        let mut vals = Map::new();
        if let Some(u) = sp {
            vals.insert("?principal".into(), render::uid_json(u));
        }
        if let Some(u) = sr {
            vals.insert("?resource".into(), render::uid_json(u));
        }
        o.insert("templateLinks".into(), json!([{"templateId": t.id, "newId": link_id, "values": vals}]));
    }
    J::Object(o)
}

fn call_json(c: &CallSpec) -> J {
    let mut o = Map::new();
    o.insert("principal".into(), render::uid_json(&c.world.principal));
    o.insert("action".into(), render::uid_json(&c.world.action));
    o.insert("resource".into(), render::uid_json(&c.world.resource));
    o.insert("context".into(), c.context_json.clone());
    if let Some(s) = &c.schema_form {
        o.insert("schema".into(), s.clone());
    }
    if !(c.validate_request && c.omit_validate_flag) {
        o.insert("validateRequest".into(), json!(c.validate_request));
    }
    o.insert("policies".into(), policies_json(c));
    o.insert("entities".into(), c.entities_json.clone());
    J::Object(o)
}

/// What the Rust API says for the same inputs, assembled the documented way.
#[derive(Clone, Debug, PartialEq, Eq)]
enum Expected {
    Failure,
    Success { allow: bool, reasons: BTreeSet<String>, errors: BTreeSet<String> },
}

fn api_policy_set(c: &CallSpec) -> Result<PolicySet, String> {
    let mut ps = if c.concatenated {
        let p = PolicySet::from_str(&c.statics.iter().map(|p| p.text.clone()).collect::<Vec<_>>().join("\n")).map_err(|e| e.to_string())?;
        if p.templates().count() > 0 {
            return Err("template in static set".into());
        }
        p
    } else {
        let mut ps = PolicySet::new();
        for p in &c.statics {
            let pol = if p.as_json { Policy::from_json(Some(PolicyId::new(&p.id)), p.est.clone()).map_err(|e| e.to_string())? } else { Policy::parse(Some(PolicyId::new(&p.id)), &p.text).map_err(|e| e.to_string())? };
            ps.add(pol).map_err(|e| e.to_string())?;
        }
        ps
    };
    if let Some((t, link_id, sp, sr)) = &c.template {
        let tpl = if t.as_json { Template::from_json(Some(PolicyId::new(&t.id)), t.est.clone()).map_err(|e| e.to_string())? } else { Template::parse(Some(PolicyId::new(&t.id)), &t.text).map_err(|e| e.to_string())? };
        ps.add_template(tpl).map_err(|e| e.to_string())?;
        let mut vals = HashMap::new();
        if let Some(u) = sp {
            vals.insert(SlotId::principal(), bridge::uid(u));
        }
        if let Some(u) = sr {
            vals.insert(SlotId::resource(), bridge::uid(u));
        }
        ps.link(PolicyId::new(&t.id), PolicyId::new(link_id), vals).map_err(|e| e.to_string())?;
    }
    Ok(ps)
}

fn api_schema(form: &Option<J>) -> Result<Option<Schema>, String> {
    match form {
        None => Ok(None),
        Some(J::String(s)) => Schema::from_cedarschema_str(s).map(|(s, _)| Some(s)).map_err(|e| e.to_string()),
        Some(j) => Schema::from_json_value(j.clone()).map(Some).map_err(|e| e.to_string()),
    }
}

fn api_answer(c: &CallSpec) -> Expected {
    let r = (|| -> Result<Expected, String> {
        let schema = api_schema(&c.schema_form)?;
        let action = bridge::uid(&c.world.action);
        let cx = Context::from_json_value(c.context_json.clone(), schema.as_ref().map(|s| (s, &action))).map_err(|e| e.to_string())?;
        let req = Request::new(bridge::uid(&c.world.principal), action.clone(), bridge::uid(&c.world.resource), cx, if c.validate_request { schema.as_ref() } else { None }).map_err(|e| e.to_string())?;
        let ents = Entities::from_json_value(c.entities_json.clone(), schema.as_ref()).map_err(|e| e.to_string())?;
        let ps = api_policy_set(c)?;
        let resp = Authorizer::new().is_authorized(&req, &ps, &ents);
        Ok(Expected::Success {
            allow: resp.decision() == Decision::Allow,
            reasons: resp.diagnostics().reason().map(|p| AsRef::<str>::as_ref(p).to_string()).collect(),
            errors: resp
                .diagnostics()
                .errors()
                .map(|e| {
                    let cedar_policy::AuthorizationError::PolicyEvaluationError(pe) = e;
                    AsRef::<str>::as_ref(pe.policy_id()).to_string()
                })
                .collect(),
        })
    })();
    r.unwrap_or(Expected::Failure)
}

fn observed_from_answer(ans: &J) -> Result<Expected, String> {
    match ans.get("type").and_then(|t| t.as_str()) {
        Some("failure") => Ok(Expected::Failure),
        Some("success") => {
            let r = &ans["response"];
            let strs = |v: &J| -> BTreeSet<String> { v.as_array().map(|a| a.iter().filter_map(|x| x.as_str().map(|s| s.to_string())).collect()).unwrap_or_default() };
            Ok(Expected::Success {
                allow: r["decision"] == json!("allow"),
                reasons: strs(&r["diagnostics"]["reason"]),
                errors: r["diagnostics"]["errors"].as_array().map(|a| a.iter().filter_map(|x| x["policyId"].as_str().map(|s| s.to_string())).collect()).unwrap_or_default(),
            })
        }
        _ => Err(format!("unexpected answer shape: {ans}")),
    }
}

fn make_call(ctx: &mut CaseCtx, id_prefix: &str) -> Option<CallSpec> {
    let gs = gen_schema(&mut ctx.rng, &SchemaOpts::default());
    make_call_for(ctx, id_prefix, gs)
}

fn make_call_for(ctx: &mut CaseCtx, id_prefix: &str, gs: GSchema) -> Option<CallSpec> {
    load_schema(ctx, &gs)?;
    let envs = gs.envs();
    if envs.is_empty() {
        return None;
    }
    let env = ctx.rng.pick_clone(&envs);
    let wg = WorldGen::new(&mut ctx.rng, &gs);
    let mut w = wg.world(&mut ctx.rng, &env);
    // sometimes a non-conformant request, so that validateRequest matters: an undeclared context attribute
    // (refused by schema-based context parsing already) or a principal of a type the action does not apply to
    // (refused by request validation only)
    match ctx.rng.below(8) {
        0 => {
            w.context.insert("zz_undeclared".into(), GValue::Long(1));
        }
        1 | 2 => {
            let allowed: Vec<String> = gs.actions.iter().find(|a| a.uid() == env.action).and_then(|a| a.applies.as_ref()).map(|ap| ap.principals.clone()).unwrap_or_default();
            let others: Vec<&GEntityType> = gs.entity_types.iter().filter(|e| !allowed.contains(&e.name)).collect();
            if !others.is_empty() {
                let et = *ctx.rng.pick(&others);
                let id = et.enum_ids.as_ref().map(|i| i[0].clone()).unwrap_or_else(|| "a".into());
                w.principal = Uid::new(&et.name, id);
                ctx.count("request:principal-type-not-applicable");
            }
        }
        _ => {}
    }
    let with_schema = ctx.rng.chance(2, 3);
    let schema_form = if with_schema {
        Some(if ctx.rng.bool() { J::String(gs.to_cedar(&PrintStyle { unqualified: ctx.rng.bool(), loose_json: false })) } else { gs.to_json(&PrintStyle { unqualified: false, loose_json: ctx.rng.bool() }) })
    } else {
        None
    };
    let n = 1 + ctx.rng.below(3);
    let concatenated = ctx.rng.bool();
    let mut statics = vec![];
    for i in 0..n {
        let pol = {
            let mut g = TypedGen::new(&mut ctx.rng, &gs, &env, &wg.pools);
            if g.rng.chance(1, 6) {
                g.mistype = 10; // evaluation errors / validation errors
            }
            let mut p = typed_policy(&mut g, 2);
            if g.rng.chance(1, 3) {
                p.principal = ScopePR::Any;
                p.resource = ScopePR::Any;
                p.conds.truncate(1);
            }
            p
        };
        let text = render::policy_text(&pol, &mut TextOpts::plain(&mut ctx.rng));
        let id = if concatenated { format!("policy{i}") } else { format!("{id_prefix}{}", ["p", "q q", "policy0"][i]) };
        statics.push(PolSpec { id, text, est: render::est_policy(&pol), as_json: !concatenated && ctx.rng.chance(1, 3) });
    }
    let template = if ctx.rng.chance(1, 3) {
        let mut g = TypedGen::new(&mut ctx.rng, &gs, &env, &wg.pools);
        let mut p = typed_policy(&mut g, 1);
        p.principal = ScopePR::Eq(EntOrSlot::Slot);
        p.resource = if g.rng.bool() { ScopePR::In(EntOrSlot::Slot) } else { ScopePR::Any };
        let text = render::policy_text(&p, &mut TextOpts::plain(&mut Rng::new(1)));
        let sp = Some(if ctx.rng.bool() { w.principal.clone() } else { Uid::new(&env.principal_ty, "other") });
        let sr = if p.has_slot(Slot::Resource) { Some(w.resource.clone()) } else { None };
        // occasionally a broken link (missing binding) => failure on both sides
        let sp = if ctx.rng.chance(1, 10) { None } else { sp };
        Some((PolSpec { id: format!("{id_prefix}tmpl"), text, est: render::est_policy(&p), as_json: ctx.rng.chance(1, 3) }, format!("{id_prefix}link"), sp, sr))
    } else {
        None
    };
    let acts: Vec<Uid> = gs.actions.iter().map(|a| a.uid()).collect();
    let mut used = 0u64;
    let implicit = if with_schema { *ctx.rng.pick(&[0u32, 50, 100]) } else { 0 };
    // with a schema the action entities come from the schema; without one they are part of the data
    let skip: Vec<Uid> = if with_schema { acts.clone() } else { vec![] };
    let entities_json = entities_json_typed(&mut ctx.rng, &gs, &w, implicit, &skip, &mut used);
    let context_json = value_json_typed(&mut ctx.rng, &gs, &GValue::Rec(w.context.clone()), &GType::Rec(env.context.clone()), implicit, &mut used);
    Some(CallSpec { schema_model: gs, schema_form, validate_request: ctx.rng.chance(2, 3), omit_validate_flag: ctx.rng.bool(), statics, concatenated, template, world: w, entities_json, context_json })
}

fn check_authorization(ctx: &mut CaseCtx) {
    let c = match make_call(ctx, "") {
        Some(c) => c,
        None => return,
    };
    let call = call_json(&c);
    let expected = api_answer(&c);
    let ans = match ffi::is_authorized_json(call.clone()) {
        Ok(a) => a,
        Err(e) => return ctx.violation("C19:is_authorized_json:rejects-call", format!("is_authorized_json refuses a well-formed call: {e}"), json!({"call": call})),
    };
    let observed = match observed_from_answer(&ans) {
        Ok(o) => o,
        Err(m) => return ctx.violation("C19:is_authorized_json:answer-shape", m, json!({"call": call, "answer": ans})),
    };
    ctx.count(&format!("authz:{}:{}", if c.schema_form.is_some() { "schema" } else { "no-schema" }, match &expected {
        Expected::Failure => "failure",
        Expected::Success { allow: true, .. } => "allow",
        _ => "deny",
    }));
    ctx.count(&format!("shape:policies={},template={},schema={}", if c.concatenated { "string" } else { "map" }, c.template.is_some(), match &c.schema_form { None => "none", Some(J::String(_)) => "cedar", _ => "json" }));
    if observed != expected {
        ctx.violation("C19:is_authorized_json-vs-api", format!("is_authorized_json answers {:?} but the Rust API answers {:?}", observed, expected), json!({"call": call, "answer": ans}));
    }
    // the string entry point tells the same story
    if let Ok(s) = ffi::is_authorized_json_str(&call.to_string()) {
        if let Ok(j) = serde_json::from_str::<J>(&s) {
            if observed_from_answer(&j).ok() != Some(observed.clone()) {
                ctx.violation("C19:is_authorized_json_str-vs-json", "string and value entry points disagree".into(), json!({"call": call}));
            }
        }
    }
    if c.statics.len() >= 1 {
        ctx.nontrivial(&format!("authz|{}", call));
    }
    ctx.sample(|| json!({"kind": "is_authorized_json", "call": call, "expected": format!("{:?}", expected)}));
}

fn check_validate_and_friends(ctx: &mut CaseCtx) {
    let c = match make_call(ctx, "") {
        Some(c) => c,
        None => return,
    };
    let schema_form = c.schema_form.clone().unwrap_or_else(|| c.schema_model.to_json(&PrintStyle { unqualified: false, loose_json: false }));
    // ---- validate_json
    let mode = if ctx.rng.bool() { "strict" } else { "permissive" };
    let vcall = json!({"validationSettings": {"mode": mode}, "schema": schema_form, "policies": policies_json(&c)});
    let expected: Result<BTreeSet<String>, ()> = (|| {
        let schema = api_schema(&Some(schema_form.clone())).map_err(|_| ())?.ok_or(())?;
        let ps = api_policy_set(&c).map_err(|_| ())?;
        let r = Validator::new(schema).validate(&ps, if mode == "strict" { ValidationMode::Strict } else { ValidationMode::Permissive });
        Ok(r.validation_errors().map(|e| format!("{}|{}", AsRef::<str>::as_ref(e.policy_id()), e)).collect())
    })();
    match ffi::validate_json(vcall.clone()) {
        Ok(ans) => {
            let observed: Result<BTreeSet<String>, ()> = match ans["type"].as_str() {
                Some("success") => Ok(ans["validationErrors"].as_array().map(|a| a.iter().map(|e| format!("{}|{}", e["policyId"].as_str().unwrap_or("?"), e["error"]["message"].as_str().unwrap_or("?"))).collect()).unwrap_or_default()),
                _ => Err(()),
            };
            ctx.count(&format!("validate:{}", match &expected { Err(_) => "failure", Ok(s) if s.is_empty() => "valid", _ => "invalid" }));
            if observed != expected {
                ctx.violation("C19:validate_json-vs-api", format!("validate_json reports {:?} but Validator::validate reports {:?}", observed, expected), json!({"call": vcall, "answer": ans}));
            }
        }
        Err(e) => ctx.violation("C19:validate_json:rejects-call", format!("validate_json refuses a well-formed call: {e}"), json!({"call": vcall})),
    }
    // ---- format_json
    let text = c.statics.iter().map(|p| p.text.clone()).collect::<Vec<_>>().join("\n");
    let (lw, iw) = (*ctx.rng.pick(&[20usize, 40, 80, 120]), *ctx.rng.pick(&[0isize, 2, 4]));
    let fcall = json!({"policyText": text, "lineWidth": lw, "indentWidth": iw});
    let expected = cedar_policy_formatter::policies_str_to_pretty(&text, &cedar_policy_formatter::Config { line_width: lw, indent_width: iw }).ok();
    match ffi::format_json(fcall.clone()) {
        Ok(ans) => {
            let observed = if ans["type"] == json!("success") { ans["formatted_policy"].as_str().map(|s| s.to_string()) } else { None };
            ctx.count("format");
            if observed != expected {
                ctx.violation("C19:format_json-vs-api", "format_json and policies_str_to_pretty disagree".into(), json!({"call": fcall, "answer": ans, "expected": expected}));
            }
        }
        Err(e) => ctx.violation("C19:format_json:rejects-call", format!("{e}"), json!({"call": fcall})),
    }
    // ---- check_parse_*
    let ps_ok = api_policy_set(&c).is_ok();
    if let Ok(ans) = ffi::check_parse_policy_set_json(policies_json(&c)) {
        ctx.count("check_parse:policy_set");
        if (ans["type"] == json!("success")) != ps_ok {
            ctx.violation("C19:check_parse_policy_set-vs-api", format!("check_parse_policy_set says {} but the API parse is ok={}", ans["type"], ps_ok), json!({"policies": policies_json(&c)}));
        }
    }
    let sch_ok = api_schema(&Some(schema_form.clone())).is_ok();
    if let Ok(ans) = ffi::check_parse_schema_json(schema_form.clone()) {
        ctx.count("check_parse:schema");
        if (ans["type"] == json!("success")) != sch_ok {
            ctx.violation("C19:check_parse_schema-vs-api", format!("check_parse_schema says {} but the API parse is ok={}", ans["type"], sch_ok), json!({"schema": schema_form}));
        }
    }
    {
        let ecall = json!({"entities": c.entities_json, "schema": c.schema_form});
        let schema = api_schema(&c.schema_form).ok().flatten();
        let ok = Entities::from_json_value(c.entities_json.clone(), schema.as_ref()).is_ok();
        match ffi::check_parse_entities_json(ecall.clone()) {
            Ok(ans) => {
                ctx.count("check_parse:entities");
                if (ans["type"] == json!("success")) != ok {
                    ctx.violation("C19:check_parse_entities-vs-api", format!("check_parse_entities says {} but the API parse is ok={}", ans["type"], ok), json!({"call": ecall}));
                }
            }
            Err(e) => {
                if ctx.verbose {
                    eprintln!("check_parse_entities_json call shape refused: {e}");
                }
                ctx.count("check_parse:entities:call-refused");
            }
        }
    }
    // ---- conversions
    for p in c.statics.iter().take(2) {
        // text -> JSON
        if let Ok(arg) = serde_json::from_value::<ffi::Policy>(J::String(p.text.clone())) {
            let ans = serde_json::to_value(ffi::policy_to_json(arg)).unwrap_or(J::Null);
            let expected = Policy::parse(None, &p.text).ok().and_then(|x| x.to_json().ok());
            ctx.count("convert:policy_to_json");
            let observed = if ans["type"] == json!("success") { Some(ans["json"].clone()) } else { None };
            if observed != expected {
                ctx.violation("C19:policy_to_json-vs-api", "ffi::policy_to_json differs from Policy::parse(..).to_json()".into(), json!({"text": p.text, "answer": ans, "expected": expected}));
            }
        }
        // JSON -> text
        if let Ok(arg) = serde_json::from_value::<ffi::Policy>(p.est.clone()) {
            let ans = serde_json::to_value(ffi::policy_to_text(arg)).unwrap_or(J::Null);
            let expected = Policy::from_json(None, p.est.clone()).ok().map(|x| x.to_string());
            ctx.count("convert:policy_to_text");
            let observed = if ans["type"] == json!("success") { ans["text"].as_str().map(|s| s.to_string()) } else { None };
            if observed != expected {
                ctx.violation("C19:policy_to_text-vs-api", "ffi::policy_to_text differs from Policy::from_json(..).to_string()".into(), json!({"est": p.est, "answer": ans, "expected": expected}));
            }
        }
    }
    {
        let sj = c.schema_model.to_json(&PrintStyle { unqualified: false, loose_json: false });
        if let Ok(arg) = serde_json::from_value::<ffi::Schema>(sj.clone()) {
            let ans = serde_json::to_value(ffi::schema_to_text(arg)).unwrap_or(J::Null);
            let expected = SchemaFragment::from_json_value(sj.clone()).ok().and_then(|f| f.to_cedarschema().ok());
            ctx.count("convert:schema_to_text");
            let observed = if ans["type"] == json!("success") { ans["text"].as_str().map(|s| s.to_string()) } else { None };
            // compare by meaning: both must load to equal schemas (the text may be formatted differently)
            let load = |t: &Option<String>| t.as_ref().and_then(|t| Schema::from_cedarschema_str(t).ok().map(|(s, _)| super::c09::digest(&s)));
            if load(&observed) != load(&expected) {
                ctx.violation("C19:schema_to_text-vs-api", "ffi::schema_to_text differs from SchemaFragment::to_cedarschema".into(), json!({"schema": sj, "answer": ans, "expected": expected}));
            }
        }
        let sc = c.schema_model.to_cedar(&PrintStyle { unqualified: false, loose_json: false });
        if let Ok(arg) = serde_json::from_value::<ffi::Schema>(J::String(sc.clone())) {
            let ans = serde_json::to_value(ffi::schema_to_json(arg)).unwrap_or(J::Null);
            let expected = SchemaFragment::from_cedarschema_str(&sc).ok().and_then(|(f, _)| f.to_json_value().ok());
            ctx.count("convert:schema_to_json");
            let observed = if ans["type"] == json!("success") { Some(ans["json"].clone()) } else { None };
            let load = |t: &Option<J>| t.as_ref().and_then(|t| Schema::from_json_value(t.clone()).ok().map(|s| super::c09::digest(&s)));
            if load(&observed) != load(&expected) {
                ctx.violation("C19:schema_to_json-vs-api", "ffi::schema_to_json differs from SchemaFragment::to_json_value".into(), json!({"schema": sc, "answer": ans, "expected": expected}));
            }
        }
    }
    ctx.nontrivial(&format!("validate|{}", vcall));
}

// ------------------------------------------------------------------ stateful history

#[derive(Clone)]
struct Registered {
    call: CallSpec,
}

/// run one history on the current thread; returns violations as (signature, what, detail)
fn run_history(rng: &mut Rng, names: [String; 3], calls: Vec<CallSpec>, steps: usize) -> (Vec<(String, String, J)>, BTreeMap<String, u64>) {
    let mut viol = vec![];
    let mut counts: BTreeMap<String, u64> = BTreeMap::new();
    let mut psets: BTreeMap<String, Registered> = BTreeMap::new();
    let mut schemas: BTreeMap<String, Registered> = BTreeMap::new();
    if calls.is_empty() {
        return (viol, counts);
    }
    for step in 0..steps {
        let c = rng.pick_clone(&calls);
        // front-load registrations so that most stateful calls find something registered
        let op = match step {
            0 | 1 => 0,
            2 => 2,
            _ => rng.below(6),
        };
        match op {
            0 | 1 => {
                // preparse policy set (sometimes broken)
                let name = rng.pick_clone(&names);
                let broken = rng.chance(1, 5);
                let pj = if broken { json!({"staticPolicies": "permit(principal, action, resource) when { "}) } else { policies_json(&c) };
                let arg: ffi::PolicySet = match serde_json::from_value(pj.clone()) {
                    Ok(a) => a,
                    Err(_) => continue,
                };
                let ok_expected = !broken && api_policy_set(&c).is_ok();
                let ans = serde_json::to_value(ffi::preparse_policy_set(name.clone(), arg)).unwrap_or(J::Null);
                let ok = ans["type"] == json!("success");
                *counts.entry(format!("preparse_policy_set:{}", if ok { "ok" } else { "failed" })).or_insert(0) += 1;
                if ok != ok_expected {
                    viol.push(("C19:preparse_policy_set:outcome".into(), format!("preparse_policy_set returned success={ok}, the API parse says {ok_expected}"), json!({"policies": pj})));
                }
                if ok {
                    psets.insert(name, Registered { call: c.clone() });
                }
            }
            2 => {
                let name = rng.pick_clone(&names);
                let broken = rng.chance(1, 5);
                let sform = c.schema_form.clone().unwrap_or_else(|| c.schema_model.to_json(&PrintStyle { unqualified: false, loose_json: false }));
                let sj = if broken { J::String("entity A in [".into()) } else { sform.clone() };
                let arg: ffi::Schema = match serde_json::from_value(sj.clone()) {
                    Ok(a) => a,
                    Err(_) => continue,
                };
                let ans = serde_json::to_value(ffi::preparse_schema(name.clone(), arg)).unwrap_or(J::Null);
                let ok = ans["type"] == json!("success");
                *counts.entry(format!("preparse_schema:{}", if ok { "ok" } else { "failed" })).or_insert(0) += 1;
                if ok == broken {
                    viol.push(("C19:preparse_schema:outcome".into(), format!("preparse_schema returned success={ok} for broken={broken}"), json!({"schema": sj})));
                }
                if ok {
                    let mut c2 = c.clone();
                    c2.schema_form = Some(sform);
                    schemas.insert(name, Registered { call: c2 });
                }
            }
            _ => {
                // stateful authorization: request/entities of `c`, registered policy set and (optionally) schema by name
                let pname = if rng.chance(1, 8) { "never-registered".to_string() } else { rng.pick_clone(&names) };
                let sname = if rng.bool() { Some(if rng.chance(1, 8) { "never-registered".to_string() } else { rng.pick_clone(&names) }) } else { None };
                let mut call = Map::new();
                call.insert("principal".into(), render::uid_json(&c.world.principal));
                call.insert("action".into(), render::uid_json(&c.world.action));
                call.insert("resource".into(), render::uid_json(&c.world.resource));
                call.insert("context".into(), c.context_json.clone());
                if !(c.validate_request && c.omit_validate_flag) {
                    call.insert("validateRequest".into(), json!(c.validate_request));
                }
                call.insert("preparsedPolicySetId".into(), json!(pname));
                if let Some(s) = &sname {
                    call.insert("preparsedSchemaName".into(), json!(s));
                }
                call.insert("entities".into(), c.entities_json.clone());
                let call = J::Object(call);
                let arg: ffi::StatefulAuthorizationCall = match serde_json::from_value(call.clone()) {
                    Ok(a) => a,
                    Err(e) => {
                        viol.push(("C19:stateful:call-shape".into(), format!("stateful call refused: {e}"), json!({"call": call})));
                        continue;
                    }
                };
                let ans = serde_json::to_value(ffi::stateful_is_authorized(arg)).unwrap_or(J::Null);
                let observed = observed_from_answer(&ans);
                // model: what the stateless interface answers for what is registered under those names
                let expected = match (psets.get(&pname), sname.as_ref().map(|s| schemas.get(s))) {
                    (None, _) => Expected::Failure,
                    (_, Some(None)) => Expected::Failure,
                    (Some(p), sch) => {
                        let mut eq = c.clone();
                        eq.statics = p.call.statics.clone();
                        eq.concatenated = p.call.concatenated;
                        eq.template = p.call.template.clone();
                        eq.schema_form = sch.flatten().and_then(|r| r.call.schema_form.clone());
                        let stateless = ffi::is_authorized_json(call_json(&eq)).ok().and_then(|a| observed_from_answer(&a).ok());
                        let api = api_answer(&eq);
                        if stateless.as_ref() != Some(&api) {
                            viol.push(("C19:stateless-vs-api(in history)".into(), format!("stateless {:?} vs API {:?}", stateless, api), json!({"call": call_json(&eq)})));
                        }
                        api
                    }
                };
                *counts.entry(format!("stateful_is_authorized:{}", match &expected { Expected::Failure => "failure", Expected::Success { allow: true, .. } => "allow", _ => "deny" })).or_insert(0) += 1;
                if observed.as_ref().ok() != Some(&expected) {
                    viol.push((
                        "C19:stateful-vs-stateless".into(),
                        format!("stateful_is_authorized answers {:?}; for what is registered under policy set {:?} / schema {:?} the stateless answer is {:?}", observed, pname, sname, expected),
                        json!({"call": call, "answer": ans, "registered_policy_sets": psets.keys().collect::<Vec<_>>(), "registered_schemas": schemas.keys().collect::<Vec<_>>()}),
                    ));
                }
            }
        }
    }
    (viol, counts)
}

fn check_history(ctx: &mut CaseCtx) {
    // the calls of one history share a schema model (so that registered policy sets / schemas and
    // later requests fit together most of the time); one in four histories mixes schemas
    let mut calls = vec![];
    let shared = gen_schema(&mut ctx.rng, &SchemaOpts::default());
    let mix = ctx.rng.chance(1, 4);
    for k in 0..3 {
        let gs = if mix && k > 0 { gen_schema(&mut ctx.rng, &SchemaOpts::default()) } else { shared.clone() };
        if let Some(c) = make_call_for(ctx, &format!("h{k}-"), gs) {
            calls.push(c);
        }
    }
    if calls.is_empty() {
        return;
    }
    let steps = 3 + ctx.rng.below(28);
    let names = |tag: &str, idx: u64| [format!("c{idx}{tag}-a"), format!("c{idx}{tag}-b"), format!("c{idx}{tag}-c")];
    let two_threads = ctx.rng.chance(1, 4);
    let mut all_v = vec![];
    let mut all_c: BTreeMap<String, u64> = BTreeMap::new();
    if two_threads {
        ctx.count("history:two-threads");
        let mut handles = vec![];
        for t in 0..2u64 {
            let mut r = Rng::derive(ctx.seed, ctx.idx, 100 + t);
            let n = names(if t == 0 { "x" } else { "y" }, ctx.idx);
            let cs = calls.clone();
            handles.push(std::thread::spawn(move || run_history(&mut r, n, cs, steps)));
        }
        for h in handles {
            match h.join() {
                Ok((v, c)) => {
                    all_v.extend(v);
                    for (k, n) in c {
                        *all_c.entry(k).or_insert(0) += n;
                    }
                }
                Err(_) => all_v.push(("C19:panic-in-history-thread".into(), "a history thread panicked".into(), json!({}))),
            }
        }
    } else {
        ctx.count("history:one-thread");
        let mut r = Rng::derive(ctx.seed, ctx.idx, 99);
        let (v, c) = run_history(&mut r, names("s", ctx.idx), calls.clone(), steps);
        all_v = v;
        all_c = c;
    }
    for (k, n) in all_c {
        ctx.add(&k, n);
    }
    ctx.add("history_steps", steps as u64);
    for (sig, what, detail) in all_v {
        ctx.violation(&sig, what, detail);
    }
    ctx.nontrivial(&format!("history|{}|{}|{}", ctx.idx, steps, call_json(&calls[0])));
}

// ------------------------------------------------------------------ CLI

fn check_cli(ctx: &mut CaseCtx) {
    let cfg = match crate::CONFIG.get() {
        Some(c) => c,
        None => return,
    };
    let cli = match &cfg.cli {
        Some(c) => c.clone(),
        None => {
            ctx.count("cli:not-configured");
            return;
        }
    };
    let c = match make_call(ctx, "") {
        Some(c) => c,
        None => return,
    };
    let dir = format!("{}/cli-{}", cfg.out, ctx.idx);
    if std::fs::create_dir_all(&dir).is_err() {
        return ctx.harness_error("cannot create scratch dir".into());
    }
    let write = |name: &str, content: &str| -> String {
        let p = format!("{dir}/{name}");
        let _ = std::fs::write(&p, content);
        p
    };
    // the CLI takes policies as one Cedar file: use the concatenated form
    let mut c = c;
    c.concatenated = true;
    c.template = None;
    for (i, p) in c.statics.iter_mut().enumerate() {
        p.id = format!("policy{i}");
        p.as_json = false;
    }
    let pfile = write("policies.cedar", &c.statics.iter().map(|p| p.text.clone()).collect::<Vec<_>>().join("\n"));
    let efile = write("entities.json", &c.entities_json.to_string());
    let cfile = write("context.json", &c.context_json.to_string());
    let uid_arg = |u: &Uid| format!("{}::{}", u.ty, render::str_lit(&u.id, &mut TextOpts::plain(&mut Rng::new(0))));
    // the request is given either on the command line or as one --request-json file
    let use_request_json = ctx.rng.bool();
    ctx.count(if use_request_json { "cli:request=json-file" } else { "cli:request=flags" });
    let mut args: Vec<String> = vec!["authorize".into(), "--policies".into(), pfile.clone(), "--entities".into(), efile];
    if use_request_json {
        let rj = json!({"principal": uid_arg(&c.world.principal), "action": uid_arg(&c.world.action), "resource": uid_arg(&c.world.resource), "context": c.context_json});
        let rfile = write("request.json", &rj.to_string());
        args.extend(["--request-json".into(), rfile]);
    } else {
        args.extend([
            "--context".into(),
            cfile,
            "--principal".into(),
            uid_arg(&c.world.principal),
            "--action".into(),
            uid_arg(&c.world.action),
            "--resource".into(),
            uid_arg(&c.world.resource),
        ]);
    }
    let mut sfile = None;
    if let Some(s) = &c.schema_form {
        let (f, fmt) = match s {
            J::String(t) => (write("schema.cedarschema", t), "cedar"),
            j => (write("schema.json", &j.to_string()), "json"),
        };
        args.extend(["--schema".into(), f.clone(), "--schema-format".into(), fmt.into()]);
        sfile = Some((f, fmt));
        if !c.validate_request {
            args.extend(["--request-validation".into(), "false".into()]);
        }
    }
    let out = match std::process::Command::new(&cli).args(&args).output() {
        Ok(o) => o,
        Err(e) => return ctx.harness_error(format!("cannot run cedar CLI: {e}")),
    };
    let stdout = String::from_utf8_lossy(&out.stdout).to_string();
    let expected = api_answer(&c);
    let (exp_code, exp_word) = match &expected {
        Expected::Failure => (1, None),
        Expected::Success { allow: true, .. } => (0, Some("ALLOW")),
        Expected::Success { .. } => (2, Some("DENY")),
    };
    ctx.count(&format!("cli:authorize:exit={}", out.status.code().unwrap_or(-1)));
    let word_ok = match exp_word {
        Some(w) => stdout.contains(w) && !stdout.contains(if w == "ALLOW" { "DENY" } else { "ALLOW" }),
        None => true,
    };
    if out.status.code() != Some(exp_code) || !word_ok {
        ctx.violation(
            "C19:cli-authorize-vs-api",
            format!("`cedar authorize` exits {:?} printing {:?}, the API answers {:?}", out.status.code(), stdout.trim(), expected),
            json!({"args": args, "stderr": String::from_utf8_lossy(&out.stderr), "call": call_json(&c)}),
        );
    }
    // validate
    if let Some((f, fmt)) = &sfile {
        let out = std::process::Command::new(&cli).args(["validate", "--policies", &pfile, "--schema", f, "--schema-format", fmt]).output();
        if let Ok(out) = out {
            let expected = (|| -> Option<i32> {
                let schema = api_schema(&c.schema_form).ok()??;
                let ps = api_policy_set(&c).ok()?;
                Some(if Validator::new(schema).validate(&ps, ValidationMode::Strict).validation_passed() { 0 } else { 3 })
            })()
            .unwrap_or(1);
            ctx.count(&format!("cli:validate:exit={}", out.status.code().unwrap_or(-1)));
            if out.status.code() != Some(expected) {
                ctx.violation("C19:cli-validate-vs-api", format!("`cedar validate` exits {:?}, the API says {}", out.status.code(), expected), json!({"policies": pfile, "schema": f, "stderr": String::from_utf8_lossy(&out.stderr)}));
            }
        }
    }
    // translate-policy (cedar -> json) agrees with PolicySet::to_json
    if let Ok(out) = std::process::Command::new(&cli).args(["translate-policy", "--direction", "cedar-to-json", "-p", &pfile]).output() {
        let api = api_policy_set(&c).ok().and_then(|ps| ps.to_json().ok());
        let cli_json: Option<J> = serde_json::from_slice(&out.stdout).ok();
        ctx.count(&format!("cli:translate-policy:exit={}", out.status.code().unwrap_or(-1)));
        match (api, out.status.code()) {
            (Some(a), Some(0)) => {
                // compare through the library: both must parse back to policy sets with the same policies
                let back = |j: &J| PolicySet::from_json_value(j.clone()).ok().map(|ps| {
                    let mut v: Vec<String> = ps.policies().map(|p| format!("{}|{}", p.id(), p)).collect();
                    v.sort();
                    v
                });
                if cli_json.as_ref().and_then(back) != back(&a) {
                    ctx.violation("C19:cli-translate-policy-vs-api", "translate-policy output differs from PolicySet::to_json".into(), json!({"policies": pfile}));
                }
            }
            (None, Some(0)) => ctx.violation("C19:cli-translate-policy-vs-api", "translate-policy succeeded where the API fails".into(), json!({"policies": pfile})),
            (Some(_), code) if code != Some(0) => ctx.violation("C19:cli-translate-policy-vs-api", format!("translate-policy exits {:?} where the API succeeds", code), json!({"policies": pfile, "stderr": String::from_utf8_lossy(&out.stderr)})),
            _ => {}
        }
    }
    // translate-schema json -> cedar
    {
        let sj = c.schema_model.to_json(&PrintStyle { unqualified: false, loose_json: false });
        let f = write("schema-for-translate.json", &sj.to_string());
        if let Ok(out) = std::process::Command::new(&cli).args(["translate-schema", "--direction", "json-to-cedar", "-s", &f]).output() {
            ctx.count(&format!("cli:translate-schema:exit={}", out.status.code().unwrap_or(-1)));
            let api = SchemaFragment::from_json_value(sj.clone()).ok().and_then(|f| f.to_cedarschema().ok());
            let load = |t: &str| Schema::from_cedarschema_str(t).ok().map(|(s, _)| super::c09::digest(&s));
            let cli_text = String::from_utf8_lossy(&out.stdout).to_string();
            let same = match (&api, out.status.code()) {
                (Some(a), Some(0)) => load(a) == load(&cli_text),
                (None, Some(0)) => false,
                (Some(_), _) => false,
                (None, _) => true,
            };
            if !same {
                ctx.violation("C19:cli-translate-schema-vs-api", "translate-schema differs from SchemaFragment::to_cedarschema".into(), json!({"schema": sj, "cli_stdout": cli_text}));
            }
        }
    }
    // format --check accepts what format produced
    if let Ok(formatted) = cedar_policy_formatter::policies_str_to_pretty(&std::fs::read_to_string(&pfile).unwrap_or_default(), &cedar_policy_formatter::Config { line_width: 80, indent_width: 2 }) {
        let ff = write("formatted.cedar", &formatted);
        if let Ok(out) = std::process::Command::new(&cli).args(["format", "--check", "-p", &ff]).output() {
            ctx.count(&format!("cli:format-check:exit={}", out.status.code().unwrap_or(-1)));
            if out.status.code() != Some(0) {
                ctx.violation("C19:cli-format-check", "`cedar format --check` rejects the formatter's own output".into(), json!({"formatted": formatted}));
            }
        }
    }
    let _ = std::fs::remove_dir_all(&dir);
    ctx.nontrivial(&format!("cli|{}", call_json(&c)));
}

pub fn case(ctx: &mut CaseCtx) {
    match ctx.idx % 8 {
        0 | 1 | 2 => {
            ctx.count("family:authorization");
            check_authorization(ctx)
        }
        3 | 4 => {
            ctx.count("family:validate-format-parse-convert");
            check_validate_and_friends(ctx)
        }
        5 | 6 => {
            ctx.count("family:stateful-history");
            check_history(ctx)
        }
        _ => {
            ctx.count("family:cli");
            check_cli(ctx)
        }
    }
}
