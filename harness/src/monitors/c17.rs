//! C17 — entity-manifest slicing keeps everything authorization needs.
//!
//! For a strictly valid policy set, `compute_entity_manifest` yields a manifest;
//! for every conformant request + store, authorization over
//! `manifest.slice_entities(store, request)` must give the same decision,
//! determining policies and erroring policies as over the full store, and
//! slicing itself must neither fail nor panic on conformant data.
//! `UnsupportedCedarFeature` (entity tags) is counted as "no manifest".
//!
//! Workload: the dereference-chain generator of C16 without tags, with entity
//! literals as roots, `in` / `contains` over sets of entities, records holding
//! entities, `if` producing entities, `==` on records, policies for several
//! request environments in one set.

#![allow(deprecated)] // the entity-manifest API is deprecated upstream; it is the API under test

use crate::bridge;
use crate::monitors::c03::{entities_with_schema, load_schema};
use crate::monitors::c16::{add_chains, chain_policy, err_kind, make_pset, report, ChainOpts, Summary};
use crate::render::{self, TextOpts};
use crate::report::CaseCtx;
use crate::schema::*;
use cedar_policy::{compute_entity_manifest, Authorizer, Entities, EntityManifestError, ValidationMode, Validator};
use cedar_policy_core::ast;
use cedar_policy_core::entities::Entities as CoreEntities;
use cedar_policy_core::validator::typecheck::{PolicyCheck, Typechecker};
use cedar_policy_core::validator::types::RequestEnv;
use cedar_policy_core::validator::ValidatorSchema;
use serde_json::json;
use std::collections::BTreeSet;

fn store_shape(e: &CoreEntities) -> (u64, u64, u64) {
    let mut n = 0;
    let mut attrs = 0;
    let mut anc = 0;
    for x in e.iter() {
        n += 1;
        attrs += x.attrs().count() as u64;
        anc += x.ancestors().count() as u64;
    }
    (n, attrs, anc)
}

pub fn case(ctx: &mut CaseCtx) {
    // a small share of schemas keeps tags so that the "unsupported feature" exit is observed too
    let with_tags = ctx.rng.chance(1, 12);
    let mut gs = gen_schema(&mut ctx.rng, &SchemaOpts { tags: with_tags, ..SchemaOpts::default() });
    add_chains(&mut ctx.rng, &mut gs, with_tags);
    let schema = match load_schema(ctx, &gs) {
        Some(s) => s,
        None => return,
    };
    let envs = gs.envs();
    if envs.is_empty() {
        ctx.count("no_envs");
        return;
    }
    let env = ctx.rng.pick_clone(&envs);
    let wg = WorldGen::new(&mut ctx.rng, &gs);
    let npol = 1 + ctx.rng.below(3);
    let mut opts = ChainOpts { allow_tags: with_tags, literal_roots: 15, disguise: 40, max_depth: 3, plain_filler: true, prefer_no_deref: 5, shapes: vec![] };
    let mut pols = vec![];
    let mut other_envs = 0;
    for _ in 0..npol {
        // most policies are about the environment the requests are made in
        let penv = if ctx.rng.chance(4, 5) {
            env.clone()
        } else {
            other_envs += 1;
            ctx.rng.pick_clone(&envs)
        };
        let mut g = TypedGen::new(&mut ctx.rng, &gs, &penv, &wg.pools);
        g.allow_tags = with_tags;
        opts.max_depth = *g.rng.pick(&[0, 1, 1, 2, 2, 3]);
        pols.push(chain_policy(&mut g, &mut opts));
    }
    if other_envs > 0 {
        ctx.count("sets-with-policies-for-other-environments");
    }
    for s in std::mem::take(&mut opts.shapes) {
        ctx.count(&format!("shape:{s}"));
    }
    let texts: Vec<String> = pols
        .iter()
        .map(|p| {
            if ctx.rng.chance(1, 5) {
                render::policy_text(p, &mut TextOpts::random(&mut ctx.rng))
            } else {
                render::policy_text(p, &mut TextOpts::plain(&mut ctx.rng))
            }
        })
        .collect();
    let pset = match make_pset(ctx, &texts) {
        Some(p) => p,
        None => return,
    };
    let validator = Validator::new(schema.clone());
    let strict_ok = validator.validate(&pset, ValidationMode::Strict).validation_passed();
    ctx.count(if strict_ok { "strict:accepted" } else { "strict:rejected" });
    let schema_text = gs.to_cedar(&PrintStyle { unqualified: false, loose_json: false });
    let detail = |extra: serde_json::Value| json!({"schema": schema_text, "policies": texts, "env": format!("{}/{:?}/{}", env.principal_ty, env.action, env.resource_ty), "extra": extra});

    let manifest = match compute_entity_manifest(&validator, &pset) {
        Ok(m) => m,
        Err(EntityManifestError::UnsupportedCedarFeature(_)) => {
            ctx.count("no-manifest:unsupported-feature");
            return;
        }
        Err(EntityManifestError::Validation(_)) => {
            ctx.count("no-manifest:not-strictly-valid");
            if strict_ok {
                // the documented precondition is exactly strict validity
                ctx.violation("C17:manifest-refused-for-valid-set", format!("compute_entity_manifest reports a validation error for a strictly valid set: {:?}", texts), detail(json!({})));
            }
            return;
        }
        Err(e) => {
            // not a refutation of the property as stated; recorded so that it is noticed
            ctx.count(&format!("no-manifest:{}", err_kind(&e)));
            if ctx.verbose {
                eprintln!("compute_entity_manifest failed: {}", bridge::err_chain(&e));
            }
            return;
        }
    };
    ctx.count("manifests");
    // policies the typechecker classifies as never satisfiable ("irrelevant") in the request
    // environment: the manifest requests no data for them (used only to classify a difference)
    let mut irrelevant: BTreeSet<String> = BTreeSet::new();
    {
        let vschema: &ValidatorSchema = schema.as_ref();
        let tc = Typechecker::new(vschema, cedar_policy_core::validator::ValidationMode::Strict);
        for p in pset.policies() {
            let core: &ast::Policy = p.as_ref();
            for (renv, check) in tc.typecheck_by_request_env(core.template()) {
                let here = match &renv {
                    RequestEnv::DeclaredAction { principal, action, resource, .. } => principal.to_string() == env.principal_ty && resource.to_string() == env.resource_ty && bridge::core_uid_back(action) == env.action,
                    _ => false,
                };
                if here && matches!(check, PolicyCheck::Irrelevant(..)) {
                    irrelevant.insert(p.id().to_string());
                }
            }
        }
    }
    if !irrelevant.is_empty() {
        ctx.count("sets-with-irrelevant-policies");
    }
    let n_roots: usize = manifest.per_action().values().map(|t| t.trie().len()).sum();
    let has_root = n_roots > 0;
    ctx.count(if has_root { "manifest:with-entity-roots" } else { "manifest:empty" });
    let manifest_json = serde_json::to_value(&manifest).unwrap_or(json!("<unserializable>"));

    let n_worlds = if ctx.thorough() { 8 } else { 4 };
    let auth = Authorizer::new();
    for _ in 0..n_worlds {
        let w = wg.world(&mut ctx.rng, &env);
        let req = match bridge::request(&w, Some(&schema)) {
            Ok(r) => r,
            Err(e) => {
                ctx.count("world_rejected:request");
                if ctx.verbose {
                    eprintln!("request rejected: {e}");
                }
                continue;
            }
        };
        let full = match entities_with_schema(&w, &gs, &schema) {
            Ok(e) => e,
            Err(e) => {
                ctx.count("world_rejected:entities");
                if ctx.verbose {
                    eprintln!("entities rejected: {e}");
                }
                continue;
            }
        };
        ctx.count("triples");
        let wdetail = |extra: serde_json::Value| {
            let mut d = detail(extra);
            d["principal"] = json!(format!("{:?}", w.principal));
            d["action"] = json!(format!("{:?}", w.action));
            d["resource"] = json!(format!("{:?}", w.resource));
            d["context"] = render::context_json(&w);
            d["entities"] = render::entities_json(&w);
            d["manifest"] = manifest_json.clone();
            d
        };
        let full_sum = Summary::of(&auth.is_authorized(&req, &pset, &full));
        ctx.count(&format!("full-decision:{}", full_sum.decision));
        if !full_sum.errors.is_empty() {
            ctx.count("full-store-with-erroring-policies");
        }
        let core_full: &CoreEntities = full.as_ref();
        let core_req: &ast::Request = req.as_ref();
        let sliced_core = match manifest.slice_entities(core_full, core_req) {
            Ok(s) => s,
            Err(e) => {
                report(ctx, &format!("C17:slice-error:{}", err_kind(&e)), format!("slice_entities fails on conformant data: {} :: {:?}", bridge::err_chain(&e), texts), wdetail(json!({"error": bridge::err_chain(&e)})));
                continue;
            }
        };
        let (fn_, fa, fanc) = store_shape(core_full);
        let (sn, sa, sanc) = store_shape(&sliced_core);
        ctx.add("store-entities-sum", fn_);
        ctx.add("slice-entities-sum", sn);
        ctx.add("store-attrs-sum", fa);
        ctx.add("slice-attrs-sum", sa);
        ctx.add("store-ancestors-sum", fanc);
        ctx.add("slice-ancestors-sum", sanc);
        if sn == 0 {
            ctx.count("slice:empty");
        }
        if sanc > 0 {
            ctx.count("slice:with-ancestors");
        }
        let sliced: Entities = Entities::from(sliced_core);
        let s_sum = Summary::of(&auth.is_authorized(&req, &pset, &sliced));
        if s_sum != full_sum {
            let sliced_json = sliced.as_ref().to_json_value().map(|v| v).unwrap_or(json!("<not representable>"));
            // differences confined to policies that the typechecker calls never satisfiable in this
            // environment (the manifest requests no data for them) get their own signatures
            // attribution: does the difference disappear when the irrelevant policies are left out
            // (the slice, computed for the whole set, then holds at least what the rest needs)?
            let mut attributable = false;
            if !irrelevant.is_empty() {
                let mut rest = cedar_policy::PolicySet::new();
                for p in pset.policies() {
                    if !irrelevant.contains(&p.id().to_string()) {
                        let _ = rest.add(p.clone());
                    }
                }
                attributable = Summary::of(&auth.is_authorized(&req, &rest, &full)) == Summary::of(&auth.is_authorized(&req, &rest, &sliced));
            }
            let sig = if attributable && full_sum.decision == s_sum.decision && full_sum.reasons == s_sum.reasons {
                "C17:irrelevant-policy-errors-only-on-slice".to_string()
            } else if attributable {
                "C17:irrelevant-policy-satisfied-on-slice".to_string()
            } else {
                format!("C17:slice-differs:{}", full_sum.diff(&s_sum))
            };
            report(
                ctx,
                &sig,
                format!("authorization over the manifest slice answers {:?} where the full store answers {:?}: {:?}", s_sum, full_sum, texts),
                wdetail(json!({"full": full_sum.json(), "sliced": s_sum.json(), "sliced_store": sliced_json})),
            );
        }
        let smaller = sn < fn_ || sa < fa;
        if smaller {
            ctx.count("slice:smaller-than-store");
        }
        if has_root && smaller {
            ctx.nontrivial(&format!("{:?}|{:?}", texts, w));
        }
    }
    ctx.sample(|| json!({"policies": texts, "schema": schema_text, "manifest": manifest_json}));
}
