//! C03 — strict validation is sound and not vacuous.
//! (a) accepted policy + accepted request/store => evaluation never ends in a type
//!     error / missing attribute or tag / unknown function;
//! (b) every evaluated sub-expression produces a value inhabiting the type the
//!     typechecker annotated (evaluator trace hook over the erased typed AST);
//! (c) a policy flagged impossible / irrelevant is never satisfied;
//! (d) guarded, correctly typed programs are accepted; strict-accepted => permissive-accepted.

use crate::bridge;
use crate::model::*;
use crate::refsem;
use crate::render::{self, TextOpts};
use crate::report::CaseCtx;
use crate::rng::Rng;
use crate::schema::*;
use cedar_policy::{Authorizer, Entities, Policy, PolicyId, PolicySet, Schema, ValidationMode, Validator};
use cedar_policy_core::ast::{self, Expr, ExprBuilder, PartialValue, Value, ValueKind};
use cedar_policy_core::evaluator::Evaluator;
use cedar_policy_core::extensions::Extensions;
use cedar_policy_core::validator::typecheck::{PolicyCheck, Typechecker};
use cedar_policy_core::validator::types::{BoolType, EntityKind, OpenTag, Type};
use cedar_policy_core::validator::ValidatorSchema;
use serde_json::json;
use std::collections::HashMap;

pub fn inhabits(v: &Value, t: &Type) -> bool {
    match t {
        Type::Never => false,
        Type::Bool(b) => match (&v.value, b) {
            (ValueKind::Lit(ast::Literal::Bool(_)), BoolType::AnyBool) => true,
            (ValueKind::Lit(ast::Literal::Bool(x)), BoolType::True) => *x,
            (ValueKind::Lit(ast::Literal::Bool(x)), BoolType::False) => !*x,
            _ => false,
        },
        Type::Long => matches!(&v.value, ValueKind::Lit(ast::Literal::Long(_))),
        Type::String => matches!(&v.value, ValueKind::Lit(ast::Literal::String(_))),
        Type::Entity(k) => match &v.value {
            ValueKind::Lit(ast::Literal::EntityUID(u)) => match k {
                EntityKind::AnyEntity => true,
                EntityKind::Entity(lub) => match lub.get_single_entity() {
                    Some(et) => u.entity_type() == et,
                    None => true, // a proper LUB of several entity types: any of them (not enumerable through the public view)
                },
            },
            _ => false,
        },
        Type::Set { element_type } => match &v.value {
            ValueKind::Set(s) => match element_type {
                None => true,
                Some(et) => s.authoritative.iter().all(|x| inhabits(x, et)),
            },
            _ => false,
        },
        Type::Record { attrs, open_attributes } => match &v.value {
            ValueKind::Record(m) => {
                for (k, at) in attrs.iter() {
                    match m.get(k) {
                        Some(x) => {
                            if !inhabits(x, &at.attr_type) {
                                return false;
                            }
                        }
                        None => {
                            if at.is_required {
                                return false;
                            }
                        }
                    }
                }
                if matches!(open_attributes, OpenTag::ClosedAttributes) {
                    m.keys().all(|k| attrs.get_attr(k).is_some())
                } else {
                    true
                }
            }
            _ => false,
        },
        Type::ExtensionType { name } => match &v.value {
            ValueKind::ExtensionValue(x) => &x.typename() == name,
            _ => false,
        },
    }
}

fn kind_idx<T>(e: &Expr<T>) -> u8 {
    use ast::ExprKind as K;
    match e.expr_kind() {
        K::Lit(_) => 0,
        K::Var(_) => 1,
        K::Slot(_) => 2,
        K::Unknown(_) => 3,
        K::If { .. } => 4,
        K::And { .. } => 5,
        K::Or { .. } => 6,
        K::UnaryApp { .. } => 7,
        K::BinaryApp { .. } => 8,
        K::ExtensionFunctionApp { .. } => 9,
        K::GetAttr { .. } => 10,
        K::HasAttr { .. } => 11,
        K::Like { .. } => 12,
        K::Is { .. } => 13,
        K::Set(_) => 14,
        K::Record(_) => 15,
        #[allow(unreachable_patterns)]
        _ => 16,
    }
}

fn err_kind<E: std::fmt::Debug>(e: &E) -> String {
    let s = format!("{:?}", e);
    s.split(|c| c == '(' || c == ' ' || c == '{').next().unwrap_or("?").to_string()
}

pub struct Prepared {
    pub gschema: GSchema,
    pub schema: Schema,
    pub env: Env,
}

pub fn load_schema(ctx: &mut CaseCtx, gs: &GSchema) -> Option<Schema> {
    let st = PrintStyle { unqualified: false, loose_json: false };
    match Schema::from_json_value(gs.to_json(&st)) {
        Ok(s) => Some(s),
        Err(e) => {
            ctx.count("schema_rejected");
            ctx.harness_error(format!("generated schema rejected: {} :: {}", bridge::err_chain(&e), gs.to_json(&st)));
            None
        }
    }
}

/// entities of the world in the form the schema-taking constructors expect: the
/// schema contributes the action entities itself
pub fn entities_with_schema(w: &GWorld, gs: &GSchema, schema: &Schema) -> Result<Entities, String> {
    let acts: Vec<Uid> = gs.actions.iter().map(|a| a.uid()).collect();
    let mut list = vec![];
    for (u, e) in &w.entities {
        if acts.contains(u) {
            continue;
        }
        list.push(bridge::entity(u, e)?);
    }
    Entities::from_entities(list, Some(schema)).map_err(|e| bridge::err_chain(&e))
}

pub fn case(ctx: &mut CaseCtx) {
    let mut gs = gen_schema(&mut ctx.rng, &SchemaOpts::default());
    // half of the schemas give every action's context a required attribute `zact` of the action entity type
    let with_zact = ctx.rng.bool();
    if with_zact {
        for a in gs.actions.iter_mut() {
            let ty = qualify(&a.ns, "Action");
            if let Some(ap) = a.applies.as_mut() {
                ap.context.retain(|x| x.name != "zact");
                ap.context.push(GAttr { name: "zact".into(), ty: GType::Ent(ty), required: true });
            }
        }
    }
    let schema = match load_schema(ctx, &gs) {
        Some(s) => s,
        None => return,
    };
    let envs = gs.envs();
    if envs.is_empty() {
        ctx.count("no_envs");
        return;
    }
    let env = ctx.rng.pick_clone(&envs);
    let mut wg = WorldGen::new(&mut ctx.rng, &gs);
    for a in &gs.actions {
        wg.pools.entry(qualify(&a.ns, "Action")).or_default().push(a.uid());
    }
    let faulty = ctx.rng.chance(3, 10);
    let depth = 1 + ctx.rng.below(4);
    let (pol, faults) = {
        let mut g = TypedGen::new(&mut ctx.rng, &gs, &env, &wg.pools);
        if faulty {
            if g.rng.bool() {
                g.omit_guard = 40;
            } else {
                g.mistype = 8;
            }
        }
        let p = typed_policy(&mut g, depth);
        (p, g.faults)
    };
    // `action in [<action literal>, context.zact]`: a set mixing a literal with a non-literal action-typed element
    let mut pol = pol;
    if with_zact && faults == 0 && ctx.rng.chance(1, 3) {
        let acts: Vec<Uid> = gs.actions.iter().map(|a| a.uid()).filter(|u| u.ty == env.action.ty).collect();
        let lit = ctx.rng.pick_clone(&acts);
        let mixed = GExpr::bin(BinOp::In, GExpr::Var(Var::Action), GExpr::Set(vec![GExpr::Ent(lit), GExpr::attr(GExpr::Var(Var::Context), "zact")]));
        match ctx.rng.below(3) {
            0 => pol.conds = vec![(true, mixed)],
            1 => pol.conds.push((true, mixed)),
            _ => {
                let body = pol.conds.pop().map(|(w, c)| if w { c } else { GExpr::Not(c.b()) }).unwrap_or(GExpr::Bool(true));
                pol.conds.push((true, GExpr::ite(mixed, body, GExpr::Bool(true))));
            }
        }
        ctx.count("shape:action-in-mixed-set");
    }
    // one case in five is a template: `principal is P in ?principal` (still pinning the environment),
    // linked to an entity of a type P can be a member of
    let mut pol = pol;
    let mut link_principal: Option<Uid> = None;
    if ctx.rng.chance(1, 5) {
        let cands: Vec<String> = gs.entity_types.iter().map(|e| e.name.clone()).filter(|t| *t == env.principal_ty || gs.type_can_descend(&env.principal_ty, t)).collect();
        if !cands.is_empty() {
            let t = ctx.rng.pick_clone(&cands);
            let pool = wg.pools.get(&t).cloned().unwrap_or_default();
            let u = if pool.is_empty() { Uid::new(&t, "a") } else { ctx.rng.pick_clone(&pool) };
            pol.principal = ScopePR::IsIn(env.principal_ty.clone(), EntOrSlot::Slot);
            link_principal = Some(u);
            ctx.count("family:template-linked");
        }
    }
    let text = render::policy_text(&pol, &mut TextOpts::plain(&mut ctx.rng));
    let mut pset = PolicySet::new();
    let policy = match &link_principal {
        None => {
            let policy = match Policy::parse(Some(PolicyId::new("p")), &text) {
                Ok(p) => p,
                Err(e) => return ctx.harness_error(format!("typed policy does not parse: {text}: {e}")),
            };
            pset.add(policy.clone()).expect("add");
            policy
        }
        Some(u) => {
            let t = match cedar_policy::Template::parse(Some(PolicyId::new("t")), &text) {
                Ok(t) => t,
                Err(e) => return ctx.harness_error(format!("typed template does not parse: {text}: {e}")),
            };
            pset.add_template(t).expect("add_template");
            let mut vals = HashMap::new();
            vals.insert(cedar_policy::SlotId::principal(), bridge::uid(u));
            if let Err(e) = pset.link(PolicyId::new("t"), PolicyId::new("p"), vals) {
                return ctx.harness_error(format!("link: {e}"));
            }
            pset.policy(&PolicyId::new("p")).expect("linked policy").clone()
        }
    };
    let validator = Validator::new(schema.clone());
    let strict = validator.validate(&pset, ValidationMode::Strict);
    let permissive = validator.validate(&pset, ValidationMode::Permissive);
    let detail = |extra: serde_json::Value| json!({"schema": gs.to_cedar(&PrintStyle{unqualified:false, loose_json:false}), "policy": text, "env": format!("{:?}/{:?}/{:?}", env.principal_ty, env.action, env.resource_ty), "extra": extra});
    ctx.count(if strict.validation_passed() { "strict:accepted" } else { "strict:rejected" });
    ctx.count(if permissive.validation_passed() { "permissive:accepted" } else { "permissive:rejected" });

    // (d) non-vacuity on the fault-free family, and strict => permissive
    if faults == 0 {
        ctx.count("family:fault-free");
        if !strict.validation_passed() {
            let kinds: Vec<String> = strict.validation_errors().map(err_kind).collect();
            let msgs: Vec<String> = strict.validation_errors().map(|e| e.to_string()).collect();
            ctx.violation(&format!("C03:vacuity:strict-rejects:{}", kinds.first().cloned().unwrap_or_default()), format!("guarded, correctly typed policy rejected in strict mode: {} :: {:?}", text, msgs), detail(json!({"errors": msgs})));
        }
    } else {
        ctx.count("family:with-faults");
        if !strict.validation_passed() {
            for e in strict.validation_errors() {
                ctx.count(&format!("rejected-for:{}", err_kind(e)));
            }
        }
    }
    if strict.validation_passed() && !permissive.validation_passed() {
        let msgs: Vec<String> = permissive.validation_errors().map(|e| e.to_string()).collect();
        ctx.violation("C03:strict-accepted-permissive-rejected", format!("policy accepted strictly but rejected permissively: {} :: {:?}", text, msgs), detail(json!({"errors": msgs})));
    }
    if !strict.validation_passed() {
        return;
    }
    let impossible_warning = strict.validation_warnings().any(|w| matches!(w, cedar_policy::ValidationWarning::ImpossiblePolicy(_)));
    if impossible_warning {
        ctx.count("impossible_policy_warning");
    }

    // typed AST for this environment
    let vschema: &ValidatorSchema = schema.as_ref();
    let tc = Typechecker::new(vschema, cedar_policy_core::validator::ValidationMode::Strict);
    let core_policy: &ast::Policy = policy.as_ref();
    let template = core_policy.template();
    let mut typed: Option<(Expr<Option<Type>>, bool)> = None; // (typed condition, irrelevant?)
    for (renv, check) in tc.typecheck_by_request_env(template) {
        let matches_env = match &renv {
            cedar_policy_core::validator::types::RequestEnv::DeclaredAction { principal, action, resource, principal_slot, .. } => {
                principal.to_string() == env.principal_ty
                    && resource.to_string() == env.resource_ty
                    && bridge::core_uid_back(action) == env.action
                    && principal_slot.as_ref().map(|t| t.to_string()) == link_principal.as_ref().map(|u| u.ty.clone())
            }
            _ => false,
        };
        match check {
            PolicyCheck::Success(e) => {
                if matches_env {
                    typed = Some((e, false));
                }
            }
            PolicyCheck::Irrelevant(_, e) => {
                if matches_env {
                    typed = Some((e, true));
                }
            }
            PolicyCheck::Fail(errs) => {
                ctx.violation("C03:validate-vs-typecheck", format!("Validator::validate accepted `{}` but typecheck_by_request_env fails: {:?}", text, errs.iter().map(|e| e.to_string()).collect::<Vec<_>>()), detail(json!({})));
                return;
            }
        }
    }
    let (typed_expr, irrelevant) = match typed {
        Some(t) => t,
        None => {
            ctx.count("env_not_found_in_typecheck");
            return;
        }
    };
    if irrelevant {
        ctx.count("irrelevant_for_env");
    }
    // node-address -> annotated type, by walking the erased tree and the typed tree in lockstep
    let erased: Expr = typed_expr.clone().into_expr::<ExprBuilder<()>>();
    let mut types_by_addr: HashMap<usize, Type> = HashMap::new();
    let mut aligned = true;
    {
        let mut a = erased.subexpressions();
        let mut b = typed_expr.subexpressions();
        loop {
            match (a.next(), b.next()) {
                (Some(x), Some(y)) => {
                    if kind_idx(x) != kind_idx(y) {
                        aligned = false;
                    }
                    if let Some(t) = y.data() {
                        types_by_addr.insert(std::ptr::from_ref(x) as usize, t.clone());
                    }
                }
                (None, None) => break,
                _ => {
                    aligned = false;
                    break;
                }
            }
        }
    }
    if !aligned {
        ctx.count("typed_tree_not_aligned");
        return;
    }
    ctx.count("accepted_policy_env_pairs");
    let mut distinct_types: std::collections::BTreeSet<String> = Default::default();
    for t in types_by_addr.values() {
        distinct_types.insert(format!("{}", t));
    }
    ctx.max("distinct_annotated_types_in_one_policy", distinct_types.len() as u64);

    let n_worlds = if ctx.thorough() { 20 } else { 8 };
    let mut evaluated = 0;
    let auth = Authorizer::new();
    // the last two worlds carry one injected conformance fault each (wrongly typed value somewhere, missing
    // attribute, ...): the library's own validation normally refuses them (then they are skipped and counted);
    // if it accepts one, the property's precondition holds and the world is judged like any other
    for wi in 0..n_worlds + 2 {
        let mut w = wg.world(&mut ctx.rng, &env);
        if wi >= n_worlds {
            let class = *ctx.rng.pick(&super::c11::FAULT_CLASSES);
            match super::c11::inject(&mut ctx.rng, &gs, &env, &w, class) {
                Some(f) if !f.class.starts_with("action-entity") && f.class != "undeclared-action" => {
                    w = f.world;
                    ctx.count("faulted_world:generated");
                }
                _ => continue,
            }
        }
        let faulted = wi >= n_worlds;
        let req = match bridge::request(&w, Some(&schema)) {
            Ok(r) => r,
            Err(e) => {
                ctx.count("world_rejected:request");
                if ctx.verbose {
                    eprintln!("request rejected: {e}");
                }
                continue;
            }
        };
        let ents = match entities_with_schema(&w, &gs, &schema) {
            Ok(e) => e,
            Err(e) => {
                ctx.count("world_rejected:entities");
                if ctx.verbose {
                    eprintln!("entities rejected: {e}");
                }
                continue;
            }
        };
        evaluated += 1;
        if faulted {
            ctx.count("faulted_world:accepted-by-library-validation");
        }
        let wdetail = |extra: serde_json::Value| {
            let mut d = detail(extra);
            d["principal"] = json!(format!("{:?}", w.principal));
            d["resource"] = json!(format!("{:?}", w.resource));
            d["context"] = render::context_json(&w);
            d["entities"] = render::entities_json(&w);
            d
        };
        // (a) soundness at the authorizer boundary
        let resp = auth.is_authorized(&req, &pset, &ents);
        let mut satisfied = resp.diagnostics().reason().count() > 0;
        for e in resp.diagnostics().errors() {
            let cedar_policy::AuthorizationError::PolicyEvaluationError(pe) = e;
            let c = bridge::err_class(pe.inner());
            ctx.count(&format!("eval_error:{}", refsem::class_name(c)));
            if !matches!(c, refsem::MISSING_ENTITY | refsem::OVERFLOW | refsem::EXTENSION) {
                ctx.violation(&format!("C03:soundness:{}", refsem::class_name(c)), format!("strictly valid policy `{}` fails with a {} error: {}", text, refsem::class_name(c), pe.inner()), wdetail(json!({"error": pe.inner().to_string()})));
            }
        }
        if pol.effect == Effect::Forbid {
            // a satisfied forbid is also reported as reason
            satisfied = resp.diagnostics().reason().count() > 0;
        }
        // (c) impossible / irrelevant policies are never satisfied
        if (impossible_warning || irrelevant) && satisfied {
            ctx.violation("C03:impossible-policy-satisfied", format!("policy reported impossible for its environment is satisfied: {}", text), wdetail(json!({"impossible_warning": impossible_warning, "irrelevant": irrelevant})));
        }
        // (b) every evaluated sub-expression inhabits its annotated type (erased typed AST, trace hook)
        let creq: ast::Request = AsRef::<ast::Request>::as_ref(&req).clone();
        let ev = Evaluator::new(creq, ents.as_ref(), Extensions::all_available());
        cedar_policy_core::verif_hooks::start_trace();
        let r = ev.interpret(&erased, core_policy.env());
        let trace = cedar_policy_core::verif_hooks::take_trace();
        ctx.add("trace_events_checked", trace.len() as u64);
        for evn in &trace {
            if let (Ok(PartialValue::Value(v)), Some(t)) = (&evn.outcome, types_by_addr.get(&evn.node)) {
                if !inhabits(v, t) {
                    ctx.violation("C03:value-does-not-inhabit-type", format!("a sub-expression of `{}` evaluated to {} but was typed {}", text, v, t), wdetail(json!({"value": v.to_string(), "type": t.to_string()})));
                    break;
                }
            }
        }
        // the erased typed AST must tell the same story as the original condition
        let typed_sat = matches!(&r, Ok(v) if matches!(v.value, ValueKind::Lit(ast::Literal::Bool(true))));
        let typed_err = r.is_err();
        let orig_err = resp.diagnostics().errors().count() > 0;
        if typed_sat != satisfied || typed_err != orig_err {
            ctx.violation("C03:typed-ast-differs-from-source", format!("typed AST of `{}` evaluates to {:?} but the policy was satisfied={} errored={}", text, r.as_ref().map(|v| v.to_string()).map_err(|e| e.to_string()), satisfied, orig_err), wdetail(json!({})));
        }
        let _ = wi;
    }
    ctx.add("worlds_evaluated", evaluated);
    if evaluated >= 1 {
        ctx.nontrivial(&format!("{:?}|{:?}|{:?}", gs, pol, env));
    }
    ctx.sample(|| json!({"policy": text, "schema": gs.to_cedar(&PrintStyle{unqualified:false, loose_json:false}), "worlds": evaluated, "faults_injected": faults}));
    let _ = Rng::new(0);
}
