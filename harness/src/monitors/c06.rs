//! C06 — the structured policy formats (JSON/EST, PST, protobuf) are lossless.
//!
//! Case = a policy / template / linked policy set `p0` parsed from generated text (the C05
//! corpus: same generators and renderer), plus policy sets with templates and several links
//! per template, hostile policy ids, annotation-only variants.  Checked:
//!
//!  * generation 1: `from_json(to_json(p0))`, `from_pst(to_pst(p0))`, protobuf
//!    `decode(encode(p0))` (single static policies travel inside a singleton `PolicySet`,
//!    the trait is not implemented for `Policy`), and the object rebuilt from the AST alone;
//!  * generation 2: every generation-1 result pushed through every route again (this is what
//!    exercises AST->EST / AST->PST / PST->EST instead of CST->EST);
//!  * each result must equal `p0`: id, effect, annotations, scope constraints, slots, link
//!    bindings (`template_id`, `template_links`), condition shape (`Expr::eq_shape`), the
//!    public accessors, `==`; and must answer ~5 sampled requests exactly like `p0`
//!    (decision, reasons, erroring policies and their error class);
//!  * `ffi::policy_to_json(text)` / `ffi::template_to_json(text)` and `parse(text).to_json()`
//!    convert back to equal policies; `ffi::policy_to_text(json)` parses back to an equal policy;
//!  * a harness-written JSON policy (`render::est_policy`, includes forms text cannot spell
//!    such as explicit `>` / `!=` nodes) accepted by `from_json` evaluates like the reference
//!    model and exactly like the Cedar text it prints as;
//!  * protobuf round trips of `Expression`, `Entities`, `Request` and (a generated) `Schema`.

use super::c05::{self, LibWorld};
use super::common::*;
use crate::bridge::{self, Obs};
use crate::gen;
use crate::model::*;
use crate::pools;
use crate::refsem::{self, Slots};
use crate::render::{self, TextOpts};
use crate::report::CaseCtx;
use crate::rng::Rng;
use cedar_policy::proto::traits::Protobuf;
use cedar_policy::{
    Authorizer, Decision, Entities, EntityUid, Expression, Policy, PolicyId, PolicySet, Request, Schema, SlotId, Template, ValidationMode,
    Validator,
};
use cedar_policy_core::ast;
use serde_json::{json, Value as J};
use std::collections::{BTreeMap, BTreeSet, HashMap};
use std::str::FromStr;

const HOSTILE_IDS: [&str; 12] = ["p", "policy0", "", "a b", "q\"uote", "back\\slash", "nul\0x", "line\nbreak", "\u{1F600}", "?principal", "link", "JSON policy"];

fn viol(ctx: &mut CaseCtx, sig: &str, what: String, detail: J) {
    c05::viol(ctx, sig, what, detail)
}

// ------------------------------------------------------------------------------------------------
// observations

#[derive(Clone, Debug, PartialEq, Eq)]
struct RespObs {
    allow: bool,
    reasons: Vec<String>,
    errors: Vec<(String, u8)>,
}

fn observe(ps: &PolicySet, lw: &LibWorld) -> RespObs {
    let resp = Authorizer::new().is_authorized(&lw.req, ps, &lw.ents);
    let mut reasons: Vec<String> = resp.diagnostics().reason().map(|r| r.to_string()).collect();
    reasons.sort();
    let mut errors: Vec<(String, u8)> = resp
        .diagnostics()
        .errors()
        .map(|e| {
            let cedar_policy::AuthorizationError::PolicyEvaluationError(pe) = e;
            (pe.policy_id().to_string(), bridge::err_class(pe.inner()))
        })
        .collect();
    errors.sort();
    RespObs { allow: resp.decision() == Decision::Allow, reasons, errors }
}

fn pub_annotations<'a>(it: impl Iterator<Item = (&'a str, &'a str)>) -> BTreeMap<String, String> {
    it.map(|(k, v)| (k.to_string(), v.to_string())).collect()
}

/// first respect in which two policies differ (None = equal in everything the property lists)
fn policy_difference(a: &Policy, b: &Policy) -> Option<String> {
    if a.id() != b.id() {
        return Some("id".into());
    }
    if let Some(d) = c05::diff_policy(a.as_ref(), b.as_ref()) {
        return Some(d);
    }
    if a.template_id() != b.template_id() {
        return Some("template_id".into());
    }
    if a.template_links() != b.template_links() {
        return Some("template_links".into());
    }
    if a.effect() != b.effect() {
        return Some("effect(api)".into());
    }
    if pub_annotations(a.annotations()) != pub_annotations(b.annotations()) {
        return Some("annotations(api)".into());
    }
    if a.principal_constraint() != b.principal_constraint() || a.action_constraint() != b.action_constraint() || a.resource_constraint() != b.resource_constraint() {
        return Some("scope(api)".into());
    }
    if a != b {
        return Some("partial-eq".into());
    }
    None
}

fn template_difference(a: &Template, b: &Template) -> Option<String> {
    if a.id() != b.id() {
        return Some("id".into());
    }
    if let Some(d) = c05::diff_template(a.as_ref(), b.as_ref()) {
        return Some(d);
    }
    if a.effect() != b.effect() {
        return Some("effect(api)".into());
    }
    if pub_annotations(a.annotations()) != pub_annotations(b.annotations()) {
        return Some("annotations(api)".into());
    }
    if a.principal_constraint() != b.principal_constraint() || a.action_constraint() != b.action_constraint() || a.resource_constraint() != b.resource_constraint() {
        return Some("scope(api)".into());
    }
    let sa: BTreeSet<String> = a.slots().map(|s| s.to_string()).collect();
    let sb: BTreeSet<String> = b.slots().map(|s| s.to_string()).collect();
    if sa != sb {
        return Some("slots(api)".into());
    }
    if a != b {
        return Some("partial-eq".into());
    }
    None
}

fn set_difference(a: &PolicySet, b: &PolicySet) -> Option<String> {
    let ids = |ps: &PolicySet| -> BTreeSet<String> { ps.policies().map(|p| p.id().to_string()).collect() };
    let tids = |ps: &PolicySet| -> BTreeSet<String> { ps.templates().map(|p| p.id().to_string()).collect() };
    if ids(a) != ids(b) {
        return Some(format!("policy ids {:?} became {:?}", ids(a), ids(b)));
    }
    if tids(a) != tids(b) {
        return Some(format!("template ids {:?} became {:?}", tids(a), tids(b)));
    }
    // the object's two views of itself (public maps vs AST) must list the same things
    let ast_b: &ast::PolicySet = b.as_ref();
    let ast_ids: BTreeSet<String> = ast_b.policies().map(|p| p.id().to_string()).collect();
    let ast_tids: BTreeSet<String> = ast_b.templates().map(|p| p.id().to_string()).collect();
    if ast_ids != ids(b) || ast_tids != tids(b) {
        return Some(format!("inconsistent views: api {:?}/{:?}, ast {:?}/{:?}", ids(b), tids(b), ast_ids, ast_tids));
    }
    for p in a.policies() {
        match b.policy(p.id()) {
            None => return Some(format!("policy `{}` missing", p.id())),
            Some(q) => {
                if let Some(d) = policy_difference(p, q) {
                    return Some(format!("policy `{}`: {d}", p.id()));
                }
            }
        }
    }
    for t in a.templates() {
        match b.template(t.id()) {
            None => return Some(format!("template `{}` missing", t.id())),
            Some(u) => {
                if let Some(d) = template_difference(t, u) {
                    return Some(format!("template `{}`: {d}", t.id()));
                }
            }
        }
    }
    None
}

fn diff_class(d: &str) -> String {
    // "policy `x`: condition" -> "policy:condition"
    match d.split_once('`') {
        Some((head, rest)) => format!("{}:{}", head.trim(), rest.rsplit(": ").next().unwrap_or("").trim()),
        None => d.split(' ').take(2).collect::<Vec<_>>().join("-"),
    }
}

// ------------------------------------------------------------------------------------------------
// routes

const ROUTES: [&str; 3] = ["json", "pst", "proto"];

fn conv_policy(ctx: &mut CaseCtx, p: &Policy, route: &str) -> Result<Policy, String> {
    let id = p.id().clone();
    match route {
        "json" => {
            let j = p.to_json().map_err(|e| format!("to_json: {e}"))?;
            Policy::from_json(Some(id), j).map_err(|e| format!("from_json: {e}"))
        }
        "pst" => {
            let t = p.to_pst().map_err(|e| format!("to_pst: {e}"))?;
            Policy::from_pst(t).map_err(|e| format!("from_pst: {e}"))
        }
        "ast" => Ok(Policy::from(AsRef::<ast::Policy>::as_ref(p).clone())),
        _ => {
            let ps = PolicySet::from_policies([p.clone()]).map_err(|e| format!("from_policies: {e}"))?;
            let bytes = ps.encode().map_err(|e| format!("encode: {e}"))?;
            ctx.add("protobuf_bytes", bytes.len() as u64);
            ctx.max("protobuf_bytes", bytes.len() as u64);
            let back = PolicySet::decode(&bytes[..]).map_err(|e| format!("decode: {e}"))?;
            if back.num_of_policies() != 1 || back.num_of_templates() != 0 {
                return Err(format!("decode: singleton set came back with {} policies and {} templates", back.num_of_policies(), back.num_of_templates()));
            }
            back.policy(&id).cloned().ok_or_else(|| format!("decode: policy `{id}` is not in the decoded set"))
        }
    }
}

fn conv_template(ctx: &mut CaseCtx, t: &Template, route: &str) -> Result<Template, String> {
    let id = t.id().clone();
    match route {
        "json" => {
            let j = t.to_json().map_err(|e| format!("to_json: {e}"))?;
            Template::from_json(Some(id), j).map_err(|e| format!("from_json: {e}"))
        }
        "pst" => {
            let p = t.to_pst().map_err(|e| format!("to_pst: {e}"))?;
            Template::from_pst(p).map_err(|e| format!("from_pst: {e}"))
        }
        "ast" => Ok(Template::from(AsRef::<ast::Template>::as_ref(t).clone())),
        _ => {
            let bytes = t.encode().map_err(|e| format!("encode: {e}"))?;
            ctx.add("protobuf_bytes", bytes.len() as u64);
            ctx.max("protobuf_bytes", bytes.len() as u64);
            Template::decode(&bytes[..]).map_err(|e| format!("decode: {e}"))
        }
    }
}

fn conv_set(ctx: &mut CaseCtx, ps: &PolicySet, route: &str) -> Result<PolicySet, String> {
    match route {
        "json" => {
            let j = ps.clone().to_json().map_err(|e| format!("to_json: {e}"))?;
            PolicySet::from_json_value(j).map_err(|e| format!("from_json_value: {e}"))
        }
        "pst" => {
            let p = ps.to_pst().map_err(|e| format!("to_pst: {e}"))?;
            PolicySet::from_pst(p).map_err(|e| format!("from_pst: {e}"))
        }
        _ => {
            let bytes = ps.encode().map_err(|e| format!("encode: {e}"))?;
            ctx.add("protobuf_bytes", bytes.len() as u64);
            ctx.max("protobuf_bytes", bytes.len() as u64);
            PolicySet::decode(&bytes[..]).map_err(|e| format!("decode: {e}"))
        }
    }
}

fn is_depth_limit(msg: &str) -> bool {
    msg.contains("maximum encodable depth")
}

// ------------------------------------------------------------------------------------------------
// the monitor

pub fn case(ctx: &mut CaseCtx) {
    let w0 = gen::world(&mut ctx.rng);
    match ctx.rng.below(20) {
        0..=6 => single_policy(ctx, &w0),
        7..=9 => single_template(ctx, &w0),
        10..=16 => linked_set(ctx, &w0),
        17 => harness_json_only(ctx, &w0),
        _ => data_objects(ctx, &w0, true),
    }
}

fn pick_id(rng: &mut Rng) -> PolicyId {
    PolicyId::new(rng.pick(&HOSTILE_IDS))
}

fn single_policy(ctx: &mut CaseCtx, w0: &GWorld) {
    ctx.count("object:policy");
    let gp = c05::gen_policy(&mut ctx.rng, w0, Some(false), 8);
    let r = c05::render_policy(&gp, &mut ctx.rng, None);
    let text = &r.text;
    let id = pick_id(&mut ctx.rng);
    let p0 = match Policy::parse(Some(id.clone()), text) {
        Ok(p) => p,
        Err(_) => {
            ctx.count("text_rejected");
            return;
        }
    };
    let lws = match c05::lib_worlds(c05::worlds(&mut ctx.rng, w0, &[&gp], 5)) {
        Ok(x) => x,
        Err(e) => return ctx.harness_error(e),
    };
    let detail = |route: &str, what: String| json!({"object": "policy", "id": id.to_string(), "route": route, "text": text, "problem": what});
    let base: Vec<Result<(Decision, PolObs), String>> = lws.iter().map(|lw| authorize_single(p0.clone(), &lw.req, &lw.ents)).collect();

    let mut check = |ctx: &mut CaseCtx, route: &str, r: &Policy, n_worlds: usize| -> bool {
        if let Some(d) = policy_difference(&p0, r) {
            viol(ctx, &format!("C06:policy:{route}:{d}"), format!("policy `{text}` through {route}: {d} differs (now `{}`)", AsRef::<ast::Policy>::as_ref(r)), detail(route, d.clone()));
            return false;
        }
        for (lw, b) in lws.iter().zip(base.iter()).take(n_worlds) {
            let o = authorize_single(r.clone(), &lw.req, &lw.ents);
            if &o != b {
                viol(ctx, &format!("C06:policy:{route}:response"), format!("policy `{text}` through {route}: answers {:?}, the original {:?}", o, b), detail(route, format!("{:?} vs {:?}", o, b)));
                return false;
            }
            ctx.count("responses_equal");
        }
        ctx.count("objects_equal");
        true
    };

    let mut nontrivial_done = false;
    for r1 in ["json", "pst", "proto", "ast"] {
        let g1 = match conv_policy(ctx, &p0, r1) {
            Ok(x) => x,
            Err(m) if is_depth_limit(&m) => {
                ctx.count("encode_depth_limit");
                continue;
            }
            Err(m) => {
                viol(ctx, &format!("C06:policy:{r1}:conversion-failed"), format!("policy `{text}` through {r1}: {m}"), detail(r1, m));
                continue;
            }
        };
        ctx.count(&format!("conv:policy:{r1}:gen1"));
        if !check(ctx, r1, &g1, 5) {
            continue;
        }
        nontrivial_done = true;
        for r2 in ROUTES {
            let name = format!("{r1}>{r2}");
            match conv_policy(ctx, &g1, r2) {
                Ok(g2) => {
                    ctx.count(&format!("conv:policy:{name}:gen2"));
                    check(ctx, &name, &g2, 2);
                }
                Err(m) if is_depth_limit(&m) => ctx.count("encode_depth_limit"),
                Err(m) => viol(ctx, &format!("C06:policy:{name}:conversion-failed"), format!("policy `{text}` through {name}: {m}"), detail(&name, m)),
            }
        }
    }

    // ---- text -> JSON by the FFI helper vs parse(text).to_json()
    ffi_policy_routes(ctx, text, &id, &p0);

    // ---- harness-written JSON for the same intended policy
    harness_json(ctx, &gp, &lws, Some(&p0));

    // ---- the conditions as protobuf Expressions, the first world as protobuf Entities / Request
    for (_, e) in &gp.conds {
        proto_expression(ctx, e, &lws[0]);
    }
    if ctx.rng.chance(1, 3) {
        proto_world(ctx, &lws[0]);
    }

    let depth = c05::template_depth(AsRef::<ast::Policy>::as_ref(&p0).template());
    if nontrivial_done && depth >= 2 {
        ctx.nontrivial(&format!("policy|{}|{}", id, text));
    }
    ctx.sample(|| json!({"object": "policy", "id": id.to_string(), "text": text, "json": p0.to_json().unwrap_or(J::Null)}));
}

fn ffi_answer_json(ans: Result<J, serde_json::Error>) -> Result<J, String> {
    let v = ans.map_err(|e| e.to_string())?;
    if v["type"] == "success" {
        Ok(v)
    } else {
        Err(v.to_string())
    }
}

fn ffi_policy_routes(ctx: &mut CaseCtx, text: &str, id: &PolicyId, p0: &Policy) {
    use cedar_policy::ffi;
    let detail = |route: &str, what: String| json!({"object": "policy", "route": route, "text": text, "problem": what});
    // text -> JSON
    let direct = ffi_answer_json(serde_json::to_value(&ffi::policy_to_json(ffi::Policy::Cedar(text.to_string()))));
    let via_parse = p0.to_json();
    match (direct, via_parse) {
        (Ok(a), Ok(b)) => {
            ctx.count("conv:ffi:policy_to_json");
            let pa = Policy::from_json(Some(id.clone()), a["json"].clone());
            let pb = Policy::from_json(Some(id.clone()), b);
            match (pa, pb) {
                (Ok(pa), Ok(pb)) => {
                    if let Some(d) = policy_difference(&pa, &pb) {
                        viol(ctx, &format!("C06:ffi-text-to-json:{d}"), format!("`{text}`: JSON from ffi::policy_to_json and from parse().to_json() convert back to policies differing in {d}"), detail("ffi::policy_to_json", d.clone()));
                    } else if let Some(d) = policy_difference(p0, &pa) {
                        viol(ctx, &format!("C06:ffi-text-to-json-vs-original:{d}"), format!("`{text}`: JSON from ffi::policy_to_json converts back to a policy differing from the parsed one in {d}"), detail("ffi::policy_to_json", d.clone()));
                    } else {
                        ctx.count("objects_equal");
                    }
                }
                (a, b) => viol(ctx, "C06:ffi-text-to-json:from_json-failed", format!("`{text}`: from_json of library-made JSON failed: {:?} / {:?}", a.err().map(|e| e.to_string()), b.err().map(|e| e.to_string())), detail("ffi::policy_to_json", "from_json failed".into())),
            }
        }
        (a, b) => viol(ctx, "C06:ffi-text-to-json:failed", format!("`{text}` is accepted by Policy::parse but text->JSON failed: {:?} / {:?}", a.err(), b.err().map(|e| e.to_string())), detail("ffi::policy_to_json", "failed".into())),
    }
    // JSON -> text -> parse
    if let Ok(j) = p0.to_json() {
        if let Ok(fp) = serde_json::from_value::<ffi::Policy>(j) {
            match ffi_answer_json(serde_json::to_value(&ffi::policy_to_text(fp))) {
                Ok(a) => {
                    ctx.count("conv:ffi:policy_to_text");
                    let s = a["text"].as_str().unwrap_or("").to_string();
                    match Policy::parse(Some(id.clone()), &s) {
                        Ok(q) => match policy_difference(p0, &q) {
                            Some(d) => viol(ctx, &format!("C06:ffi-json-to-text:{d}"), format!("`{text}` -> JSON -> ffi::policy_to_text `{s}` parses to a policy differing in {d}"), detail("ffi::policy_to_text", d.clone())),
                            None => ctx.count("objects_equal"),
                        },
                        Err(e) => viol(ctx, "C06:ffi-json-to-text:unparsable", format!("`{text}` -> JSON -> ffi::policy_to_text `{s}` does not parse: {e}"), detail("ffi::policy_to_text", e.to_string())),
                    }
                }
                Err(m) => viol(ctx, "C06:ffi-json-to-text:failed", format!("`{text}`: ffi::policy_to_text refuses the library's own JSON: {m}"), detail("ffi::policy_to_text", m)),
            }
        }
    }
}

fn single_template(ctx: &mut CaseCtx, w0: &GWorld) {
    ctx.count("object:template");
    let gp = c05::gen_policy(&mut ctx.rng, w0, Some(true), 8);
    let r = c05::render_policy(&gp, &mut ctx.rng, None);
    let text = &r.text;
    let id = pick_id(&mut ctx.rng);
    let t0 = match Template::parse(Some(id.clone()), text) {
        Ok(p) => p,
        Err(_) => {
            ctx.count("text_rejected");
            return;
        }
    };
    let lws = match c05::lib_worlds(c05::worlds(&mut ctx.rng, w0, &[&gp], 5)) {
        Ok(x) => x,
        Err(e) => return ctx.harness_error(e),
    };
    let slots: Vec<Slots> = lws.iter().map(|lw| c05::slot_values(&mut ctx.rng, &lw.w, &gp)).collect();
    let detail = |route: &str, what: String| json!({"object": "template", "id": id.to_string(), "route": route, "text": text, "problem": what});
    let base: Vec<Result<(Decision, PolObs), String>> =
        lws.iter().zip(slots.iter()).map(|(lw, s)| c05::authorize_template(t0.clone(), c05::slot_map(s), &lw.req, &lw.ents)).collect();
    if let Some(Err(m)) = base.iter().find(|b| b.is_err()) {
        return ctx.harness_error(format!("linking the original template: {m}"));
    }

    let mut check = |ctx: &mut CaseCtx, route: &str, r: &Template, n_worlds: usize| -> bool {
        if let Some(d) = template_difference(&t0, r) {
            viol(ctx, &format!("C06:template:{route}:{d}"), format!("template `{text}` through {route}: {d} differs (now `{}`)", AsRef::<ast::Template>::as_ref(r)), detail(route, d.clone()));
            return false;
        }
        for ((lw, s), b) in lws.iter().zip(slots.iter()).zip(base.iter()).take(n_worlds) {
            let o = c05::authorize_template(r.clone(), c05::slot_map(s), &lw.req, &lw.ents);
            if &o != b {
                viol(ctx, &format!("C06:template:{route}:response"), format!("template `{text}` through {route}: answers {:?}, the original {:?}", o, b), detail(route, format!("{:?} vs {:?}", o, b)));
                return false;
            }
            ctx.count("responses_equal");
        }
        ctx.count("objects_equal");
        true
    };

    let mut nontrivial_done = false;
    for r1 in ["json", "pst", "proto", "ast"] {
        let g1 = match conv_template(ctx, &t0, r1) {
            Ok(x) => x,
            Err(m) if is_depth_limit(&m) => {
                ctx.count("encode_depth_limit");
                continue;
            }
            Err(m) => {
                viol(ctx, &format!("C06:template:{r1}:conversion-failed"), format!("template `{text}` through {r1}: {m}"), detail(r1, m));
                continue;
            }
        };
        ctx.count(&format!("conv:template:{r1}:gen1"));
        if !check(ctx, r1, &g1, 5) {
            continue;
        }
        nontrivial_done = true;
        for r2 in ROUTES {
            let name = format!("{r1}>{r2}");
            match conv_template(ctx, &g1, r2) {
                Ok(g2) => {
                    ctx.count(&format!("conv:template:{name}:gen2"));
                    check(ctx, &name, &g2, 2);
                }
                Err(m) if is_depth_limit(&m) => ctx.count("encode_depth_limit"),
                Err(m) => viol(ctx, &format!("C06:template:{name}:conversion-failed"), format!("template `{text}` through {name}: {m}"), detail(&name, m)),
            }
        }
    }

    // ffi text -> JSON
    {
        use cedar_policy::ffi;
        let direct = ffi_answer_json(serde_json::to_value(&ffi::template_to_json(ffi::Template::Cedar(text.to_string()))));
        match (direct, t0.to_json()) {
            (Ok(a), Ok(b)) => {
                ctx.count("conv:ffi:template_to_json");
                match (Template::from_json(Some(id.clone()), a["json"].clone()), Template::from_json(Some(id.clone()), b)) {
                    (Ok(ta), Ok(tb)) => {
                        if let Some(d) = template_difference(&ta, &tb).or_else(|| template_difference(&t0, &ta)) {
                            viol(ctx, &format!("C06:ffi-text-to-json:template:{d}"), format!("template `{text}`: JSON from ffi::template_to_json / parse().to_json() convert back to templates differing in {d}"), detail("ffi::template_to_json", d.clone()));
                        } else {
                            ctx.count("objects_equal");
                        }
                    }
                    _ => viol(ctx, "C06:ffi-text-to-json:from_json-failed", format!("template `{text}`: from_json of library-made JSON failed"), detail("ffi::template_to_json", "from_json failed".into())),
                }
            }
            (a, b) => viol(ctx, "C06:ffi-text-to-json:failed", format!("template `{text}` is accepted by Template::parse but text->JSON failed: {:?} / {:?}", a.err(), b.err().map(|e| e.to_string())), detail("ffi::template_to_json", "failed".into())),
        }
    }

    // harness-written JSON template
    harness_json_template(ctx, &gp, &lws, &slots);

    let depth = c05::template_depth(t0.as_ref());
    if nontrivial_done && depth >= 2 {
        ctx.nontrivial(&format!("template|{}|{}", id, text));
    }
    ctx.sample(|| json!({"object": "template", "id": id.to_string(), "text": text}));
}

/// harness-written EST for `gp` (static): accepted => evaluates like the reference model and like its own printed text
fn harness_json(ctx: &mut CaseCtx, gp: &GPolicy, lws: &[LibWorld], text_parsed: Option<&Policy>) {
    let est = render::est_policy(gp);
    let id = PolicyId::new("j");
    let pj = match Policy::from_json(Some(id.clone()), est.clone()) {
        Ok(p) => p,
        Err(e) => {
            ctx.count("harness_json:rejected");
            let m = format!("{:?}", miette::Report::new(e));
            if ctx.verbose {
                eprintln!("harness json rejected: {m}\n{est}");
            }
            ctx.count(&format!("harness_json_reject:{}", m.replace('\n', " ").chars().take(160).collect::<String>()));
            if text_parsed.is_some() {
                // the same intended policy was accepted as text: worth knowing, not a violation of C06
                ctx.count("harness_json:rejected_but_text_accepted");
            }
            return;
        }
    };
    ctx.count("harness_json:accepted");
    let detail = |what: String| json!({"object": "harness-json", "est": est, "gpolicy": format!("{:?}", gp), "problem": what});
    let printed: Vec<(&str, String)> = {
        let mut v = vec![("display", pj.to_string())];
        if let Some(s) = pj.to_cedar() {
            v.push(("to_cedar", s));
        }
        v
    };
    let mut reparsed: Vec<(&str, Policy)> = vec![];
    for (how, s) in &printed {
        match Policy::parse(Some(id.clone()), s) {
            Ok(q) => reparsed.push((how, q)),
            Err(e) => viol(ctx, &format!("C06:harness-json:printed-text-unparsable:{how}"), format!("JSON policy {est} prints ({how}) as `{s}` which does not parse: {e}"), detail(e.to_string())),
        }
    }
    for lw in lws {
        let exp = refsem::policy_outcome(gp, &lw.w, &Slots::default());
        let o = match authorize_single(pj.clone(), &lw.req, &lw.ents) {
            Ok(x) => x,
            Err(m) => {
                viol(ctx, "C06:harness-json:response-shape", m.clone(), detail(m));
                return;
            }
        };
        if !outcome_agrees(&exp, &o.1) {
            viol(ctx, "C06:harness-json:vs-model", format!("JSON policy {est}: evaluates to {:?}, the reference model says {:?}", o.1, exp), detail(format!("{:?} vs {:?}", o.1, exp)));
        } else {
            ctx.count("harness_json:agrees_with_model");
        }
        for (how, q) in &reparsed {
            match authorize_single(q.clone(), &lw.req, &lw.ents) {
                Ok(o2) if o2 == o => ctx.count("harness_json:agrees_with_printed_text"),
                o2 => viol(ctx, &format!("C06:harness-json:vs-printed-text:{how}"), format!("JSON policy {est} evaluates to {:?} but the text it prints as (`{}`) to {:?}", o, q, o2), detail(format!("{:?} vs {:?}", o, o2))),
            }
        }
        if let Some(p0) = text_parsed {
            // same intended policy through text: evidence only (structure may legitimately differ)
            if let Ok(o3) = authorize_single(p0.new_id(id.clone()), &lw.req, &lw.ents) {
                ctx.count(if o3 == o { "harness_json:same_as_text_policy" } else { "harness_json:differs_from_text_policy" });
            }
        }
    }
}

fn harness_json_template(ctx: &mut CaseCtx, gp: &GPolicy, lws: &[LibWorld], slots: &[Slots]) {
    let est = render::est_policy(gp);
    let id = PolicyId::new("jt");
    let tj = match Template::from_json(Some(id.clone()), est.clone()) {
        Ok(p) => p,
        Err(e) => {
            ctx.count("harness_json:rejected");
            ctx.count(&format!("harness_json_reject:{}", e.to_string().chars().take(50).collect::<String>()));
            return;
        }
    };
    ctx.count("harness_json:accepted");
    let detail = |what: String| json!({"object": "harness-json-template", "est": est, "gpolicy": format!("{:?}", gp), "problem": what});
    let mut reparsed: Vec<(&str, Template)> = vec![];
    for (how, s) in [("display", tj.to_string()), ("to_cedar", tj.to_cedar())] {
        match Template::parse(Some(id.clone()), &s) {
            Ok(q) => reparsed.push((how, q)),
            Err(e) => viol(ctx, &format!("C06:harness-json:printed-text-unparsable:{how}"), format!("JSON template {est} prints ({how}) as `{s}` which does not parse: {e}"), detail(e.to_string())),
        }
    }
    for (lw, s) in lws.iter().zip(slots.iter()) {
        let exp = refsem::policy_outcome(gp, &lw.w, s);
        let o = match c05::authorize_template(tj.clone(), c05::slot_map(s), &lw.req, &lw.ents) {
            Ok(x) => x,
            Err(m) => return ctx.harness_error(format!("harness json template: {m}")),
        };
        if !outcome_agrees(&exp, &o.1) {
            viol(ctx, "C06:harness-json:vs-model", format!("JSON template {est} linked with {:?}: evaluates to {:?}, the reference model says {:?}", s, o.1, exp), detail(format!("{:?} vs {:?}", o.1, exp)));
        } else {
            ctx.count("harness_json:agrees_with_model");
        }
        for (how, q) in &reparsed {
            match c05::authorize_template(q.clone(), c05::slot_map(s), &lw.req, &lw.ents) {
                Ok(o2) if o2 == o => ctx.count("harness_json:agrees_with_printed_text"),
                o2 => viol(ctx, &format!("C06:harness-json:vs-printed-text:{how}"), format!("JSON template {est} evaluates to {:?} but the text it prints as (`{}`) to {:?}", o, q, o2), detail(format!("{:?} vs {:?}", o, o2))),
            }
        }
    }
}

fn harness_json_only(ctx: &mut CaseCtx, w0: &GWorld) {
    ctx.count("object:harness-json");
    let tmpl = ctx.rng.chance(1, 4);
    let gp = c05::gen_policy(&mut ctx.rng, w0, Some(tmpl), 8);
    let lws = match c05::lib_worlds(c05::worlds(&mut ctx.rng, w0, &[&gp], 5)) {
        Ok(x) => x,
        Err(e) => return ctx.harness_error(e),
    };
    if tmpl {
        let slots: Vec<Slots> = lws.iter().map(|lw| c05::slot_values(&mut ctx.rng, &lw.w, &gp)).collect();
        harness_json_template(ctx, &gp, &lws, &slots);
    } else {
        harness_json(ctx, &gp, &lws, None);
    }
    if gp.conds.iter().any(|(_, e)| e.ops() >= 1) {
        ctx.nontrivial(&format!("hjson|{:?}", gp));
    }
}

// ------------------------------------------------------------------------------------------------
// linked policy sets

fn linked_set(ctx: &mut CaseCtx, w0: &GWorld) {
    ctx.count("object:policyset");
    // statements parsed together (ids policy<i>) ...
    let n = ctx.rng.below(4);
    let mut gps: Vec<GPolicy> = vec![];
    let mut text = String::new();
    for _ in 0..n {
        let t = if ctx.rng.chance(2, 5) { Some(true) } else { Some(false) };
        let gp = c05::gen_policy(&mut ctx.rng, w0, t, 6);
        let r = c05::render_policy(&gp, &mut ctx.rng, None);
        text.push_str(&r.text);
        text.push('\n');
        gps.push(gp);
    }
    let mut ps0 = match PolicySet::from_str(&text) {
        Ok(p) => p,
        Err(_) => {
            ctx.count("text_rejected");
            return;
        }
    };
    // (template id, its GPolicy)
    let mut templates: Vec<(PolicyId, GPolicy)> = gps.iter().enumerate().filter(|(_, g)| g.is_template()).map(|(i, g)| (PolicyId::new(format!("policy{i}")), g.clone())).collect();
    let mut texts: Vec<String> = vec![text.clone()];
    // ... plus individually added policies / templates under hostile ids, some differing only in annotations
    let extra = ctx.rng.below(4);
    let mut last_static: Option<GPolicy> = gps.iter().rev().find(|g| !g.is_template()).cloned();
    for k in 0..extra {
        let id = PolicyId::new(format!("{}{}", ctx.rng.pick(&HOSTILE_IDS), k));
        let as_template = ctx.rng.chance(2, 5);
        let gp = match (&last_static, as_template, ctx.rng.chance(1, 3)) {
            (Some(g), false, true) => {
                ctx.count("annotation_only_variant");
                let mut g = g.clone();
                g.annotations = vec![(ctx.rng.pick(&c05::ANNOT_KEYS).to_string(), ctx.rng.pick(&c05::ANNOT_VALS).to_string())];
                g
            }
            _ => c05::gen_policy(&mut ctx.rng, w0, Some(as_template), 6),
        };
        let r = c05::render_policy(&gp, &mut ctx.rng, None);
        let res = if as_template {
            Template::parse(Some(id.clone()), &r.text).map_err(|e| e.to_string()).and_then(|t| ps0.add_template(t).map_err(|e| e.to_string()))
        } else {
            Policy::parse(Some(id.clone()), &r.text).map_err(|e| e.to_string()).and_then(|p| ps0.add(p).map_err(|e| e.to_string()))
        };
        match res {
            Ok(()) => {
                texts.push(format!("[{}] {}", id, r.text));
                if as_template {
                    templates.push((id, gp.clone()));
                } else {
                    last_static = Some(gp.clone());
                }
                gps.push(gp);
            }
            Err(_) => ctx.count("extra_statement_refused"),
        }
    }
    // ... plus several links per template
    let mut n_links = 0usize;
    for (ti, (tid, gp)) in templates.iter().enumerate() {
        let k = ctx.rng.weighted(&[1, 3, 3, 2]);
        ctx.count(&format!("links_per_template:{k}"));
        for li in 0..k {
            let lid = PolicyId::new(format!("{}L{}_{}", ctx.rng.pick(&HOSTILE_IDS), ti, li));
            let slots = c05::slot_values(&mut ctx.rng, w0, gp);
            match ps0.link(tid.clone(), lid.clone(), c05::slot_map(&slots)) {
                Ok(()) => {
                    n_links += 1;
                    texts.push(format!("[{}] = link of [{}] with {:?}", lid, tid, slots));
                }
                Err(e) => return ctx.harness_error(format!("link: {e}")),
            }
        }
    }
    ctx.add("links_total", n_links as u64);
    ctx.max("links_in_a_set", n_links as u64);
    ctx.count(&format!("set_templates:{}", templates.len().min(4)));
    if ps0.is_empty() {
        ctx.count("empty_set");
    }

    let gp_refs: Vec<&GPolicy> = gps.iter().collect();
    let lws = match c05::lib_worlds(c05::worlds(&mut ctx.rng, w0, &gp_refs, 5)) {
        Ok(x) => x,
        Err(e) => return ctx.harness_error(e),
    };
    let base: Vec<RespObs> = lws.iter().map(|lw| observe(&ps0, lw)).collect();
    for b in &base {
        ctx.count(if b.allow { "set_decision:allow" } else { "set_decision:deny" });
        ctx.add("set_erroring_policies", b.errors.len() as u64);
    }
    let detail = |route: &str, what: String| json!({"object": "policyset", "route": route, "statements": texts, "problem": what});

    let mut check = |ctx: &mut CaseCtx, route: &str, r: &PolicySet, n_worlds: usize| -> bool {
        if let Some(d) = set_difference(&ps0, r) {
            viol(ctx, &format!("C06:set:{route}:{}", diff_class(&d)), format!("policy set {:?} through {route}: {d}", texts), detail(route, d));
            return false;
        }
        // `PolicySet: PartialEq` compares insertion-ordered maps, i.e. it is sensitive to the order in
        // which statements were added; the property does not speak about order, so this is evidence only
        ctx.count(if &ps0 == r { "set_partial_eq:equal" } else { "set_partial_eq:unequal(order-sensitive)" });
        for (lw, b) in lws.iter().zip(base.iter()).take(n_worlds) {
            let o = observe(r, lw);
            if &o != b {
                viol(ctx, &format!("C06:set:{route}:response"), format!("policy set {:?} through {route}: answers {:?}, the original {:?}", texts, o, b), detail(route, format!("{:?} vs {:?}", o, b)));
                return false;
            }
            ctx.count("responses_equal");
        }
        ctx.count("objects_equal");
        true
    };

    let mut nontrivial_done = false;
    for r1 in ROUTES {
        let g1 = match conv_set(ctx, &ps0, r1) {
            Ok(x) => x,
            Err(m) if is_depth_limit(&m) => {
                ctx.count("encode_depth_limit");
                continue;
            }
            Err(m) => {
                viol(ctx, &format!("C06:set:{r1}:conversion-failed"), format!("policy set {:?} through {r1}: {m}", texts), detail(r1, m));
                continue;
            }
        };
        ctx.count(&format!("conv:set:{r1}:gen1"));
        if !check(ctx, r1, &g1, 5) {
            continue;
        }
        nontrivial_done = true;
        for r2 in ROUTES {
            let name = format!("{r1}>{r2}");
            match conv_set(ctx, &g1, r2) {
                Ok(g2) => {
                    ctx.count(&format!("conv:set:{name}:gen2"));
                    check(ctx, &name, &g2, 2);
                }
                Err(m) if is_depth_limit(&m) => ctx.count("encode_depth_limit"),
                Err(m) => viol(ctx, &format!("C06:set:{name}:conversion-failed"), format!("policy set {:?} through {name}: {m}", texts), detail(&name, m)),
            }
        }
    }

    let has_cond = gps.iter().any(|g| g.conds.iter().any(|(_, e)| e.ops() >= 1));
    if nontrivial_done && has_cond {
        ctx.nontrivial(&format!("set|{:?}", texts));
    }
    ctx.sample(|| json!({"object": "policyset", "statements": texts, "links": n_links, "json": ps0.clone().to_json().unwrap_or(J::Null)}));
}

// ------------------------------------------------------------------------------------------------
// protobuf of the non-policy objects

fn proto_expression(ctx: &mut CaseCtx, e: &GExpr, lw: &LibWorld) {
    let text = {
        let mut o = TextOpts::random(&mut ctx.rng);
        render::expr_text(e, &mut o)
    };
    let x = match Expression::from_str(&text) {
        Ok(x) => x,
        Err(_) => return ctx.count("expression_text_rejected"),
    };
    let bytes = match x.encode() {
        Ok(b) => b,
        Err(err) => {
            if is_depth_limit(&err.to_string()) {
                return ctx.count("encode_depth_limit");
            }
            return viol(ctx, "C06:expression:proto:encode-failed", format!("Expression `{text}`: encode failed: {err}"), json!({"expr": text}));
        }
    };
    ctx.count("conv:expression:proto:gen1");
    ctx.add("protobuf_bytes", bytes.len() as u64);
    let y = match Expression::decode(&bytes[..]) {
        Ok(y) => y,
        Err(err) => return viol(ctx, "C06:expression:proto:decode-failed", format!("Expression `{text}`: decode of its own encoding failed: {err}"), json!({"expr": text})),
    };
    let (ax, ay): (&ast::Expr, &ast::Expr) = (x.as_ref(), y.as_ref());
    if !ax.eq_shape(ay) {
        return viol(ctx, "C06:expression:proto:shape", format!("Expression `{text}` decodes as `{ay}`"), json!({"expr": text, "decoded": ay.to_string()}));
    }
    let (ox, oy) = (interpret(ax, &lw.req, &lw.ents), interpret(ay, &lw.req, &lw.ents));
    match (ox, oy) {
        (Ok(a), Ok(b)) => {
            if a != b {
                viol(ctx, "C06:expression:proto:value", format!("Expression `{text}` evaluates to {} before and {} after protobuf", a.show(), b.show()), json!({"expr": text}));
            } else {
                ctx.count("objects_equal");
            }
        }
        (a, b) => {
            if a.is_err() != b.is_err() {
                ctx.harness_error(format!("interpret: {:?} / {:?}", a.err(), b.err()));
            }
        }
    }
}

fn proto_world(ctx: &mut CaseCtx, lw: &LibWorld) {
    let w = &lw.w;
    // ---- Entities
    match lw.ents.encode() {
        Err(e) => {
            if is_depth_limit(&e.to_string()) {
                ctx.count("encode_depth_limit");
            } else {
                viol(ctx, "C06:entities:proto:encode-failed", format!("Entities encode failed: {e}"), json!({"entities": render::entities_json(w)}));
            }
        }
        Ok(bytes) => {
            ctx.count("conv:entities:proto:gen1");
            ctx.add("protobuf_bytes", bytes.len() as u64);
            // `decode` (unlike `from_entities` / `from_json_*` without a schema) refuses action entities with
            // a non-action ancestor; such stores are only taken through `decode_unchecked`
            let action_with_foreign_parent = w.entities.keys().any(|u| is_action_type(&u.ty) && w.ancestors(u).iter().any(|p| !is_action_type(&p.ty)));
            let mut decoded = vec![("decode_unchecked", Entities::decode_unchecked(&bytes[..]))];
            if action_with_foreign_parent {
                ctx.count("entities_decode_skipped:action-with-non-action-ancestor");
            } else {
                decoded.push(("decode", Entities::decode(&bytes[..])));
            }
            for (how, d) in decoded {
                match d {
                    Err(e) => viol(ctx, &format!("C06:entities:proto:{how}-failed"), format!("Entities {how} of its own encoding failed: {e}"), json!({"entities": render::entities_json(w)})),
                    Ok(back) => match entities_vs_model(&back, w) {
                        Some(why) => viol(ctx, &format!("C06:entities:proto:{how}"), format!("Entities after protobuf ({how}): {why}"), json!({"entities": render::entities_json(w), "problem": why})),
                        None => {
                            let (a, b): (&cedar_policy_core::entities::Entities, &cedar_policy_core::entities::Entities) = (lw.ents.as_ref(), back.as_ref());
                            if !a.deep_eq(b) {
                                viol(ctx, &format!("C06:entities:proto:{how}:deep_eq"), "Entities after protobuf are not deep_eq to the original".into(), json!({"entities": render::entities_json(w)}));
                            } else {
                                ctx.count("objects_equal");
                            }
                        }
                    },
                }
            }
        }
    }
    // ---- Request
    match lw.req.encode() {
        Err(e) => {
            if is_depth_limit(&e.to_string()) {
                ctx.count("encode_depth_limit");
            } else {
                viol(ctx, "C06:request:proto:encode-failed", format!("Request encode failed: {e}"), json!({"context": render::context_json(w)}));
            }
        }
        Ok(bytes) => {
            ctx.count("conv:request:proto:gen1");
            ctx.add("protobuf_bytes", bytes.len() as u64);
            match Request::decode(&bytes[..]) {
                Err(e) => viol(ctx, "C06:request:proto:decode-failed", format!("Request decode of its own encoding failed: {e}"), json!({"context": render::context_json(w)})),
                Ok(back) => {
                    let u = |x: Option<&EntityUid>| x.map(bridge::uid_back);
                    let mut why = None;
                    if u(back.principal()) != Some(w.principal.clone()) {
                        why = Some("principal");
                    } else if u(back.action()) != Some(w.action.clone()) {
                        why = Some("action");
                    } else if u(back.resource()) != Some(w.resource.clone()) {
                        why = Some("resource");
                    } else if back.context() != lw.req.context() {
                        why = Some("context");
                    } else {
                        // the context as the evaluator sees it, against the model
                        let cx = ast::Expr::var(ast::Var::Context);
                        match interpret(&cx, &back, &lw.ents) {
                            Ok(Obs::Val(GValue::Rec(m))) if m == w.context => {}
                            Ok(_) => why = Some("context-value"),
                            Err(m) => return ctx.harness_error(m),
                        }
                    }
                    match why {
                        Some(f) => viol(ctx, &format!("C06:request:proto:{f}"), format!("Request after protobuf: {f} differs"), json!({"context": render::context_json(w), "principal": format!("{:?}", w.principal)})),
                        None => ctx.count("objects_equal"),
                    }
                }
            }
        }
    }
}

fn is_action_type(ty: &str) -> bool {
    ty == "Action" || ty.ends_with("::Action")
}

/// decoded entities against the harness's own world (uids, attributes, tags, ancestor closure)
fn entities_vs_model(back: &Entities, w: &GWorld) -> Option<String> {
    let core: &cedar_policy_core::entities::Entities = back.as_ref();
    let n = core.iter().count();
    if n != w.entities.len() {
        return Some(format!("{} entities became {}", w.entities.len(), n));
    }
    for e in core.iter() {
        let uid = bridge::core_uid_back(e.uid());
        let Some(m) = w.entities.get(&uid) else { return Some(format!("unexpected entity {:?}", uid)) };
        let mut attrs = BTreeMap::new();
        for (k, v) in e.attrs() {
            match v {
                ast::PartialValue::Value(v) => match bridge::value_back(v) {
                    Ok(g) => {
                        attrs.insert(k.to_string(), g);
                    }
                    Err(m) => return Some(format!("attribute {k} of {:?}: {m}", uid)),
                },
                _ => return Some(format!("attribute {k} of {:?} became a residual", uid)),
            }
        }
        if attrs != m.attrs {
            return Some(format!("attributes of {:?}: {:?} became {:?}", uid, m.attrs, attrs));
        }
        let mut tags = BTreeMap::new();
        for (k, v) in e.tags() {
            match v {
                ast::PartialValue::Value(v) => match bridge::value_back(v) {
                    Ok(g) => {
                        tags.insert(k.to_string(), g);
                    }
                    Err(m) => return Some(format!("tag {k} of {:?}: {m}", uid)),
                },
                _ => return Some(format!("tag {k} of {:?} became a residual", uid)),
            }
        }
        if tags != m.tags {
            return Some(format!("tags of {:?}: {:?} became {:?}", uid, m.tags, tags));
        }
        let anc: BTreeSet<Uid> = e.ancestors().map(bridge::core_uid_back).collect();
        if anc != w.ancestors(&uid) {
            return Some(format!("ancestors of {:?}: {:?} became {:?}", uid, w.ancestors(&uid), anc));
        }
    }
    None
}

// ------------------------------------------------------------------------------------------------
// schema

const S_TYPES: [&str; 4] = ["A", "B", "C", "E"]; // E is an enumerated type when present

fn attr_type(rng: &mut Rng, depth: usize, types: &[String]) -> (J, &'static str) {
    match rng.below(if depth == 0 { 7 } else { 9 }) {
        0 => (json!({"type": "Long"}), "long"),
        1 => (json!({"type": "String"}), "string"),
        2 => (json!({"type": "Boolean"}), "bool"),
        3 => (json!({"type": "Entity", "name": rng.pick_clone(types)}), "entity"),
        4 => (json!({"type": "Extension", "name": *rng.pick(&["ipaddr", "decimal", "datetime", "duration"])}), "ext"),
        5 => (json!({"type": "T"}), "long"),
        6 => (json!({"type": "Set", "element": {"type": "String"}}), "set-string"),
        7 => {
            let (t, _) = attr_type(rng, 0, types);
            (json!({"type": "Set", "element": t}), "set")
        }
        _ => {
            let mut m = serde_json::Map::new();
            for _ in 0..rng.below(3) {
                let (t, _) = attr_type(rng, 0, types);
                let mut t = t;
                if rng.bool() {
                    t["required"] = json!(false);
                }
                m.insert(rng.pick(&pools::ATTRS).to_string(), t);
            }
            (json!({"type": "Record", "attributes": m}), "record")
        }
    }
}

/// (schema JSON, probes: (entity type, attribute, kind))
fn gen_schema(rng: &mut Rng) -> (J, Vec<(String, String, &'static str)>) {
    let mut probes = vec![];
    let with_ns = rng.bool();
    let with_enum = rng.bool();
    let mut all_types: Vec<String> = vec!["A".into(), "B".into(), "C".into()];
    if with_enum {
        all_types.push("E".into());
    }
    let _ = S_TYPES;
    let mut ets = serde_json::Map::new();
    for t in ["A", "B", "C"] {
        let mut attrs = serde_json::Map::new();
        for _ in 0..rng.below(4) {
            let name = rng.pick(&pools::PLAIN_ATTRS).to_string();
            let (mut ty, kind) = attr_type(rng, 1, &all_types);
            if rng.chance(1, 3) {
                ty["required"] = json!(false);
            }
            if !attrs.contains_key(&name) {
                probes.push((t.to_string(), name.clone(), kind));
            }
            attrs.insert(name, ty);
        }
        let mut parents: Vec<String> = vec![];
        for p in ["A", "B", "C"] {
            if rng.chance(1, 3) {
                parents.push(p.to_string());
            }
        }
        let mut et = json!({"shape": {"type": "Record", "attributes": attrs}, "memberOfTypes": parents});
        if rng.chance(1, 3) {
            et["tags"] = attr_type(rng, 0, &all_types).0;
        }
        ets.insert(t.to_string(), et);
    }
    if with_enum {
        ets.insert("E".into(), json!({"enum": ["a", "b", "a b", "q\"uote"]}));
    }
    let subset = |rng: &mut Rng, from: &[String]| -> Vec<String> {
        let mut v: Vec<String> = from.iter().filter(|_| rng.bool()).cloned().collect();
        if v.is_empty() {
            v.push(from[rng.below(from.len())].clone());
        }
        v
    };
    let mut actions = serde_json::Map::new();
    actions.insert("all".into(), json!({}));
    for a in ["view", "edit", "a b"] {
        if rng.chance(1, 4) {
            continue;
        }
        let mut ctx_attrs = serde_json::Map::new();
        for _ in 0..rng.below(3) {
            let (mut ty, _) = attr_type(rng, 1, &all_types);
            if rng.chance(1, 3) {
                ty["required"] = json!(false);
            }
            ctx_attrs.insert(rng.pick(&pools::PLAIN_ATTRS).to_string(), ty);
        }
        let mut act = json!({"appliesTo": {"principalTypes": subset(rng, &all_types), "resourceTypes": subset(rng, &all_types), "context": {"type": "Record", "attributes": ctx_attrs}}});
        if rng.bool() {
            act["memberOf"] = json!([{"id": "all"}]);
        }
        actions.insert(a.to_string(), act);
    }
    let mut schema = serde_json::Map::new();
    schema.insert("".into(), json!({"commonTypes": {"T": {"type": "Long"}}, "entityTypes": ets, "actions": actions}));
    if with_ns {
        schema.insert(
            "N".into(),
            json!({
                "entityTypes": {"X": {"shape": {"type": "Record", "attributes": {"x": {"type": "Long"}, "up": {"type": "Entity", "name": "N::X", "required": false}, "a": {"type": "Entity", "name": "A"}}}, "memberOfTypes": ["X", "A"]}},
                "actions": {"nview": {"appliesTo": {"principalTypes": ["X", "A"], "resourceTypes": ["X"]}}}
            }),
        );
    }
    (J::Object(schema), probes)
}

fn schema_observables(s: &Schema) -> Result<BTreeMap<String, Vec<String>>, String> {
    let mut m: BTreeMap<String, Vec<String>> = BTreeMap::new();
    let mut put = |k: &str, mut v: Vec<String>| {
        v.sort();
        m.insert(k.to_string(), v);
    };
    put("principals", s.principals().map(|x| x.to_string()).collect());
    put("resources", s.resources().map(|x| x.to_string()).collect());
    put("entity_types", s.entity_types().map(|x| x.to_string()).collect());
    put("actions", s.actions().map(|x| x.to_string()).collect());
    put("action_groups", s.action_groups().map(|x| x.to_string()).collect());
    put("request_envs", s.request_envs().map(|x| format!("{:?}", x)).collect());
    let actions: Vec<EntityUid> = s.actions().cloned().collect();
    for a in &actions {
        if let Some(it) = s.principals_for_action(a) {
            put(&format!("principals_for:{a}"), it.map(|x| x.to_string()).collect());
        }
        if let Some(it) = s.resources_for_action(a) {
            put(&format!("resources_for:{a}"), it.map(|x| x.to_string()).collect());
        }
    }
    let types: Vec<cedar_policy::EntityTypeName> = s.entity_types().cloned().collect();
    for t in &types {
        if let Some(it) = s.ancestors(t) {
            put(&format!("ancestors:{t}"), it.map(|x| x.to_string()).collect());
        }
    }
    let ae = s.action_entities().map_err(|e| e.to_string())?;
    let aj = ae.to_json_value().map_err(|e| e.to_string())?;
    put("action_entities", aj.as_array().map(|a| a.iter().map(|x| x.to_string()).collect()).unwrap_or_default());
    Ok(m)
}

fn probe_policies(probes: &[(String, String, &'static str)]) -> String {
    let mut s = String::new();
    for (t, a, kind) in probes {
        let use_ = match *kind {
            "long" => format!("principal.{a} > 0"),
            "string" => format!("principal.{a} like \"*\""),
            "bool" => format!("principal.{a} || true"),
            "entity" => format!("principal.{a} in principal"),
            "set-string" => format!("principal.{a}.contains(\"x\")"),
            "set" => format!("principal.{a}.isEmpty()"),
            "record" => format!("principal.{a} == principal.{a}"),
            _ => format!("principal.{a} == principal.{a}"),
        };
        // guarded and unguarded use: the second is an error exactly when the attribute is optional
        s.push_str(&format!("permit(principal is {t}, action, resource) when {{ principal has {a} && {use_} }};\n"));
        s.push_str(&format!("permit(principal is {t}, action, resource) when {{ {use_} }};\n"));
        s.push_str(&format!("permit(principal is {t}, action, resource) when {{ principal.{a} > 0 }};\n"));
    }
    s.push_str("permit(principal, action == Action::\"view\", resource) when { context has x && context.x == context.x };\n");
    s.push_str("permit(principal, action in Action::\"all\", resource);\n");
    s
}

fn validation_fingerprint(s: Schema, ps: &PolicySet) -> Vec<String> {
    let v = Validator::new(s);
    let r = v.validate(ps, ValidationMode::Strict);
    let mut out: Vec<String> = r.validation_errors().map(|e| e.to_string()).collect();
    out.extend(r.validation_warnings().map(|e| format!("W:{e}")));
    out.sort();
    out
}

fn proto_schema(ctx: &mut CaseCtx) {
    let (sj, probes) = gen_schema(&mut ctx.rng);
    let s0 = match Schema::from_json_value(sj.clone()) {
        Ok(s) => s,
        Err(e) => {
            ctx.count("schema_rejected");
            ctx.count(&format!("schema_reject:{}", e.to_string().chars().take(50).collect::<String>()));
            return;
        }
    };
    let bytes = match s0.encode() {
        Ok(b) => b,
        Err(e) => return viol(ctx, "C06:schema:proto:encode-failed", format!("Schema encode failed: {e}"), json!({"schema": sj})),
    };
    ctx.count("conv:schema:proto:gen1");
    ctx.add("protobuf_bytes", bytes.len() as u64);
    let s1 = match Schema::decode(&bytes[..]) {
        Ok(s) => s,
        Err(e) => return viol(ctx, "C06:schema:proto:decode-failed", format!("Schema decode of its own encoding failed: {e}"), json!({"schema": sj})),
    };
    let (o0, o1) = match (schema_observables(&s0), schema_observables(&s1)) {
        (Ok(a), Ok(b)) => (a, b),
        (a, b) => return viol(ctx, "C06:schema:proto:action-entities", format!("action_entities(): {:?} / {:?}", a.err(), b.err()), json!({"schema": sj})),
    };
    if o0 != o1 {
        let k = o0.iter().find(|(k, v)| o1.get(*k) != Some(v)).map(|(k, _)| k.clone()).or_else(|| o1.keys().find(|k| !o0.contains_key(*k)).cloned()).unwrap_or_default();
        return viol(ctx, &format!("C06:schema:proto:{}", k.split(':').next().unwrap_or("")), format!("Schema after protobuf: {k}: {:?} became {:?}", o0.get(&k), o1.get(&k)), json!({"schema": sj, "key": k}));
    }
    let ptext = probe_policies(&probes);
    match PolicySet::from_str(&ptext) {
        Ok(ps) => {
            let (f0, f1) = (validation_fingerprint(s0, &ps), validation_fingerprint(s1, &ps));
            ctx.add("schema_validation_findings", f0.len() as u64);
            if f0 != f1 {
                return viol(ctx, "C06:schema:proto:validation", format!("Schema after protobuf validates the probe policies differently: {:?} became {:?}", f0, f1), json!({"schema": sj, "policies": ptext}));
            }
        }
        Err(e) => return ctx.harness_error(format!("probe policies: {e}")),
    }
    ctx.count("objects_equal");
    ctx.count("schemas_equal");
}

fn data_objects(ctx: &mut CaseCtx, w0: &GWorld, with_schema: bool) {
    ctx.count("object:data");
    let lws = match c05::lib_worlds(vec![w0.clone()]) {
        Ok(x) => x,
        Err(e) => return ctx.harness_error(e),
    };
    proto_world(ctx, &lws[0]);
    for _ in 0..2 {
        let (e, _) = c05::condition(&mut ctx.rng, w0, 8);
        proto_expression(ctx, &e, &lws[0]);
    }
    if with_schema {
        proto_schema(ctx);
    }
}

#[allow(dead_code)]
fn unused(_: HashMap<SlotId, EntityUid>) {}
